package vh

import (
	"encoding/json"
	"strconv"
)

// BStr is a byte string that survives JSON exactly (encoding/json would replace invalid
// UTF-8 by U+FFFD): it is stored as a Go-quoted ASCII literal inside a JSON string.
type BStr string

func (b BStr) MarshalJSON() ([]byte, error) {
	return json.Marshal(strconv.QuoteToASCII(string(b)))
}

func (b *BStr) UnmarshalJSON(data []byte) error {
	var q string
	if err := json.Unmarshal(data, &q); err != nil {
		return err
	}
	s, err := strconv.Unquote(q)
	if err != nil {
		// tolerate plain strings in hand-written files
		s = q
	}
	*b = BStr(s)
	return nil
}

func q(s string) string { return strconv.QuoteToASCII(s) }
