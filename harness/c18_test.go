package vh

// C18 — rendering never modifies the caller's data.
//
// Oracles: (1) a deep snapshot of the context (including the spare capacity of every slice's
// backing array) taken before the render equals the snapshot taken after it; (2) a second
// render that shares the same data gives the result of a pristine render (fresh engine, fresh
// materialisation of the context); (3) two renders sharing the data concurrently, under the
// race detector, produce no report.

import (
	"fmt"
	"github.com/semihalev/twig"
	"io"
	"reflect"
	"sort"
	"strings"
	"sync"
	"testing"

	"pgregory.net/rapid"
)

type C18Case struct {
	Ctx  Ctx               `json:"ctx"`
	Tmpl map[string]string `json:"tmpl"`
	// Debug: the engine runs with SetDebug(true) (its Render takes another route then)
	Debug bool `json:"debug,omitempty"`
}

// snapshot renders a value into a canonical string, walking slices up to their capacity.
func snapshot(v interface{}) string {
	var b strings.Builder
	seen := map[uintptr]bool{}
	var walk func(rv reflect.Value, depth int)
	walk = func(rv reflect.Value, depth int) {
		if depth > 12 {
			b.WriteString("…")
			return
		}
		if !rv.IsValid() {
			b.WriteString("<invalid>")
			return
		}
		switch rv.Kind() {
		case reflect.Interface:
			if rv.IsNil() {
				b.WriteString("nil")
				return
			}
			walk(rv.Elem(), depth)
		case reflect.Ptr:
			if rv.IsNil() {
				b.WriteString("nilptr")
				return
			}
			if seen[rv.Pointer()] {
				b.WriteString("<seen>")
				return
			}
			seen[rv.Pointer()] = true
			b.WriteString("&")
			walk(rv.Elem(), depth+1)
		case reflect.Slice:
			fmt.Fprintf(&b, "%s(len=%d,cap=%d)[", rv.Type(), rv.Len(), rv.Cap())
			full := rv
			if rv.Cap() > rv.Len() {
				full = rv.Slice(0, rv.Cap())
			}
			for i := 0; i < full.Len(); i++ {
				if i == rv.Len() {
					b.WriteString("| ")
				}
				walk(full.Index(i), depth+1)
				b.WriteString(" ")
			}
			b.WriteString("]")
		case reflect.Array:
			b.WriteString("array[")
			for i := 0; i < rv.Len(); i++ {
				walk(rv.Index(i), depth+1)
				b.WriteString(" ")
			}
			b.WriteString("]")
		case reflect.Map:
			keys := rv.MapKeys()
			sort.Slice(keys, func(i, j int) bool { return fmt.Sprint(keys[i]) < fmt.Sprint(keys[j]) })
			fmt.Fprintf(&b, "%s(%d){", rv.Type(), rv.Len())
			for _, k := range keys {
				fmt.Fprintf(&b, "%v:", k)
				walk(rv.MapIndex(k), depth+1)
				b.WriteString(" ")
			}
			b.WriteString("}")
		case reflect.Struct:
			b.WriteString(rv.Type().String() + "{")
			for i := 0; i < rv.NumField(); i++ {
				f := rv.Field(i)
				if f.CanInterface() {
					walk(f, depth+1)
				} else {
					fmt.Fprintf(&b, "%v", f)
				}
				b.WriteString(" ")
			}
			b.WriteString("}")
		default:
			fmt.Fprintf(&b, "%v", rv)
		}
	}
	walk(reflect.ValueOf(v), 0)
	return b.String()
}

func checkC18(c C18Case) error {
	data := zooCtx(c.Ctx, 0)
	before := snapshot(data)
	e := newEngine(c.Tmpl)
	NewSpies().Install(e)
	e.EnableSandbox(allowAll{})
	if c.Debug {
		twig.SetDebugWriter(io.Discard)
		e.SetDebug(true)
		defer e.SetDebug(false)
	}
	r1 := render(e, "main", data)
	if r1.Panic != "" {
		return fmt.Errorf("panic: %s; templates:%s", r1.Panic, showSources(c.Tmpl))
	}
	after := snapshot(data)
	if before != after {
		return fmt.Errorf("the render changed the caller's data:\n before %s\n after  %s\n templates:%s", before, after, showSources(c.Tmpl))
	}
	// pristine result: fresh engine, fresh data
	e2 := newEngine(c.Tmpl)
	NewSpies().Install(e2)
	e2.EnableSandbox(allowAll{})
	want := render(e2, "main", zooCtx(c.Ctx, 0))
	r2 := render(e, "main", data)
	if (r2.Err != "") != (want.Err != "") || r2.Out != want.Out {
		return fmt.Errorf("second render on the same data gives %v, a pristine render gives %v; templates:%s", r2, want, showSources(c.Tmpl))
	}
	if snapshot(data) != before {
		return fmt.Errorf("the second render changed the caller's data; templates:%s", showSources(c.Tmpl))
	}
	return nil
}

// ---- generator ------------------------------------------------------------------------------

var c18Colls = []string{"xs", "xs_alias", "ts", "ss", "arr", "nest.inner", "st.Tags", "pst.Tags", "ys", "row", "names", "nints", "dict.inner"}
var c18Maps = []string{"m", "m_alias", "tm", "nest", "dict"}

func c18Ctx(t *rapid.T) Ctx {
	var c Ctx
	n := rapid.IntRange(2, 6).Draw(t, "n")
	mk := func(label string) []*E {
		out := make([]*E, n)
		for i := range out {
			out[i] = Int(int64(rapid.IntRange(0, 30).Draw(t, label)))
		}
		return out
	}
	c.Set("xs", List(mk("x")...))
	c.Set("xs_alias", Null())
	c.Set("ys", List(mk("y")...))
	c.Set("ts", ZT(List(mk("t")...), "[]int"))
	c.Set("ss", ZT(List(Str("b"), Str("a"), Str("c")), "[]string"))
	c.Set("arr", ZT(List(Int(3), Int(1), Int(2)), "[3]int"))
	c.Set("m", Hash([]string{"b", "a", "c"}, []*E{Int(2), Int(1), Int(3)}))
	c.Set("m_alias", Null())
	c.Set("tm", ZT(Hash([]string{"y", "x"}, []*E{Int(2), Int(1)}), "map[string]int"))
	c.Set("nest", Hash([]string{"inner", "k"}, []*E{List(mk("in")...), Int(5)}))
	c.Set("row", ZT(List(mk("r")...), "named[]iface"))
	c.Set("names", ZT(List(Str("n3"), Str("n1"), Str("n2")), "named[]string"))
	c.Set("nints", ZT(List(mk("ni")...), "named[]int"))
	c.Set("dict", ZT(Hash([]string{"z", "inner", "a"}, []*E{Int(1), ZT(List(mk("di")...), "named[]iface"), Int(2)}), "namedmap"))
	// YAML-decoder shape: interface-keyed maps nested in string-keyed maps and lists
	c.Set("yaml", Hash([]string{"cfg", "items", "n"}, []*E{ZT(Hash([]string{"host", "port"}, []*E{Str("h"), Int(80)}), "map[iface]"),
		List(ZT(Hash([]string{"k"}, []*E{Int(1)}), "map[iface]"), Int(2)), Int(3)}))
	c.Set("st", ZT(Hash([]string{"Name", "Tags"}, []*E{Str("nm"), List(Str("t2"), Str("t1"))}), "struct"))
	c.Set("pst", ZT(Hash([]string{"Name", "Tags"}, []*E{Str("pn"), List(Str("q2"), Str("q1"))}), "ptrstruct"))
	// pointers to structs that embed another struct through a nil pointer (reading a promoted field
	// must not fill the pointer in)
	c.Set("deep", Hash([]string{"a", "l"}, []*E{Hash([]string{"b", "b2"}, []*E{Hash([]string{"c"}, []*E{Int(1)}), Hash([]string{"c"}, []*E{Int(2)})}), List(Hash([]string{"x"}, []*E{Int(0)}))}))
	c.Set("pe", ZT(Hash(nil, nil), "ptrembed"))
	c.Set("pes", ZT(Hash(nil, nil), "ptrembedlist"))
	c.Set("pe_set", ZT(Hash([]string{"City"}, []*E{Str("Oslo")}), "ptrembed"))
	if rapid.IntRange(0, 3).Draw(t, "bigctx") == 0 {
		// a context with many entries (thresholds in how the engine takes the caller's map over)
		for i := 0; i < rapid.SampledFrom([]int{100, 127, 128, 129, 200, 600}).Draw(t, "nfill"); i++ {
			c.Set(fmt.Sprintf("fill%03d", i), Int(int64(i)))
		}
	}
	return c
}

var c18ListFilters = []string{"sort", "reverse", "merge([9, 8])", "merge(ys)", "slice(0, 2)", "slice(1)", "default([7])", "sort|reverse", "merge(xs)", "slice(-2)"}
var c18Ends = []string{"join(',')", "first", "last", "length", "json_encode", "join"}

func c18Chain(t *rapid.T, subject string) string {
	n := rapid.IntRange(1, 4).Draw(t, "chainlen")
	e := subject
	for i := 0; i < n; i++ {
		e += "|" + rapid.SampledFrom(c18ListFilters).Draw(t, "lf")
	}
	return e
}

var c18Corners = []string{
	"{% if nest.k > 100 %}x{% else %}{% set fresh = 1 %}{{ fresh }}{% endif %}",
	"{% if false %}a{% elseif true %}{% set fresh2 = xs|length %}{% endif %}",
	"{% if nest.k %}{% if false %}{% else %}{% set xs = [] %}{% endif %}{% endif %}{{ xs|length }}",
	"{% apply upper %}{% if false %}{% else %}{% set m = 1 %}{% endif %}{% endapply %}",
	"{% block b %}{% if false %}{% else %}{% set ys = 0 %}{% endif %}{% endblock %}",
	"{% spaceless %}{% if false %}{% else %}{% set fresh3 = 'v' %}{% endif %}{% endspaceless %}",
	"{% if false %}{% else %}{% for x in xs %}{% endfor %}{% endif %}",
	"{% if false %}{% else %}{% for k, v in m %}{% endfor %}{% endif %}",
	"{% verbatim %}raw{% endverbatim %}{% if false %}{% else %}{% do 1 %}{% set z9 = 2 %}{% endif %}",
	"{% if false %}{% elseif false %}{% else %}{% if true %}{% set deep = ys %}{% endif %}{% endif %}{{ deep|join }}",
	"{{ xs|join }}{% if xs %}{% else %}{% endif %}{% if ys|length > 100 %}{% else %}{% set ys = ys|merge([1]) %}{% endif %}",
	"{% set only = 1 %}",
	"{% for x in xs %}{% endfor %}",
	"{% include 'inc' with {'l': xs} %}",
	"{% import 'lib' as m %}",
	"{% from 'lib' import tag as xs %}",
	"{% macro xs() %}{% endmacro %}",
}

func genC18(t *rapid.T) (C18Case, []string) {
	ctx := c18Ctx(t)
	tm := map[string]string{"inc": "{% set l = l|merge([100]) %}{% for q in l %}{% set q = 0 %}{% endfor %}{{ l|sort|join(',') }}",
		"lib": "{% macro tag(x) %}<{{ x }}>{% endmacro %}{% macro other() %}o{% endmacro %}"}
	var parts []string
	var cl []string
	np := rapid.IntRange(1, 4).Draw(t, "nparts")
	for i := 0; i < np; i++ {
		coll := rapid.SampledFrom(c18Colls).Draw(t, "coll")
		switch rapid.IntRange(0, 14).Draw(t, "form") {
		case 0, 1, 2:
			parts = append(parts, "{{ "+c18Chain(t, coll)+"|"+rapid.SampledFrom(c18Ends).Draw(t, "end")+" }}")
			cl = append(cl, "filter-chain")
		case 3:
			parts = append(parts, "{% set w = "+c18Chain(t, coll)+" %}{{ w|merge([9])|sort|join(',') }}{{ w|reverse|join }}")
			cl = append(cl, "set-then-refilter")
		case 4:
			parts = append(parts, "{% for x in "+coll+" %}{% set x = 0 %}{{ x }}{% endfor %}{% for k, x in "+c18Chain(t, coll)+" %}{{ k }}{% endfor %}")
			cl = append(cl, "loop-with-set")
		case 5:
			parts = append(parts, "{% include 'inc' with {'l': "+coll+"} %}{% include 'inc' with {'l': "+c18Chain(t, coll)+"} only %}")
			cl = append(cl, "include-with")
		case 6:
			parts = append(parts, "{% macro mm(p) %}{% set p = p|merge([5])|sort %}{{ p|join(',') }}{% endmacro %}{{ mm("+coll+") }}{{ mm("+c18Chain(t, coll)+") }}")
			cl = append(cl, "macro-arg")
		case 7:
			mp := rapid.SampledFrom(c18Maps).Draw(t, "map")
			parts = append(parts, "{{ "+mp+"|keys|sort|reverse|join(',') }}{{ "+mp+"|merge({'zz': 1, 'a': 99})|keys|join(',') }}{% for k, v in "+mp+" %}{% set v = 0 %}{% endfor %}{{ "+mp+"|length }}"+
				"{{ merge("+mp+", {'fz': 1, 'a': 98})|keys|join(',') }}{{ merge("+mp+", "+mp+")|length }}{{ merge({'q': 1}, "+mp+")|keys|join }}{{ "+mp+"|keys|join('.') }}")
			cl = append(cl, "map-filters")
		case 8:
			parts = append(parts, "{% set "+strings.Split(coll, ".")[0]+" = "+c18Chain(t, coll)+" %}{{ "+strings.Split(coll, ".")[0]+"|json_encode }}")
			cl = append(cl, "rebind-context-name")
		case 9:
			mp := rapid.SampledFrom([]string{"m", "nest", "m_alias"}).Draw(t, "importalias")
			parts = append(parts, "{{ "+mp+"|keys|join(',') }}{% import 'lib' as "+mp+" %}{{ "+mp+".tag(1) }}")
			cl = append(cl, "import-alias-collides-with-context-map")
		case 13:
			// assignments to a dotted target (whatever the engine takes them to mean, the caller's
			// nested maps and lists stay as they were)
			// (one target per case: an engine may reject some of them, and a failed render writes nothing more)
			tgt := rapid.SampledFrom([]string{"deep.a.b = 2", "deep.a.b2.c = 3", "deep.a.newkey = 4", "deep.l.x = 1", "nest.inner = [1]", "m.b = 55", "yaml.cfg.host = 'x'", "nest.k = nest.k", "dict.z = 9", "st.Name = 'n'", "deep.a.b.c = deep.a.b2", "m_alias.a = 1"}).Draw(t, "dottedtarget")
			parts = append(parts, "{% set "+tgt+" %}{{ deep.a.b is iterable ? 'it' : deep.a.b }}{{ nest.inner|join(',') }}{{ m.b }}{{ yaml.cfg.host }}")
			cl = append(cl, "dotted-set-target")
		case 14:
			// a conditional loop in the syntax of upstream Twig 1/2 (an engine that does not know it
			// rejects the template: then nothing ran and nothing may have changed)
			parts = []string{"{% for q in " + coll + " if q > 2 %}{{ q }}{% endfor %}{% for q in xs if q is odd %}{{ q }}{% endfor %}{% for k, v in m if v > 1 %}{{ k }}{% endfor %}"}
			cl = append(cl, "for-if")
		case 12:
			parts = append(parts, "{{ pe.City }}{{ pe.City is defined ? 'd' : 'u' }}{{ pe.Zip|default('z') }}{{ pe.Name }}{% for q in pes %}{{ q.Zip }}{{ q.City|default('-') }}{% endfor %}{{ pe_set.City }}{% set fill003 = 9 %}{% set brandnew = 1 %}{% for fill005 in [1, 2] %}{% endfor %}{{ fill003 }}")
			cl = append(cl, "nil-embedded-pointer")
		case 11:
			parts = append(parts, "{{ yaml|json_encode }}{{ json_encode(yaml.items) }}{{ yaml.cfg.host }}{{ yaml|keys|join }}{{ yaml.items|length }}{% for k, v in yaml %}{{ k }}{% endfor %}")
			cl = append(cl, "yaml-shaped-data")
		default:
			parts = append(parts, "{{ merge("+coll+", ys)|sort|join(',') }}{{ max("+coll+") }}{{ cycle("+coll+", 1) }}{{ range(1, 3)|merge("+coll+")|join(',') }}")
			cl = append(cl, "functions")
		}
	}
	tm["main"] = strings.Join(parts, "|")
	if rapid.IntRange(0, 7).Draw(t, "corner") == 0 {
		// templates that assign in one corner only (an else / elseif branch, below apply, block,
		// spaceless): an engine that decides from the template's shape whether it may work on
		// the caller's map directly must look into every branch
		tm["main"] = rapid.SampledFrom(c18Corners).Draw(t, "cornertmpl")
		cl = []string{"assignment-in-one-corner-only"}
	}
	dbg := rapid.IntRange(0, 4).Draw(t, "debug") == 0
	if dbg {
		cl = append(cl, "engine-in-debug-mode")
	}
	return C18Case{Ctx: ctx, Tmpl: tm, Debug: dbg}, cl
}

const c18Rule = "contexts in which every collection is reachable twice (aliased keys) and nested (untyped lists with spare capacity, []int, []string, [3]int, named slice and map types (type Row []interface{} ...), untyped and typed maps, struct and pointer-to-struct fields); templates that apply chains of 1-4 collection-returning filters (sort, reverse, merge, slice, default) and functions (merge on lists and on maps, max, cycle, range) to them, set results and re-filter them, loop with set on the loop variable, pass them through include-with and macro arguments where the callee reassigns and re-filters them, rebind context names, or assign in one corner only (an else branch, below apply/block/spaceless); one case in five with the engine in debug mode; non-trivial = at least one collection-returning filter is applied to a context collection with >= 2 elements (always true by construction); distinct by (context, template)"

func TestC18Immutable(t *testing.T) {
	r := NewRec(t, "C18", c18Rule)
	defer r.Flush()
	rapid.Check(t, func(rt *rapid.T) {
		c, cl := genC18(rt)
		r.Case(c.Tmpl["main"]+PrintE2(&E{K: "list", A: c.Ctx.Vals}), true, c.Tmpl["main"], cl...)
		if err := checkC18(c); err != nil {
			r.Fail(rt, "C18.immutable", c, err)
		}
	})
}

// checkC18Race renders the same data from several goroutines; built with -race any write to
// the shared caller data races with the other renders' reads.
func checkC18Race(c C18Case) error {
	data := zooCtx(c.Ctx, 0)
	before := snapshot(data)
	e := newEngine(c.Tmpl)
	NewSpies().Install(e)
	e.EnableSandbox(allowAll{})
	e.Load("main")
	e.Load("inc")
	e.Load("lib")
	want := render(e, "main", zooCtx(c.Ctx, 0))
	var wg sync.WaitGroup
	errs := make(chan error, 8)
	for g := 0; g < 4; g++ {
		wg.Add(1)
		go func() {
			defer wg.Done()
			for i := 0; i < 5; i++ {
				r := render(e, "main", data)
				if r.Panic != "" || (r.Err != "") != (want.Err != "") || r.Out != want.Out {
					errs <- fmt.Errorf("concurrent render on shared data gives %v, serial %v; templates:%s", r, want, showSources(c.Tmpl))
					return
				}
			}
		}()
	}
	wg.Wait()
	close(errs)
	for err := range errs {
		return err
	}
	if snapshot(data) != before {
		return fmt.Errorf("concurrent renders changed the caller's data; templates:%s", showSources(c.Tmpl))
	}
	return nil
}

func TestC18Race(t *testing.T) {
	r := NewRec(t, "C18", "the same cases rendered by 4 goroutines x 5 renders sharing one context, in a binary built with -race (any write to shared caller data races with the other renders' reads; a report makes the process exit non-zero)")
	defer r.Flush()
	rapid.Check(t, func(rt *rapid.T) {
		c, cl := genC18(rt)
		r.Case(c.Tmpl["main"]+PrintE2(&E{K: "list", A: c.Ctx.Vals}), true, c.Tmpl["main"], cl...)
		if err := checkC18Race(c); err != nil {
			r.Fail(rt, "C18.race", c, err)
		}
	})
}

func init() {
	reg("C18.immutable", checkC18)
	reg("C18.race", checkC18Race)
}

// ---- tests on a member must not call it -----------------------------------------------------------------------

type zQueue struct {
	Data  []int
	Calls int
}

func (q *zQueue) Pop() int {
	q.Calls++
	if len(q.Data) == 0 {
		return 0
	}
	h := q.Data[0]
	q.Data = q.Data[1:]
	return h
}
func (q zQueue) Size() int { return len(q.Data) }

type C18DefinedCase struct {
	Which int `json:"which"`
}

var c18DefinedSrcs = []string{
	"{% if q.Pop is defined %}{{ q.Data|join(',') }}{% endif %}",
	"{{ q.Pop is not defined ? 'nd' : 'd' }}|{{ q.Data|join(',') }}",
	"{{ q.Size is defined ? 'd' : 'u' }}|{{ q.Nope is defined ? 'd' : 'u' }}|{{ q.Data is defined ? 'd' : 'u' }}|{{ q.Calls is defined ? 'd' : 'u' }}|{{ q.Data|join(',') }}",
	"{% for i in [1, 2, 3] %}{% if q.Pop is defined %}.{% endif %}{% endfor %}{{ q.Data|join(',') }}",
}

// checkC18Defined: asking whether a member exists does not call it: a method that changes the
// caller's struct is not run by `is defined`, and two renders over the same data agree.
func checkC18Defined(c C18DefinedCase) error {
	src := c18DefinedSrcs[c.Which%len(c18DefinedSrcs)]
	q0 := &zQueue{Data: []int{1, 2, 3}}
	ctx := map[string]interface{}{"q": q0}
	e := newEngine(map[string]string{"main": src})
	r1 := render(e, "main", ctx)
	r2 := render(e, "main", ctx)
	if r1.Failed() || r2.Failed() || r1.Out != r2.Out {
		return fmt.Errorf("%s rendered twice over the same context gives %v and %v", q(src), r1, r2)
	}
	if q0.Calls != 0 || len(q0.Data) != 3 {
		return fmt.Errorf("%s only asks whether members exist, but the render called Pop %d time(s) on the caller's struct: Data is %v now", q(src), q0.Calls, q0.Data)
	}
	if c.Which%len(c18DefinedSrcs) == 2 && r1.Out != "d|u|d|d|1,2,3" {
		return fmt.Errorf("%s renders %s, want \"d|u|d|d|1,2,3\" (Size and the fields exist, Nope does not)", q(src), q(r1.Out))
	}
	return nil
}

func TestC18Defined(t *testing.T) {
	r := NewRec(t, "C18", "exhaustive: 4 templates that test members of a struct with `is defined` / `is not defined` (a pointer method that removes an element of the caller's slice, a value method, fields, an absent name; in conditions, ternaries and a loop), rendered twice over one context; oracle: the method is never called, the caller's struct is unchanged, both renders agree, absent members are not defined; all cases non-trivial")
	defer r.Flush()
	r.SetExhaustive()
	for i := range c18DefinedSrcs {
		c := C18DefinedCase{Which: i}
		r.Case(fmt.Sprint(i), true, c18DefinedSrcs[i])
		if err := checkC18Defined(c); err != nil {
			r.FailEnum(t, "C18.defined", c, err)
		}
	}
}

func init() { reg("C18.defined", checkC18Defined) }
