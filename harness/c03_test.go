package vh

// C03 — output is a deterministic function of templates and context.
//
// Oracle: self-consistency. The same case is rendered 8 times in-process on fresh engines
// (Go randomises every map iteration), with the context materialised from one description
// in three variants (different map insertion orders, distinct allocations — catches printed
// addresses), and, for a sample of the cases, in two fresh OS processes; every result must
// be byte-identical. For date formats there is a direct oracle as well.

import (
	"fmt"
	"github.com/semihalev/twig"
	"os"
	"path/filepath"
	"reflect"
	"sort"
	"strings"
	"testing"
	"time"

	"pgregory.net/rapid"
)

type C03Case struct {
	Src string `json:"src"`
	Ctx Ctx    `json:"ctx"`
	// for date cases: the expected output computed by the harness's own translator
	Want    string `json:"want,omitempty"`
	HasWant bool   `json:"has_want,omitempty"`
}

func checkC03(c C03Case) error { return checkC03X(c, true) }

func checkC03X(c C03Case, crossProcess bool) error {
	var first OneShotRes
	for i := 0; i < 8; i++ {
		qr := OneShot{Eng: EngSpec{Templates: map[string]string{"main": c.Src}}, Call: "render", Name: "main", Ctx: c.Ctx, Variant: i % 3}
		r := runOneShot(qr)
		if r.Panic != "" {
			return fmt.Errorf("panic: %s; source %s", r.Panic, q(c.Src))
		}
		if i == 0 {
			first = r
			continue
		}
		if !r.Same(first) {
			return fmt.Errorf("render %d (context variant %d) gives %v, the first render gave %v; source %s", i+1, i%3, r, first, q(c.Src))
		}
	}
	if c.HasWant {
		if first.Err || string(first.Out) != c.Want {
			return fmt.Errorf("date format: engine %v, expected %s; source %s", first, q(c.Want), q(c.Src))
		}
	}
	// the caller keeps its context maps and changes them between renders (one key replaced by
	// another, same size): the second render on the same engine must be what a fresh engine
	// makes of the changed data
	if err := c03MutatedRerender(c); err != nil {
		return err
	}
	if crossProcess {
		for v := 0; v < 2; v++ {
			qr := OneShot{Eng: EngSpec{Templates: map[string]string{"main": c.Src}}, Call: "render", Name: "main", Ctx: c.Ctx, Variant: v}
			// not memoised across variants: different variant = different query. (The fresh processes
			// inherit this process's time zone: integer and string dates carry no zone of their own
			// and are formatted in the process's, which is configuration, not context.)
			r, err := pristine(qr)
			if err != nil {
				return fmt.Errorf("harness: %v", err)
			}
			if !r.Same(first) {
				return fmt.Errorf("a fresh process renders %v, in-process renders gave %v; source %s", r, first, q(c.Src))
			}
		}
	}
	return nil
}

// c03SwapKey replaces, in every map reachable at the top level of ctx (and one level below),
// the key that sorts first by another key of the same type; reports whether anything changed.
func c03SwapKey(ctx map[string]interface{}) bool {
	changed := false
	var swap func(v interface{}, depth int)
	swap = func(v interface{}, depth int) {
		rv := reflect.ValueOf(v)
		if !rv.IsValid() || rv.Kind() != reflect.Map || rv.Len() == 0 {
			return
		}
		keys := rv.MapKeys()
		sort.Slice(keys, func(i, j int) bool { return fmt.Sprint(keys[i]) < fmt.Sprint(keys[j]) })
		if depth > 0 {
			for _, k := range keys {
				ev := rv.MapIndex(k)
				if ev.Kind() == reflect.Interface && !ev.IsNil() {
					swap(ev.Interface(), depth-1)
				}
			}
		}
		k0 := keys[0]
		var nk reflect.Value
		switch k0.Kind() {
		case reflect.String:
			nk = reflect.ValueOf(k0.String() + "_swapped").Convert(k0.Type())
		case reflect.Int, reflect.Int64:
			nk = reflect.ValueOf(k0.Int() + 7777).Convert(k0.Type())
		case reflect.Uint64:
			nk = reflect.ValueOf(k0.Uint() - 7777).Convert(k0.Type())
		case reflect.Interface:
			nk = reflect.ValueOf(fmt.Sprint(k0.Interface()) + "_swapped")
		default:
			return
		}
		if rv.MapIndex(nk).IsValid() {
			return
		}
		val := rv.MapIndex(k0)
		rv.SetMapIndex(k0, reflect.Value{})
		rv.SetMapIndex(nk, val)
		changed = true
	}
	for _, v := range ctx {
		swap(v, 1)
	}
	return changed
}

func c03MutatedRerender(c C03Case) error {
	srcs := map[string]string{"main": c.Src}
	data := zooCtx(c.Ctx, 0)
	e := newEngine(srcs)
	r1 := render(e, "main", data)
	if r1.Panic != "" {
		return fmt.Errorf("panic: %s; source %s", r1.Panic, q(c.Src))
	}
	// the same context object a second time, unchanged: same result (a render that reorders or
	// edits the caller's data in passing would show here)
	if r1b := render(e, "main", data); r1b.Panic != "" || (r1b.Err != "") != (r1.Err != "") || r1b.Out != r1.Out {
		return fmt.Errorf("the same engine, template and context object rendered twice give %v and then %v; source %s", r1, r1b, q(c.Src))
	}
	if !c03SwapKey(data) {
		return nil
	}
	r2 := render(e, "main", data)
	want := render(newEngine(srcs), "main", data)
	if r2.Panic != "" || (r2.Err != "") != (want.Err != "") || r2.Out != want.Out {
		return fmt.Errorf("after the caller replaced one key of its maps (same size) the engine that rendered them before gives %v, a fresh engine gives %v; source %s", r2, want, q(c.Src))
	}
	return nil
}

// ---- generator ------------------------------------------------------------------------------

var c03Keys = []string{"a", "b", "c", "d", "e", "f", "g", "zz", "k1", "10", "9", "B", "_x", "ab", "1", "01", "1.0", "1e0", "+1", "0x1", "id", "ID", "Id", "AB", "Ab", "2", "1a"}

func genMapDesc(t *rapid.T, depth int, label string) *E {
	n := rapid.IntRange(2, 8).Draw(t, label+"n")
	keys := rapid.Permutation(c03Keys).Draw(t, label+"keys")[:n]
	typ := rapid.SampledFrom([]string{"", "", "map[string]int", "map[string]string", "map[int]string", "map[iface]", "map[int64]string", "map[uint64]string", "map[mixed]", "map[mixed2]", "map[structkey]", "map[arraykey]", "map[widths]"}).Draw(t, label+"typ")
	vals := make([]*E, n)
	for i := range vals {
		switch {
		case typ == "map[string]string" || typ == "map[int]string" || typ == "map[int64]string" || typ == "map[uint64]string":
			vals[i] = Str(fmt.Sprintf("v%d", rapid.IntRange(0, 20).Draw(t, "sv")))
		case typ == "" && depth > 0 && rapid.IntRange(0, 3).Draw(t, "nest") == 0:
			vals[i] = genMapDesc(t, depth-1, label+"s")
		default:
			vals[i] = Int(int64(rapid.IntRange(0, 30).Draw(t, "iv")))
		}
	}
	return &E{K: "hash", Ks: keys, A: vals, M: typ}
}

func hashLiteral(t *rapid.T) string {
	n := rapid.IntRange(2, 8).Draw(t, "hn")
	keys := rapid.Permutation(c03Keys).Draw(t, "hkeys")[:n]
	var parts []string
	for i, k := range keys {
		parts = append(parts, fmt.Sprintf("'%s': %d", k, i+1))
	}
	return "{" + strings.Join(parts, ", ") + "}"
}

var c03MapForms = []string{
	"{% for k, v in M %}{{ k }}={{ v is iterable ? 'it' : v }};{% endfor %}",
	"{% for v in M %}[{{ v is iterable ? 'it' : v }}]{% endfor %}",
	"{% for k, v in M %}{{ loop.index }}{{ k }}{% if loop.last %}!{% endif %}{% endfor %}",
	"{{ M|first is iterable ? 'it' : M|first }}",
	"{{ M|keys|join(',') }}",
	"{{ M|keys|first }}",
	"{{ M|keys|last }}",
	"{{ M|length }}",
	"{{ M|json_encode }}",
	"{{ M }}",
	"{{ M|merge(N)|keys|join(',') }}",
	"{% for k, v in M|merge(N) %}{{ k }};{% endfor %}",
	"{% for k, v in M|merge(N) %}{{ k }}={{ v is iterable ? 'it' : v }};{% endfor %}",
	"{{ M|merge(N)|json_encode }}|{{ M|merge({})|join(',') }}",
	"{% for k, v in merge(M, N) %}{{ k }}={{ v is iterable ? 'it' : v }};{% endfor %}",
	"{% for k, v in M %}{% for k2, v2 in N %}{{ k }}{{ k2 }} {% endfor %}{% endfor %}",
	"{% set out = '' %}{% for k, v in M %}{% set out = out ~ k %}{% endfor %}{{ out }}",
	"{{ M|join('/') }}",
	"{% for k in M|keys %}{{ k }}{% endfor %}",
	"{{ dump(M) }}",
	"{% for k, v in M %}{% if v is iterable %}{% for k3, v3 in v %}{{ k3 }}{% endfor %}{% endif %}{% endfor %}",
	"{{ M|default('x') is iterable ? M|keys|join : '' }}",
	"{% for k, v in HASH %}{{ k }}{{ v }}{% endfor %}",
	"{{ HASH|keys|join(',') }}{{ HASH|first }}",
	"{% for k, v in HASH|merge(M) %}{{ k }}{% endfor %}",
	"{{ HASH|json_encode }}",
	"{% include 'nothere' ignore missing with HASH only %}x",
	// attribute access by a spelling that may or may not be a key (keys differing only in case exist)
	"{{ M.iD }}|{{ M.id }}|{{ M.aB }}|{{ M['iD'] }}|{{ M.ID }}",
	"{% for k in ['iD', 'id', 'aB', 'ab', 'B', 'b'] %}{{ M[k] }};{% endfor %}",
	"{{ DUPHASH|json_encode }}",
	"{% for k, v in DUPHASH %}{{ k }}{{ v }}{% endfor %}",
	"{{ DUPHASH|keys|join }}{{ DUPHASH|first }}",
}

// dupHashLiteral: a hash literal in which some keys occur more than once with different values
func dupHashLiteral(t *rapid.T) string {
	n := rapid.IntRange(3, 7).Draw(t, "dn")
	var parts []string
	for i := 0; i < n; i++ {
		// the same key written in several ways: a string, a number, a computed key
		k := rapid.SampledFrom([]string{"'a'", "'a'", "'b'", "'c'", "'1'", "1", "('a' ~ '')", "('' ~ 1)", "'id'", "('i' ~ 'd')"}).Draw(t, "dk")
		parts = append(parts, fmt.Sprintf("%s: %d", k, i+1))
	}
	return "{" + strings.Join(parts, ", ") + "}"
}

var c03PrintForms = []string{"{{ V }}", "{{ V|json_encode }}", "{{ [V, V]|join(',') }}", "{% for x in [V] %}{{ x }}{% endfor %}", "{{ V|default('d') }}", "{{ V ~ '' }}", "{{ dump(V) }}",
	"{{ V|trim }}", "{{ V|upper }}", "{{ V|replace({'1': 'x'}) }}", "{{ V|length }}", "{{ V|e }}", "{{ '%s'|format(V) }}", "{{ V|split(',')|join('/') }}",
	"{{ V|join(',') }}|{{ V|sort|join(',') }}", "{{ V|first }}|{{ V|reverse|join(',') }}", "{% for x in V %}{{ x }};{% endfor %}{% for x in V|sort %}{{ x }};{% endfor %}"}

var phpDate = map[byte]string{'d': "02", 'D': "Mon", 'j': "2", 'l': "Monday", 'F': "January", 'm': "01", 'M': "Jan", 'n': "1", 'Y': "2006", 'y': "06",
	'a': "pm", 'A': "PM", 'g': "3", 'G': "15", 'h': "03", 'H': "15", 'i': "04", 's': "05"}

func refDate(tm time.Time, format string) string {
	var b strings.Builder
	for i := 0; i < len(format); i++ {
		if g, ok := phpDate[format[i]]; ok {
			b.WriteString(tm.Format(g))
		} else {
			b.WriteByte(format[i])
		}
	}
	return b.String()
}

func adjacentLetters(format string) bool {
	for i := 0; i+1 < len(format); i++ {
		_, a := phpDate[format[i]]
		_, b := phpDate[format[i+1]]
		if a && b {
			return true
		}
	}
	return false
}

func containsPtr(e *E) bool {
	if e.K == "ptr" || e.M == "ptrstruct" {
		return true
	}
	for _, a := range e.A {
		if containsPtr(a) {
			return true
		}
	}
	return false
}

var c03Excluded int

func genC03(t *rapid.T) (C03Case, []string, bool) {
	excluded := false
	defer func() {
		if excluded {
			c03Excluded++
		}
	}()
	var ctx Ctx
	ctx.Set("M", genMapDesc(t, 1, "M"))
	ctx.Set("N", genMapDesc(t, 0, "N"))
	kind := rapid.IntRange(0, 9).Draw(t, "kind")
	switch {
	case kind <= 5:
		src := rapid.SampledFrom(c03MapForms).Draw(t, "form")
		src = strings.ReplaceAll(src, "DUPHASH", dupHashLiteral(t))
		src = strings.ReplaceAll(src, "HASH", hashLiteral(t))
		return C03Case{Src: src, Ctx: ctx}, []string{"map", "maptype:" + ctx.Vals[0].M}, true
	case kind <= 7:
		// date formats
		n := rapid.IntRange(1, 8).Draw(t, "nletters")
		var f strings.Builder
		letters := 0
		for i := 0; i < n; i++ {
			if rapid.IntRange(0, 3).Draw(t, "lit") == 0 {
				f.WriteString(rapid.SampledFrom([]string{" ", ", ", "/", ":", "-", ".", "(", ")"}).Draw(t, "datelit"))
			} else {
				f.WriteByte(rapid.SampledFrom([]byte("dDjlFmMnYyaAgGhHis")).Draw(t, "letter"))
				letters++
			}
		}
		if rapid.IntRange(0, 5).Draw(t, "readme") == 0 {
			f.Reset()
			f.WriteString("D, d M Y")
			letters = 4
		}
		unix := int64(rapid.IntRange(86400, 2000000000).Draw(t, "unix"))
		switch rapid.IntRange(0, 3).Draw(t, "dateshape") {
		case 0:
			// a Unix timestamp as a number, also before 1970 (zero is the documented "now")
			unix = int64(rapid.IntRange(-2000000000, 2000000000).Draw(t, "unixint"))
			if unix == 0 {
				unix = -1
			}
			ctx.Set("D", Int(unix))
		case 1:
			unix = int64(rapid.IntRange(-2000000000, -1).Draw(t, "unixneg"))
			ctx.Set("D", ZT(Int(unix), "int64"))
		default:
			ctx.Set("D", ZTime(unix))
		}
		format := f.String()
		src := "{{ D|date('" + format + "') }}"
		want := refDate(time.Unix(unix, 0).UTC(), format)
		// the direct oracle is only used where letters are separated by literals: how Go's
		// layout parser reads two adjacent translated pieces (e.g. "Mon"+"pm") is an
		// implementation detail the property does not fix; determinism is checked always
		return C03Case{Src: src, Ctx: ctx, Want: want, HasWant: !adjacentLetters(format)}, []string{"date"}, letters >= 2
	default:
		// values printed by value, never by address
		var v *E
		switch rapid.IntRange(0, 12).Draw(t, "vshape") {
		case 12:
			// pointers to scalars of every width
			v = ZPtr(ZT(Int(int64(rapid.IntRange(0, 99).Draw(t, "pwi"))), rapid.SampledFrom([]string{"int8", "int16", "int32", "int64", "uint", "uint8", "uint16", "uint32", "uint64", "float32", "float64", "named"}).Draw(t, "pwidth")))
			switch rapid.IntRange(0, 5).Draw(t, "pother") {
			case 0:
				v = ZPtr(Bool(rapid.Bool().Draw(t, "pb")))
			case 1:
				v = ZPtr(ZT(List(Int(3), Int(1), Int(2)), "[3]int"))
			}
		case 0:
			v = ZPtr(Int(int64(rapid.IntRange(0, 99).Draw(t, "pi"))))
		case 1:
			v = ZPtr(Str("ps"))
		case 2:
			v = ZT(Hash([]string{"Name", "Count", "Tags", "Z"}, []*E{Str("nm"), Int(3), List(Str("t1"), Str("t2")), Int(9)}), "struct")
		case 3:
			v = ZT(Hash([]string{"Name", "Count"}, []*E{Str("nm"), Int(4)}), "ptrstruct")
		case 4:
			v = ZT(List(Int(3), Int(1), Int(2)), "[]int")
		case 5:
			v = ZT(List(Str("x"), Str("y")), "[]string")
		case 6:
			v = ZT(List(Int(3), Int(1), Int(2)), "[3]int")
		case 7:
			v = ZT(Int(7), rapid.SampledFrom([]string{"int8", "uint16", "int64", "float32", "float64", "named", "uint64"}).Draw(t, "numtyp"))
		case 8:
			v = ZT(Str("by"), rapid.SampledFrom([]string{"named", "bytes", "stringer"}).Draw(t, "strtyp"))
		case 9:
			v = ZPtr(ZT(List(Int(1), Int(2)), "[]int"))
		case 10:
			v = ZPtr(genMapDesc(t, 0, "pm"))
		default:
			v = List(ZT(Hash([]string{"Name"}, []*E{Str("in")}), "struct"), Int(1), Str("s"))
		}
		ctx.Set("V", v)
		src := rapid.SampledFrom(c03PrintForms).Draw(t, "pform")
		if strings.Contains(src, "dump(") && containsPtr(v) {
			// known finding F42 (dump and composites format nested pointers with %v / %#v,
			// which prints addresses): excluded by construction, listed with replay cases
			src = "{{ V }}"
			excluded = true
		}
		return C03Case{Src: src, Ctx: ctx}, []string{"value-print", "shape:" + v.K + v.M}, true
	}
}

const c03Rule = "templates that iterate, filter or print maps (untyped, map[string]int, map[string]string, map[int]string, map[int64]string and map[uint64]string with keys beyond 2^53, map[interface{}]interface{}, nested; 2-8 entries) and hash literals with 2-8 entries (also with one key written twice or in several ways: string, number, computed) through for k,v / for v / first / keys / merge / join / json_encode / dump / nested loops / set accumulation; date filters with formats drawn from all 18 translated letters and safe literals (incl. the README's 'D, d M Y'); pointers (to scalars of every width, booleans, strings, slices, arrays, maps), structs, typed slices, arrays and named types printed in 14 positions (print, filters taking a string, join, format, loops). every case is also rendered a second time on the same engine after one key of each context map was replaced by another (same map objects, same sizes) and compared with a fresh engine. random(), the current date, empty dates and pointers nested inside printed composites are excluded by construction. non-trivial = a map/hash with >= 2 entries is iterated, filtered or printed, or a date format has >= 2 translated letters, or a non-basic value is printed; distinct by (source, context description)"

func TestC03Determinism(t *testing.T) {
	r := NewRec(t, "C03", c03Rule)
	defer r.Flush()
	n := 0
	rapid.Check(t, func(rt *rapid.T) {
		before := c03Excluded
		c, cl, nt := genC03(rt)
		if c03Excluded != before {
			r.Excl("dump() of a value containing a pointer (known finding F42)")
		}
		n++
		cross := n%5 == 0
		if cross {
			cl = append(cl, "also-in-two-fresh-processes")
		}
		r.Case(c.Src+showModel(nil)+fmt.Sprint(PrintE2(&E{K: "list", A: c.Ctx.Vals})), nt, map[string]string{"src": c.Src, "ctx": PrintE2(&E{K: "hash", Ks: c.Ctx.Names, A: c.Ctx.Vals})}, cl...)
		if err := checkC03X(c, cross); err != nil {
			r.Fail(rt, "C03.det", c, err)
		}
	})
}

// TestC03Dates enumerates every ordered pair of format letters (18 x 18) and every single
// letter on three instants.
// TestC03LongRender: renders long enough for garbage collections to happen inside them, which
// create and iterate short-lived maps in every pass (anything keyed by the address of such a
// map would meet a reused address).
func TestC03LongRender(t *testing.T) {
	r := NewRec(t, "C03", "fixed long renders (6000-20000 loop passes, each creating and iterating a one- or two-entry hash literal with computed keys, or merging into one); oracle: the expected text computed by the harness; all cases non-trivial")
	defer r.Flush()
	r.SetExhaustive()
	n := scale(6000, 20000)
	var want1, want2 strings.Builder
	for i := 1; i <= n; i++ {
		fmt.Fprintf(&want1, "k%d=%d;", i, i)
		fmt.Fprintf(&want2, "a%d,b%d;", i, i)
	}
	cases := []struct{ src, want string }{
		{fmt.Sprintf("{%% for i in range(1, %d) %%}{%% for k, v in {('k' ~ i): i} %%}{{ k }}={{ v }};{%% endfor %%}{%% endfor %%}", n), want1.String()},
		{fmt.Sprintf("{%% for i in range(1, %d) %%}{%% set h = {('b' ~ i): 1, ('a' ~ i): 2} %%}{{ h|keys|join(',') }};{%% endfor %%}", n), want2.String()},
	}
	for i, c := range cases {
		r.Case(fmt.Sprint(i), true, trunc(c.src))
		for round := 0; round < 2; round++ {
			res := render1(c.src, map[string]interface{}{})
			if res.Failed() || res.Out != c.want {
				got := res.Out
				d := 0
				for d < len(got) && d < len(c.want) && got[d] == c.want[d] {
					d++
				}
				r.FailEnum(t, "C03.det", C03Case{Src: c.src}, fmt.Errorf("long render %d (round %d): %s; first difference at byte %d: got …%s, want …%s", i, round+1, firstLine(res.Err), d, q(trunc(got[minInt(d, len(got)):])), q(trunc(c.want[minInt(d, len(c.want)):]))))
				break
			}
		}
	}
}

func minInt(a, b int) int {
	if a < b {
		return a
	}
	return b
}

func TestC03Dates(t *testing.T) {
	r := NewRec(t, "C03", "exhaustive: every single date-format letter and every ordered pair of the 18 translated letters (with and without a ', ' between them) on three instants, against the harness's own letter-by-letter translator; each rendered 8 times; non-trivial = two letters")
	defer r.Flush()
	r.SetExhaustive()
	letters := "dDjlFmMnYyaAgGhHis"
	instants := []int64{1709647629, 978307200, 1735689599} // 2024-03-05 14:07:09, 2001-01-01 00:00:00, 2024-12-31 23:59:59
	run := func(format string, nt bool) {
		for _, u := range instants {
			var ctx Ctx
			ctx.Set("D", ZTime(u))
			c := C03Case{Src: "{{ D|date('" + format + "') }}", Ctx: ctx, Want: refDate(time.Unix(u, 0).UTC(), format), HasWant: !adjacentLetters(format)}
			r.Case(fmt.Sprint(format, u), nt, c.Src)
			if err := checkC03X(c, false); err != nil {
				r.FailEnum(t, "C03.det", c, err)
			}
		}
	}
	for i := 0; i < len(letters); i++ {
		run(letters[i:i+1], false)
		for j := 0; j < len(letters); j++ {
			run(letters[i:i+1]+letters[j:j+1], true)
			run(letters[i:i+1]+", "+letters[j:j+1], true)
		}
	}
}

// ---- what one value renders as does not depend on what was rendered before it -------------------

type C03SwapCase struct {
	A    *E     `json:"a"` // two context values
	B    *E     `json:"b"`
	Expr string `json:"expr"` // an expression in which @ stands for the variable
}

// checkC03Swap: {{ A-expr }}#{{ B-expr }} and {{ B-expr }}#{{ A-expr }} print the same two texts
// (a result remembered from the previous evaluation must not leak into the next one).
func checkC03Swap(c C03SwapCase) error {
	var ctx Ctx
	ctx.Set("A", c.A)
	ctx.Set("B", c.B)
	ea, eb := strings.ReplaceAll(c.Expr, "@", "A"), strings.ReplaceAll(c.Expr, "@", "B")
	var outs [2][]string
	for i, src := range []string{"{{ " + ea + " }}#{{ " + eb + " }}", "{{ " + eb + " }}#{{ " + ea + " }}"} {
		qr := OneShot{Eng: EngSpec{Templates: map[string]string{"main": src}}, Call: "render", Name: "main", Ctx: ctx}
		r := runOneShot(qr)
		if i == 1 {
			// the opposite order in a process that has evaluated nothing before (a result remembered
			// process-wide would otherwise answer both orders alike)
			var err error
			qr.TZ = "Asia/Tokyo"
			if r, err = pristine(qr); err != nil {
				return fmt.Errorf("harness: %v", err)
			}
		}
		if r.Panic != "" || r.Err {
			return fmt.Errorf("render failed: %v; source %s", r, q(src))
		}
		outs[i] = strings.Split(string(r.Out), "#")
		if len(outs[i]) != 2 {
			return fmt.Errorf("harness: separator in output %s", q(string(r.Out)))
		}
	}
	if outs[0][0] != outs[1][1] || outs[0][1] != outs[1][0] {
		return fmt.Errorf("%s of %s and %s: evaluated in this order the texts are %s and %s, in the opposite order (fresh process) %s and %s", c.Expr, PrintE2(c.A), PrintE2(c.B), q(outs[0][0]), q(outs[0][1]), q(outs[1][1]), q(outs[1][0]))
	}
	return nil
}

func TestC03Swap(t *testing.T) {
	r := NewRec(t, "C03", "exhaustive: pairs of values that agree in what a careless cache key would look at (the same instant in two time zones, equal numbers of different Go types, strings equal up to case or normalisation, lists and maps of equal length) under 14 filters, evaluated in one order in the test process (UTC) and in the opposite order in a fresh process running in another time zone; non-trivial = always")
	defer r.Flush()
	r.SetExhaustive()
	var pairs [][2]*E
	for _, u := range []int64{1709647629, 978307200, 1735689599, 0} {
		for _, z := range [][2]string{{"", "+330"}, {"-480", "+840"}, {"+60", ""}, {"+345", "+330"}} {
			a, b := ZTime(u), ZTime(u)
			a.M, b.M = z[0], z[1]
			pairs = append(pairs, [2]*E{a, b})
		}
	}
	timePairs := len(pairs)
	pairs = append(pairs, [2]*E{Int(3), ZT(Int(3), "float64")}, [2]*E{Int(65), Str("65")}, [2]*E{Str("abc"), Str("ABC")}, [2]*E{Str("e\u0301"), Str("\u00e9")}, [2]*E{Str("1.0"), Str("1.00")},
		[2]*E{List(Int(1), Int(2)), List(Int(2), Int(1))}, [2]*E{List(Int(1), Int(2)), ZT(List(Int(1), Int(2)), "[]int")}, [2]*E{Hash([]string{"a"}, []*E{Int(1)}), Hash([]string{"b"}, []*E{Int(1)})},
		[2]*E{Int(-1), ZT(Int(255), "uint8")}, [2]*E{Bool(true), Int(1)}, [2]*E{Null(), Str("")})
	dateExprs := []string{"@|date('Y-m-d H:i:s')", "@|date('H')", "@|date('D, d M Y g:i a')", "@|date('c')", "@|date('U')"}
	exprs := []string{"@|json_encode", "@|length", "@|upper", "@|lower", "@|capitalize", "@|default('d')", "@|e", "@ ~ ''", "@|join(',')", "@|first", "@|keys|join", "@|reverse|join", "@|sort|join", "@ is iterable ? 'it' : @|abs"}
	for i, p := range pairs {
		list := exprs
		if i < timePairs {
			list = dateExprs
		}
		for _, ex := range list {
			c := C03SwapCase{A: p[0], B: p[1], Expr: ex}
			r.Case(ex+PrintE2(p[0])+PrintE2(p[1]), true, ex+" "+PrintE2(p[0])+" / "+PrintE2(p[1]))
			// expressions that are errors for a pair are outside this check (both orders fail alike)
			if err := checkC03Swap(c); err != nil && !strings.HasPrefix(err.Error(), "render failed") {
				r.FailEnum(t, "C03.swap", c, err)
			}
		}
	}
}

func init() {
	reg("C03.det", checkC03)
	reg("C03.swap", checkC03Swap)
}

// ---- names of macros written where a value is expected ------------------------------------------------

type C03MacroNameCase struct {
	Which int `json:"which"`
}

var c03MacroNameSrcs = []string{
	"{% from 'lib' import box %}[{{ box }}]",
	"{% from 'lib' import box as b %}[{{ b }}|{{ b|default('d') }}]",
	"{% macro m(x) %}M{{ x }}{% endmacro %}[{{ m }}]{{ m(1) }}",
	"{% macro m(x) %}M{{ x }}{% endmacro %}{% set v = m %}[{{ v }}]",
	"{% from 'lib' import box, other %}{% for f in [box, other] %}<{{ f }}>{% endfor %}",
	"{% from 'lib' import box %}{{ box is defined ? 'def' : 'undef' }}|{{ box ? 'y' : 'n' }}|{{ box ~ '' }}",
	"{% from 'lib' import box %}{{ {'k': box}|json_encode }}|{{ [box]|join(',') }}|{{ box|length }}",
	"{% import 'lib' as l %}[{{ l.box(1) }}]{% from 'lib' import other %}{% include 'show' with {'v': other} only %}",
}

// checkC03MacroName: whatever a template prints for the bare name of a macro, it prints the
// same on every engine and in every process.
func checkC03MacroName(c C03MacroNameCase) error {
	src := c03MacroNameSrcs[c.Which%len(c03MacroNameSrcs)]
	tm := map[string]string{"main": src, "lib": "{% macro box(a, b = 'B') %}[{{ a }}{{ b }}]{% endmacro %}{% macro other(x) %}<{{ x }}>{% endmacro %}", "show": "({{ v }})"}
	qr := OneShot{Eng: EngSpec{Templates: tm}, Call: "render", Name: "main"}
	first := runOneShot(qr)
	if first.Panic != "" {
		return fmt.Errorf("render panicked: %v; source %s", first, q(src))
	}
	var keep [][]byte
	for i := 0; i < 3; i++ {
		keep = append(keep, make([]byte, 1<<uint(10+i))) // move the allocator on between engines
		if r := runOneShot(qr); !r.Same(first) {
			return fmt.Errorf("the name of a macro where a value is expected: a second engine renders %v, the first rendered %v; source %s", r, first, q(src))
		}
	}
	_ = keep
	r, err := pristine(qr)
	if err != nil {
		return fmt.Errorf("harness: %v", err)
	}
	if !r.Same(first) {
		return fmt.Errorf("the name of a macro where a value is expected: a fresh process renders %v, this process %v; source %s", r, first, q(src))
	}
	return nil
}

func TestC03MacroNames(t *testing.T) {
	r := NewRec(t, "C03", "exhaustive: 8 templates that write the bare name of a visible macro (local, from-import, alias) where a value is expected (print, set, list and hash elements, tests, filters, include variables); oracle: four engines in this process and one in a fresh process render the same bytes; all cases non-trivial")
	defer r.Flush()
	r.SetExhaustive()
	for i := range c03MacroNameSrcs {
		c := C03MacroNameCase{Which: i}
		r.Case(fmt.Sprint(i), true, c03MacroNameSrcs[i])
		if err := checkC03MacroName(c); err != nil {
			r.FailEnum(t, "C03.macroname", c, err)
		}
	}
}

func init() { reg("C03.macroname", checkC03MacroName) }

// ---- dates and timestamps held in other Go types ------------------------------------------------------

type C03DateKindCase struct {
	Kind string `json:"kind"`
	Unix int64  `json:"unix"`
}

func c03DateKindValue(kind string, u int64) interface{} {
	tm := time.Unix(u, 0).UTC()
	ptm := &tm
	switch kind {
	case "*time.Time":
		return ptm
	case "**time.Time":
		return &ptm
	case "int32":
		return int32(u)
	case "uint32":
		return uint32(u)
	case "uint64":
		return uint64(u)
	case "uint":
		return uint(u)
	case "named":
		return zNamedInt(u)
	case "*int64":
		return &u
	case "float32":
		return float32(u)
	}
	return nil
}

// checkC03DateKind: a date is the date it is, whatever Go type carries it: a pointer to a
// time.Time prints like the time.Time, a timestamp of another integer width like the int64.
func checkC03DateKind(c C03DateKindCase) error {
	u := c.Unix
	if c.Kind == "float32" {
		u = int64(float32(c.Unix)) // the instant the float32 holds
	}
	var ref interface{} = u
	if strings.Contains(c.Kind, "time.Time") {
		ref = time.Unix(u, 0).UTC()
	}
	const src = "{{ D|date('Y-m-d H:i:s') }}|{{ D|date('D, d M y') }}"
	want := render1(src, map[string]interface{}{"D": ref})
	got := render1(src, map[string]interface{}{"D": c03DateKindValue(c.Kind, c.Unix)})
	if want.Failed() || got.Failed() || got.Out != want.Out {
		return fmt.Errorf("%s with D = %s holding the instant %d gives %v; the same instant as %T gives %v", src, c.Kind, u, got, ref, want)
	}
	return nil
}

func TestC03DateKinds(t *testing.T) {
	r := NewRec(t, "C03", "exhaustive: the date filter on 9 Go types that carry a date (pointer and pointer to pointer to time.Time, int32, uint32, uint64, uint, a named int, *int64, float32) x 4 instants in the past; oracle: the output for the same instant as time.Time / int64 (what the current time is must not matter); all cases non-trivial")
	defer r.Flush()
	r.SetExhaustive()
	for _, kind := range []string{"*time.Time", "**time.Time", "int32", "uint32", "uint64", "uint", "named", "*int64", "float32"} {
		for _, u := range []int64{1709647629, 978307200, 86400, 1234567890} {
			c := C03DateKindCase{Kind: kind, Unix: u}
			r.Case(fmt.Sprint(kind, u), true, c)
			if err := checkC03DateKind(c); err != nil {
				r.FailEnumKey(t, "C03.datekind", kind, c, err)
			}
		}
	}
}

func init() { reg("C03.datekind", checkC03DateKind) }

// ---- pointers to scalars under filters and behind further pointers ---------------------------------------------

type C03PtrCase struct {
	Which int `json:"which"`
}

var c03PtrSrcs = []string{"{{ pp }}", "{{ ppp }}", "{{ ps|spaceless }}", "{{ ps|upper }}|{{ ps|trim }}|{{ ps|length }}", "{{ pps }}|{{ pps|upper }}", "{{ pp + 1 }}|{{ pp ~ 'x' }}", "{{ ps|striptags }}|{{ ps|nl2br }}|{{ ps|url_encode }}", "{{ [ps, pp]|join(',') }}",
	"{{ ps|default('d') }}|{{ ps|escape }}|{{ ps|raw }}", "{{ ps|replace('a', 'b') }}|{{ ps|split(' ')|join('+') }}|{{ ps|capitalize }}|{{ ps|title }}", "{{ '%s-%d'|format(ps, pp) }}"}

func c03PtrCtx() map[string]interface{} {
	i, s := 5, "<b>a  c</b>"
	pi, ps := &i, &s
	ppi, pps := &pi, &ps
	_ = make([]byte, 64) // move the allocator on
	return map[string]interface{}{"pp": ppi, "ppp": &ppi, "ps": ps, "pps": pps}
}

// checkC03Ptr: a pointer (to a pointer) to a number or a string prints what it points to, under
// every filter: the same bytes for two separately allocated copies of the same data.
func checkC03Ptr(c C03PtrCase) error {
	src := c03PtrSrcs[c.Which%len(c03PtrSrcs)]
	a := render1(src, c03PtrCtx())
	keep := make([][]byte, 8)
	for i := range keep {
		keep[i] = make([]byte, 48)
	}
	b := render1(src, c03PtrCtx())
	_ = keep
	if a.Panic != "" || a.Failed() != b.Failed() || a.Out != b.Out {
		return fmt.Errorf("%s on two separately allocated copies of the same pointers (to 5 and to \"<b>a  c</b>\") renders %v and %v", q(src), a, b)
	}
	if strings.Contains(a.Out, "0xc0") {
		return fmt.Errorf("%s prints a memory address: %v", q(src), a)
	}
	return nil
}

func TestC03Pointers(t *testing.T) {
	r := NewRec(t, "C03", "exhaustive: 11 templates that print pointers, pointers to pointers and pointers to pointers to pointers to an int and a string, bare and under 20 filters, in arithmetic, concatenation and lists; oracle: two separately allocated copies of the same data render the same bytes, and no address appears; all cases non-trivial")
	defer r.Flush()
	r.SetExhaustive()
	for i := range c03PtrSrcs {
		c := C03PtrCase{Which: i}
		r.Case(fmt.Sprint(i), true, c03PtrSrcs[i])
		if err := checkC03Ptr(c); err != nil {
			r.FailEnum(t, "C03.ptr", c, err)
		}
	}
}

func init() { reg("C03.ptr", checkC03Ptr) }

// ---- arrangements whose outcome may hang on Go's map order -----------------------------------------------------

type C03RepeatCase struct {
	Which int `json:"which"`
}

// checkC03Repeat: each arrangement is built and rendered 40 times from scratch; every time the
// output is the one the arrangement defines.
func checkC03Repeat(c C03RepeatCase) error {
	for round := 0; round < 40; round++ {
		var got Res
		var want string
		switch c.Which % 5 {
		case 0, 1:
			// one template name in several search paths of one FileSystemLoader: the first path wins
			root, err := os.MkdirTemp(workDir(), "c03-")
			if err != nil {
				return fmt.Errorf("harness: %v", err)
			}
			var paths []string
			n := 2 + 3*(c.Which%2)
			for i := 0; i < n; i++ {
				d := filepath.Join(root, fmt.Sprintf("p%d", i))
				os.MkdirAll(d, 0o755)
				os.WriteFile(filepath.Join(d, "page.twig"), []byte(fmt.Sprintf("from p%d {{ 1 + 1 }}", i)), 0o644)
				paths = append(paths, d)
			}
			e := twig.New()
			e.RegisterLoader(twig.NewFileSystemLoader(paths))
			got, want = render(e, "page.twig", nil), "from p0 2"
			os.RemoveAll(root)
		case 2:
			// a with-list whose values read names the list also sets: they read the includer's
			tm := map[string]string{"main": "{% include 'row' with {id: 7, key: 'row-' ~ id, k2: id ~ '/' ~ key, z: k2} %}", "row": "{{ id }}|{{ key }}|{{ k2 }}|{{ z }}"}
			got, want = render(newEngine(tm), "main", map[string]interface{}{"id": 1, "key": "outer"}), "7|row-1|1/outer|"
		case 3:
			tm := map[string]string{"main": "{% include 'row' with {a: b, b: a, c: a ~ b} %}|{% include 'row' with {a: b, b: c, c: a} only %}", "row": "{{ a }}{{ b }}{{ c }}"}
			got, want = render(newEngine(tm), "main", map[string]interface{}{"a": "A", "b": "B", "c": "C"}), "BAAB|BCA"
		default:
			// the values of a with-list are evaluated in the order in which they are written (a
			// function that counts its calls shows the order)
			tm := map[string]string{"main": "{% include 'row' with {d: next(), a: next(), c: next(), b: next()} %}|{% include 'row' with {'b': next(), 'a': next(), 'c': next(), 'd': 0} only %}", "row": "{{ a }}{{ b }}{{ c }}{{ d }}"}
			e := newEngine(tm)
			n := 0
			e.AddFunction("next", func(args ...interface{}) (interface{}, error) { n++; return n, nil })
			got, want = render(e, "main", nil), "2431|6570"
		}
		if got.Failed() || got.Out != want {
			return fmt.Errorf("arrangement %d, round %d of 40 (each built from scratch): rendered %v, want %s", c.Which%5, round, got, q(want))
		}
	}
	return nil
}

func TestC03Repeat(t *testing.T) {
	r := NewRec(t, "C03", "exhaustive: 5 arrangements built and rendered 40 times from scratch each: one template name in 2 and in 5 search paths of a FileSystemLoader (the first path wins), include with-lists whose values read names that the list also sets (they read the including template's variables, in every order), a with-list whose values call a counting function (evaluated in the order written); expected text written out; all cases non-trivial")
	defer r.Flush()
	r.SetExhaustive()
	for i := 0; i < 5; i++ {
		c := C03RepeatCase{Which: i}
		r.Case(fmt.Sprint(i), true, i)
		if err := checkC03Repeat(c); err != nil {
			r.FailEnum(t, "C03.repeat", c, err)
		}
	}
}

func init() { reg("C03.repeat", checkC03Repeat) }
