package vh

// Replay of saved cases and of the known-findings file (DESIGN.md 2.7).
//
// Every check registers a replayer under its check name: a function that decodes one
// case and runs the same oracle the generated search uses, without any generator.

import (
	"encoding/json"
	"fmt"
	"os"
	"path/filepath"
	"testing"
)

var replayers = map[string]func(json.RawMessage) error{}

func register(check string, f func(json.RawMessage) error) { replayers[check] = f }

// reg is a typed helper: register(check, func(c Case) error).
func reg[T any](check string, f func(c T) error) {
	register(check, func(raw json.RawMessage) error {
		var c T
		if err := json.Unmarshal(raw, &c); err != nil {
			return fmt.Errorf("replay file does not decode as a %s case: %v", check, err)
		}
		return f(c)
	})
}

type knownCase struct {
	Check string          `json:"check"`
	Note  string          `json:"note,omitempty"`
	Case  json.RawMessage `json:"case"`
}

type knownFinding struct {
	ID       string      `json:"id"`
	Property string      `json:"property"`
	Status   string      `json:"status"` // open | fixed
	Commit   string      `json:"commit,omitempty"`
	What     string      `json:"what"`
	Record   string      `json:"record,omitempty"`
	Cases    []knownCase `json:"cases"`
}

type knownFile struct {
	Findings []knownFinding `json:"findings"`
}

func verifRoot() string {
	if r := os.Getenv("VERIF_ROOT"); r != "" {
		return r
	}
	return ".."
}

func loadKnown(t testing.TB) knownFile {
	var kf knownFile
	b, err := os.ReadFile(filepath.Join(verifRoot(), "known_findings.json"))
	if err != nil {
		t.Fatalf("known_findings.json: %v", err)
	}
	if err := json.Unmarshal(b, &kf); err != nil {
		t.Fatalf("known_findings.json: %v", err)
	}
	return kf
}

// TestKnown runs the replay cases of every listed finding of $VERIF_PROP. An open finding
// that still fails is reported as KNOWN-FINDING (exit status unaffected); a finding
// recorded as fixed that fails again is a violation like any other.
func TestKnown(t *testing.T) {
	prop := os.Getenv("VERIF_PROP")
	r := NewRec(t, prop, "replay cases of the findings listed in known_findings.json (not counted as generated cases)")
	defer r.Flush()
	kf := loadKnown(t)
	for _, f := range kf.Findings {
		if f.Property != prop {
			continue
		}
		stillFails := 0
		for i, kc := range f.Cases {
			rp, ok := replayers[kc.Check]
			if !ok {
				t.Fatalf("finding %s case %d: unknown check %q", f.ID, i, kc.Check)
			}
			err := rp(kc.Case)
			r.Class("known-case-run")
			if err == nil {
				continue
			}
			stillFails++
			if f.Status == "fixed" {
				var c interface{}
				json.Unmarshal(kc.Case, &c)
				r.FailEnum(t, kc.Check, c, fmt.Errorf("finding %s is recorded as fixed (%s) but fails again: %v", f.ID, f.Commit, err))
			}
		}
		if f.Status == "open" && stillFails > 0 {
			r.Known(fmt.Sprintf("%s %s (%d/%d listed cases still fail)", f.ID, f.What, stillFails, len(f.Cases)))
		}
	}
}

// TestReplay runs one saved case ($VERIF_REPLAY: a fail file written by a check, or a
// {"check":…,"case":…} object).
func TestReplay(t *testing.T) {
	p := os.Getenv("VERIF_REPLAY")
	if p == "" {
		t.Skip("VERIF_REPLAY not set")
	}
	b, err := os.ReadFile(p)
	if err != nil {
		t.Fatal(err)
	}
	var ff struct {
		Check string          `json:"check"`
		Case  json.RawMessage `json:"case"`
	}
	if err := json.Unmarshal(b, &ff); err != nil {
		t.Fatal(err)
	}
	rp, ok := replayers[ff.Check]
	if !ok {
		t.Fatalf("unknown check %q", ff.Check)
	}
	if err := rp(ff.Case); err != nil {
		fmt.Printf("REPLAY-FAILS check=%s: %v\n", ff.Check, err)
		t.Fail()
		return
	}
	fmt.Printf("REPLAY-PASSES check=%s\n", ff.Check)
}

// ExpectCase is a plain regression case: sources, context and the output the property
// demands (hand-derived from the property text, e.g. 1 + 2 * 3 * 4 = 25). It is the form in
// which shrunk failures of repaired defects are kept in known_findings.json.
type ExpectCase struct {
	Templates map[string]string `json:"templates"`
	Ctx       *E                `json:"ctx,omitempty"` // hash literal
	Want      string            `json:"want"`
	WantErr   bool              `json:"want_err,omitempty"`
	Twice     bool              `json:"twice,omitempty"` // render twice on the same engine, both must match
}

func checkExpect(c ExpectCase) error {
	var ctx map[string]interface{}
	if c.Ctx != nil {
		ctx, _ = litToGo(c.Ctx).(map[string]interface{})
	}
	e := newEngine(c.Templates)
	NewSpies().Install(e)
	e.EnableSandbox(allowAll{}) // only matters for `include ... sandboxed`, which needs a policy to exist
	n := 1
	if c.Twice {
		n = 2
	}
	for i := 0; i < n; i++ {
		r := render(e, "main", ctx)
		if r.Panic != "" {
			return fmt.Errorf("render %d panicked: %s", i+1, r.Panic)
		}
		if c.WantErr {
			if r.Err == "" {
				return fmt.Errorf("render %d: expected an error, got output %s", i+1, q(r.Out))
			}
			continue
		}
		if r.Err != "" {
			return fmt.Errorf("render %d: unexpected error %s (want %s)", i+1, firstLine(r.Err), q(c.Want))
		}
		if r.Out != c.Want {
			return fmt.Errorf("render %d: got %s, want %s", i+1, q(r.Out), q(c.Want))
		}
	}
	return nil
}

func init() { reg("expect", checkExpect) }
