package vh

// C09 — if, for and set have their defined control-flow meaning.
// Oracle: byte equality with the reference interpreter (harness/stmt.go).

import (
	"errors"
	"fmt"
	"testing"

	"pgregory.net/rapid"
)

// ProgCase is a single-template program with its context; shared by C09, C13, C14.
type ProgCase struct {
	Ctx  Ctx  `json:"ctx"`
	Body []*S `json:"body"`
}

type progResult struct {
	out     string
	failed  bool
	domain  bool
	modelEr error
	spyLog  []string
}

func runModel(set TSet, name string, ctx Ctx, failAt int) progResult {
	m := &Model{Set: set.Map(), FailAt: failAt}
	out, err := m.Render(name, ctx.Model())
	if err != nil {
		if errors.Is(err, errDomain) {
			return progResult{domain: true, modelEr: err}
		}
		return progResult{failed: true, modelEr: err, spyLog: m.SpyLog}
	}
	return progResult{out: out, spyLog: m.SpyLog}
}

// checkProg compares engine and model on one template set.
func checkProgSet(set TSet, name string, ctx Ctx, o SPrint) error {
	want := runModel(set, name, ctx, 0)
	if want.domain {
		return nil
	}
	srcs := set.Sources(o)
	e := newEngine(srcs)
	sp := NewSpies()
	sp.Install(e)
	r := render(e, name, zooCtx(ctx, 0))
	if r.Panic != "" {
		return fmt.Errorf("engine panicked: %s; templates:%s", r.Panic, showSources(srcs))
	}
	if want.failed {
		if r.Err == "" {
			return fmt.Errorf("model says the render fails (%v) but the engine returned %s; templates:%s", want.modelEr, q(r.Out), showSources(srcs))
		}
		return nil
	}
	if r.Err != "" {
		return fmt.Errorf("engine error %s, model output %s; templates:%s", firstLine(r.Err), q(want.out), showSources(srcs))
	}
	if r.Out != want.out {
		return fmt.Errorf("engine %s, model %s; templates:%s", q(r.Out), q(want.out), showSources(srcs))
	}
	return nil
}

func checkC09(c ProgCase) error {
	if err := checkProgSet(TSet{{Name: "main", Body: c.Body}}, "main", c.Ctx, SPrint{}); err != nil {
		return err
	}
	return checkC09Globals(c)
}

// checkC09Globals: every second context name is handed to the engine as a global (AddGlobal)
// instead of through the context map. A global reads like a context variable, and a `set` or a
// loop variable of the same name hides it from then on, whatever value it assigns (also null).
func checkC09Globals(c ProgCase) error {
	set := TSet{{Name: "main", Body: c.Body}}
	want := runModel(set, "main", c.Ctx, 0)
	if want.domain || want.failed {
		return nil
	}
	srcs := set.Sources(SPrint{})
	e := newEngine(srcs)
	NewSpies().Install(e)
	data := zooCtx(c.Ctx, 0)
	names := append([]string{}, c.Ctx.Names...)
	sortStrings(names)
	var globals []string
	for i, n := range names {
		if i%2 == 0 {
			e.AddGlobal(n, data[n])
			delete(data, n)
			globals = append(globals, n)
		}
	}
	r := render(e, "main", data)
	if r.Failed() || r.Out != want.out {
		return fmt.Errorf("with %v provided as engine globals instead of context entries: engine %v, model %s; templates:%s", globals, r, q(want.out), showSources(srcs))
	}
	return nil
}

type progStats struct {
	loops, nested, counters, ifs, elseTaken, sets, setInLoop int
}

func progClasses(body []*S) (bool, []string) {
	var cl []string
	nt := false
	var rec func(b []*S, depth int)
	rec = func(b []*S, depth int) {
		for _, s := range b {
			switch s.K {
			case "for":
				cl = append(cl, "for")
				if depth > 0 {
					cl = append(cl, "nested-loop")
					nt = true
				}
				if s.HasElse {
					cl = append(cl, "for-else")
				}
				rec(s.Body, depth+1)
				rec(s.Else, depth)
			case "if":
				cl = append(cl, "if")
				if len(s.Conds) > 1 || s.HasElse {
					cl = append(cl, "elseif/else")
					nt = true
				}
				for _, bb := range s.Bodies {
					rec(bb, depth)
				}
				rec(s.Else, depth)
			case "set":
				cl = append(cl, "set")
				if depth > 0 {
					cl = append(cl, "set-in-loop")
					nt = true
				}
			case "print":
				if depth > 0 {
					walk(s.E, func(e, p *E, i int) {
						if e.K == "attr" && e.A[0].K == "var" && e.A[0].S == "loop" {
							nt = true
							cl = append(cl, "loop."+e.S)
						}
					})
				}
			}
		}
	}
	rec(body, 0)
	return nt, cl
}

const c09Rule = "random programs of text/print/if-elseif-else/for-else/set nested to depth<=4 over lists (0..12 elements, thorough 0..40; also as typed []int / []string slices), ranges with positive/negative steps, strings incl. multi-byte, one-entry maps, nested lists, null/undefined; conditions of every value type; empty bodies; every program also rendered with half of its context provided as engine globals; set of empty values (null, undefined, '', 0) over names that already hold a value; non-trivial = nested loops, or a loop body reading a loop counter, or an elseif/else chain, or a set inside a loop; distinct by (context, program)"

func TestC09Flow(t *testing.T) {
	r := NewRec(t, "C09", c09Rule)
	defer r.Flush()
	rapid.Check(t, func(rt *rapid.T) {
		g := newSgen(rt, flowCtx(rt))
		g.x.spies = false
		g.kwsp = rapid.IntRange(0, 2).Draw(rt, "kwspacing") == 0
		body := g.program(rapid.IntRange(1, scale(3, 4)).Draw(rt, "depth"))
		c := ProgCase{Ctx: g.x.ctx, Body: body}
		if runModel(TSet{{Name: "main", Body: body}}, "main", c.Ctx, 0).domain {
			r.Excl("program leaves the modelled domain at run time (e.g. inexact division by a loop variable)")
			return
		}
		nt, cl := progClasses(body)
		src := PrintBody(body, SPrint{})
		r.Case(src+showModel(c.Ctx.Model()), nt, src, cl...)
		if err := checkC09(c); err != nil {
			r.Fail(rt, "C09.flow", c, err)
		}
	})
}

// TestC09Truthiness enumerates the truthiness table over every construct that branches.
func TestC09Truthiness(t *testing.T) {
	r := NewRec(t, "C09", "exhaustive: every row of the truthiness table (false, 0, '', null, [], {}, undefined; true, non-zero ints incl. negative, '0', ' ', 'a', non-empty list, non-empty map, nested empties inside a list) x {if, elseif, else fall-through, not, and, or, ?:, for-else} as literal and as context variable; all cases non-trivial")
	defer r.Flush()
	r.SetExhaustive()
	vals := []*E{Bool(false), Int(0), Str(""), Null(), List(), Hash(nil, nil), Bool(true), Int(1), Int(-1), Int(7), Str("0"), Str(" "), Str("a"), Str("false"),
		List(Int(0)), List(List()), Hash([]string{"k"}, []*E{Int(0)}), List(Str(""))}
	forms := []func(x *E) []*S{
		func(x *E) []*S {
			return []*S{{K: "if", Conds: []*E{x}, Bodies: [][]*S{{Text("T")}}, HasElse: true, Else: []*S{Text("F")}}}
		},
		func(x *E) []*S { return []*S{{K: "if", Conds: []*E{x}, Bodies: [][]*S{{Text("T")}}}, Text("|")} },
		func(x *E) []*S {
			return []*S{{K: "if", Conds: []*E{Bool(false), x, Bool(true)}, Bodies: [][]*S{{Text("A")}, {Text("B")}, {Text("C")}}, HasElse: true, Else: []*S{Text("D")}}}
		},
		func(x *E) []*S { return []*S{Print(Cond(Un("not", x), Str("T"), Str("F")))} },
		func(x *E) []*S { return []*S{Print(Cond(Bin("and", x, Int(1)), Str("T"), Str("F")))} },
		func(x *E) []*S { return []*S{Print(Cond(Bin("or", x, Int(0)), Str("T"), Str("F")))} },
		func(x *E) []*S { return []*S{Print(Cond(x, Str("T"), Str("F")))} },
		func(x *E) []*S { return []*S{Print(Cond(Bin("and", Int(1), x), Str("T"), Str("F")))} },
	}
	for vi, v := range vals {
		for fi, f := range forms {
			for _, asVar := range []bool{false, true} {
				ctx := Ctx{}
				x := v
				if asVar {
					ctx.Set("x", v)
					x = Var("x")
				}
				c := ProgCase{Ctx: ctx, Body: f(x)}
				src := PrintBody(c.Body, SPrint{})
				r.Case(fmt.Sprint(vi, fi, asVar), true, src+" with x="+PrintE(v, PrintOpts{}), fmt.Sprintf("form:%d", fi))
				if err := checkC09(c); err != nil {
					r.FailEnum(t, "C09.flow", c, err)
				}
			}
		}
	}
	// zero and non-zero values of every Go numeric width, typed empty and non-empty collections
	// (context values only; the model sees their plain value)
	typed := []*E{}
	for _, w := range []string{"int8", "int16", "int32", "int64", "uint", "uint8", "uint16", "uint32", "uint64", "float32", "float64", "named"} {
		typed = append(typed, ZT(Int(0), w), ZT(Int(4), w))
	}
	typed = append(typed, ZT(List(), "[]int"), ZT(List(Int(0)), "[]int"), ZT(List(), "[]string"), ZT(List(Str("")), "[]string"),
		ZT(Hash(nil, nil), "map[string]int"), ZT(Hash([]string{"k"}, []*E{Int(0)}), "map[string]int"), ZT(Str(""), "named"), ZT(Str("x"), "named"))
	for vi, v := range typed {
		for fi, f := range forms {
			ctx := Ctx{}
			ctx.Set("x", v)
			c := ProgCase{Ctx: ctx, Body: f(Var("x"))}
			r.Case(fmt.Sprint("typed", vi, fi), true, PrintBody(c.Body, SPrint{})+" with x="+PrintE2(v), fmt.Sprintf("form:%d", fi), "typed-value")
			if err := checkC09(c); err != nil {
				r.FailEnum(t, "C09.flow", c, err)
			}
		}
	}
	// undefined variable
	for fi, f := range forms {
		c := ProgCase{Ctx: Ctx{}, Body: f(Var("nope"))}
		r.Case(fmt.Sprint("undef", fi), true, PrintBody(c.Body, SPrint{}))
		if err := checkC09(c); err != nil {
			r.FailEnum(t, "C09.flow", c, err)
		}
	}
}

// ---- non-nil pointers: "everything else is truthy" ------------------------------------------------------

type C09PtrCase struct {
	X    *E  `json:"x"` // a pointer description (non-nil)
	Form int `json:"form"`
}

var c09PtrForms = [][2]string{{"{% if x %}T{% else %}F{% endif %}", "T"}, {"{{ x ? 'T' : 'F' }}", "T"}, {"{{ not x ? 'T' : 'F' }}", "F"},
	{"{% if false %}A{% elseif x %}B{% else %}D{% endif %}", "B"}, {"{{ (x and true) ? 'T' : 'F' }}", "T"}, {"{{ (x or false) ? 'T' : 'F' }}", "T"}}

// checkC09Ptr: the falsy values are listed (false, 0, ”, null, empty list, empty map); a non-nil
// pointer is none of them, whatever it points to.
func checkC09Ptr(c C09PtrCase) error {
	f := c09PtrForms[c.Form%len(c09PtrForms)]
	var ctx Ctx
	ctx.Set("x", c.X)
	r := render1(f[0], zooCtx(ctx, 0))
	if r.Failed() || r.Out != f[1] {
		return fmt.Errorf("%s with x = %s (not one of the falsy values): %v, want %s", q(f[0]), PrintE2(c.X), r, q(f[1]))
	}
	return nil
}

func TestC09Pointers(t *testing.T) {
	r := NewRec(t, "C09", "exhaustive: non-nil pointers to false, true, 0, 5, 0.0, '', 'a', an empty and a non-empty []int, an empty and a non-empty map, a struct, and non-zero floats of tiny magnitude (1e-12, 1e-30 as float32, the smallest denormal, results of template arithmetic) x {if, ?:, not, elseif, and, or}; oracle: truthy; non-trivial = the pointee is itself falsy or the number is tiny")
	defer r.Flush()
	r.SetExhaustive()
	// non-zero numbers of very small magnitude are not zero
	for ti, v := range []*E{ZT(Int(1), "tiny64"), ZT(Int(-3), "tiny64"), ZT(Int(1), "tiny32"), ZT(Int(1), "denorm"), ZT(Int(-1), "denorm")} {
		for fi := range c09PtrForms {
			c := C09PtrCase{X: v, Form: fi}
			r.Case(fmt.Sprint("tiny", ti, fi), true, c09PtrForms[fi][0]+" with x="+PrintE2(v), "tiny-number")
			if err := checkC09Ptr(c); err != nil {
				r.FailEnum(t, "C09.ptr", c, err)
			}
		}
	}
	for fi, src := range []string{"{% if 0.02 / 1073741824 %}T{% else %}F{% endif %}", "{{ (1 / 3 - 0.333333333333) ? 'T' : 'F' }}", "{% if false %}A{% elseif 0.000000000001 %}T{% else %}F{% endif %}", "{% if 1e-15 %}T{% else %}F{% endif %}"} {
		rr := render1(src, nil)
		r.Case(fmt.Sprint("tinylit", fi), true, src, "tiny-number")
		if rr.Failed() || rr.Out != "T" {
			// a literal the engine cannot read is not a truthiness question
			if rr.Failed() {
				continue
			}
			r.FailEnum(t, "C09.tinylit", C09TinyLit{Src: src}, fmt.Errorf("%s: %v, want \"T\" (a non-zero number is truthy)", q(src), rr))
		}
	}
	ptrs := []*E{ZPtr(Bool(false)), ZPtr(Bool(true)), ZPtr(Int(0)), ZPtr(Int(5)), ZPtr(ZT(Int(0), "float64")), ZPtr(Str("")), ZPtr(Str("a")), ZPtr(ZT(List(), "[]int")), ZPtr(ZT(List(Int(1)), "[]int")),
		ZPtr(ZT(Hash(nil, nil), "map[string]int")), ZPtr(ZT(Hash([]string{"k"}, []*E{Int(1)}), "map[string]int")), ZT(Hash([]string{"Name"}, []*E{Str("")}), "ptrstruct")}
	for pi, p := range ptrs {
		for fi := range c09PtrForms {
			c := C09PtrCase{X: p, Form: fi}
			r.Case(fmt.Sprint(pi, fi), pi%2 == 0 || pi == 11, c09PtrForms[fi][0]+" with x="+PrintE2(p))
			if err := checkC09Ptr(c); err != nil {
				r.FailEnum(t, "C09.ptr", c, err)
			}
		}
	}
}

type C09TinyLit struct {
	Src string `json:"src"`
}

func checkC09TinyLit(c C09TinyLit) error {
	rr := render1(c.Src, nil)
	if !rr.Failed() && rr.Out != "T" {
		return fmt.Errorf("%s: %v, want \"T\" (a non-zero number is truthy)", q(c.Src), rr)
	}
	return nil
}

func init() {
	reg("C09.ptr", checkC09Ptr)
	reg("C09.tinylit", checkC09TinyLit)
}

// TestC09Loops enumerates loop counters over every length 0..14 for lists, strings and
// ranges, alone and around an inner loop.
func TestC09Loops(t *testing.T) {
	r := NewRec(t, "C09", "exhaustive: all seven loop counters + value + key at every position of lists, strings (ASCII and multi-byte) and ranges of every length 0..14, for-else on empty, ranges over a grid of start/end/step in [-4,4] (step != 0), the outer counters re-read after an inner loop, nested loops over typed Go slices, a loop re-entered through a recursive macro call from its own body; non-trivial = length >= 2 or empty-with-else")
	defer r.Flush()
	r.SetExhaustive()
	counters := func(sep string) *S {
		e := Bin("~", Attr(Var("loop"), "index"), Str(sep))
		for _, f := range []string{"index0", "revindex", "revindex0", "length"} {
			e = Bin("~", Bin("~", e, Attr(Var("loop"), f)), Str(sep))
		}
		e = Bin("~", e, Cond(Attr(Var("loop"), "first"), Str("F"), Str("f")))
		e = Bin("~", e, Cond(Attr(Var("loop"), "last"), Str("L"), Str("l")))
		return Print(e)
	}
	run := func(key string, nt bool, c ProgCase) {
		r.Case(key, nt, PrintBody(c.Body, SPrint{}))
		if err := checkC09(c); err != nil {
			r.FailEnum(t, "C09.flow", c, err)
		}
	}
	alphabet := []string{"a", "é", "日", "b", "ö", "c", "\U0001F600", "d", "ß", "e", "f", "g", "ñ", "h"}
	for n := 0; n <= 14; n++ {
		items := make([]*E, n)
		str := ""
		for i := 0; i < n; i++ {
			items[i] = Int(int64(10 + i))
			str += alphabet[i%len(alphabet)]
		}
		ctx := Ctx{}
		ctx.Set("xs", List(items...))
		ctx.Set("str", Str(str))
		loop := func(seq *E, withKey bool) *S {
			s := &S{K: "for", Name: "v", E: seq, Body: []*S{Text("["), Print(Var("v")), Text(":"), counters(","), Text("]")}, HasElse: true, Else: []*S{Text("EMPTY")}}
			if withKey {
				s.Key = "k"
				s.Body = append(s.Body, Print(Var("k")))
			}
			return s
		}
		run(fmt.Sprint("list", n), n >= 2 || n == 0, ProgCase{ctx, []*S{loop(Var("xs"), false)}})
		run(fmt.Sprint("listkey", n), n >= 2 || n == 0, ProgCase{ctx, []*S{loop(Var("xs"), true)}})
		run(fmt.Sprint("str", n), n >= 2 || n == 0, ProgCase{ctx, []*S{loop(Var("str"), false)}})
		run(fmt.Sprint("range", n), n >= 2 || n == 0, ProgCase{ctx, []*S{loop(Call("range", Int(1), Int(int64(n))), false)}})
		// nested: outer counters after an inner loop of a different length
		inner := &S{K: "for", Name: "w", E: Call("range", Int(1), Int(int64((n+1)%4))), Body: []*S{Print(Attr(Var("loop"), "index"))}}
		outer := &S{K: "for", Name: "v", E: Var("xs"), Body: []*S{counters("."), Text("<"), inner, Text(">"), counters("."), Text(";")}}
		run(fmt.Sprint("nested", n), n >= 1, ProgCase{ctx, []*S{outer}})
		// nested loops over typed Go slices ([]int outside, []string and []int inside)
		tctx := Ctx{}
		tctx.Set("xs", ZT(List(items...), "[]int"))
		var ws []*E
		for i := 0; i < (n+1)%5; i++ {
			ws = append(ws, Str(alphabet[i]))
		}
		tctx.Set("ws", ZT(List(ws...), "[]string"))
		tctx.Set("ys", ZT(List(Int(7), Int(8)), "[]int"))
		for _, innerSeq := range []string{"ws", "ys", "xs"} {
			in2 := &S{K: "for", Name: "w", E: Var(innerSeq), Body: []*S{Print(Var("w"))}}
			out2 := &S{K: "for", Name: "v", E: Var("xs"), Body: []*S{Print(Var("v")), Text("<"), in2, Text(">"), Print(Var("v")), counters("."), Text(";")}}
			run(fmt.Sprint("nested-typed", n, innerSeq), n >= 1, ProgCase{tctx, []*S{out2}})
		}
	}
	// the same loop entered again while it is running: a macro whose loop body calls the macro
	// (run-time nesting of one for tag); the counters of the outer execution are read after the
	// inner one returned
	for n := int64(1); n <= 4; n++ {
		for _, form := range []string{"local", "self"} {
			call := &E{K: "mcall", S: "tree", M: form, A: []*E{Bin("-", Var("n"), Int(1))}}
			loop := &S{K: "for", Name: "i", E: Call("range", Int(1), Var("n")), Body: []*S{Text("["), counters(","), Print(Var("i")), Text("<"), Print(call), Text(">"), counters(","), Print(Var("i")), Text("]")}}
			tree := &S{K: "macro", Name: "tree", Params: []Param{{Name: "n"}}, Body: []*S{{K: "if", Conds: []*E{Bin(">", Var("n"), Int(0))}, Bodies: [][]*S{{loop}}}}}
			run(fmt.Sprint("recursive-loop", n, form), true, ProgCase{Ctx{}, []*S{tree, Print(&E{K: "mcall", S: "tree", M: "local", A: []*E{Int(n)}})}})
		}
	}
	for a := int64(-4); a <= 4; a++ {
		for b := int64(-4); b <= 4; b++ {
			for st := int64(-4); st <= 4; st++ {
				if st == 0 {
					continue
				}
				s := &S{K: "for", Name: "v", E: Call("range", Int(a), Int(b), Int(st)), Body: []*S{Print(Var("v")), Text(","), Print(Attr(Var("loop"), "revindex0")), Text(";")}, HasElse: true, Else: []*S{Text("E")}}
				run(fmt.Sprint("range3", a, b, st), true, ProgCase{Ctx{}, []*S{s}})
			}
		}
	}
	// long sequences: every element is visited, the counters of the last pass say so
	for _, lc := range [][3]int{{1, 9999, 1}, {1, 10000, 1}, {1, 10001, 1}, {1, 12345, 1}, {0, 65536, 1}, {30000, 1, -1}, {0, 100000, 7}, {1, 1000000, 1000}} {
		n := (lc[1]-lc[0])/lc[2] + 1
		last := lc[0] + (n-1)*lc[2]
		c := C09LongCase{Start: lc[0], End: lc[1], Step: lc[2]}
		r.Case(fmt.Sprint("long", lc), true, c, "long-range")
		if err := checkC09Long(c); err != nil {
			r.FailEnum(t, "C09.long", c, err)
		}
		_, _ = n, last
	}
}

type C09LongCase struct {
	Start int  `json:"start"`
	End   int  `json:"end"`
	Step  int  `json:"step"`
	List  bool `json:"list"` // a context list of the same elements instead of range()
}

func checkC09Long(c C09LongCase) error {
	n := (c.End-c.Start)/c.Step + 1
	last := c.Start + (n-1)*c.Step
	want := fmt.Sprintf("%d|%d/%d/%d/%d", n, last, n, n, 1)
	src := fmt.Sprintf("{%% set k = 0 %%}{%% for i in range(%d, %d, %d) %%}{%% set k = k + 1 %%}{%% if loop.last %%}{{ k }}|{{ i }}/{{ loop.index }}/{{ loop.length }}/{{ loop.revindex }}{%% endif %%}{%% endfor %%}", c.Start, c.End, c.Step)
	r := render1(src, nil)
	if r.Failed() || r.Out != want {
		return fmt.Errorf("a loop over range(%d, %d, %d): %s, want %s (passes|last value/index/length/revindex)", c.Start, c.End, c.Step, trunc(fmt.Sprint(r)), q(want))
	}
	return nil
}

func init() { reg("C09.long", checkC09Long) }

func init() { reg("C09.flow", checkC09) }

// ---- set at the top level of a template that extends another -----------------------------------------------------

type C09ExtSetCase struct {
	Which int `json:"which"`
}

var c09ExtSetSets = []struct {
	main, want string
}{
	{"{% extends 'base' %}{% set title = 'Hello' %}{% block t %}{{ title }}{% endblock %}", "<Hello|>"},
	{"{% extends 'base' %}{% set a = 1 %}{% set b = a + 1 %}{% block t %}{{ a }}{{ b }}{% endblock %}{% block u %}{{ b * 2 }}{% endblock %}", "<12|4>"},
	{"{% extends 'base' %}{% block t %}{{ late }}{% endblock %}{% set late = 'L' %}", "<L|>"},
	{"{% extends 'base' %}{% set xs = [1, 2] %}{% block t %}{% for x in xs %}{{ x }}{% endfor %}{% endblock %}", "<12|>"},
	{"{% extends 'mid' %}{% set me = 'child' %}{% block u %}{{ me }}/{{ who }}{% endblock %}", "<mid:mid|child/mid>"},
}

// checkC09ExtSet: a set makes its value visible to everything rendered after it in the same template:
// also to the blocks of a template whose other top-level content produces no output because it
// extends another.
func checkC09ExtSet(c C09ExtSetCase) error {
	s := c09ExtSetSets[c.Which%len(c09ExtSetSets)]
	tm := map[string]string{"main": s.main, "base": "<{% block t %}{% endblock %}|{% block u %}{% endblock %}>", "mid": "{% extends 'base' %}{% set who = 'mid' %}{% block t %}mid:{{ who }}{% endblock %}"}
	r := render(newEngine(tm), "main", nil)
	if r.Failed() || r.Out != s.want {
		return fmt.Errorf("%s renders %v, want %s", q(s.main), r, q(s.want))
	}
	return nil
}

func TestC09ExtendsSet(t *testing.T) {
	r := NewRec(t, "C09", "exhaustive: 5 templates that extend another and assign variables at their top level (one set, a set that reads an earlier one, a set after the block, a list for a loop in a block, a middle template with a set of its own); expected text written out; all cases non-trivial")
	defer r.Flush()
	r.SetExhaustive()
	for i := range c09ExtSetSets {
		c := C09ExtSetCase{Which: i}
		r.Case(fmt.Sprint(i), true, c09ExtSetSets[i].main)
		if err := checkC09ExtSet(c); err != nil {
			r.FailEnum(t, "C09.extset", c, err)
		}
	}
}

func init() { reg("C09.extset", checkC09ExtSet) }
