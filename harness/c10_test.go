package vh

// C10 — template inheritance is block substitution along the extends chain.
// Oracle: the reference interpreter's substitution semantics (harness/stmt.go renderTmpl).

import (
	"fmt"
	"testing"

	"pgregory.net/rapid"
)

type SetCase struct {
	Ctx  Ctx    `json:"ctx"`
	Set  TSet   `json:"set"`
	Main string `json:"main"`
	// Ctx2, when present, is a second context rendered afterwards on the same engine (a
	// dynamic parent name may select another layout in it)
	Ctx2 *Ctx `json:"ctx2,omitempty"`
}

func checkSetCase(c SetCase) error {
	main := c.Main
	if main == "" {
		main = "main"
	}
	if c.Ctx2 == nil {
		return checkProgSet(c.Set, main, c.Ctx, SPrint{})
	}
	// one engine, two renders with different contexts, then the first context again
	srcs := c.Set.Sources(SPrint{})
	e := newEngine(srcs)
	NewSpies().Install(e)
	for i, ctx := range []Ctx{c.Ctx, *c.Ctx2, c.Ctx} {
		want := runModel(c.Set, main, ctx, 0)
		if want.domain {
			return nil
		}
		r := render(e, main, zooCtx(ctx, 0))
		if r.Panic != "" {
			return fmt.Errorf("render %d panicked: %s; templates:%s", i+1, r.Panic, showSources(srcs))
		}
		if want.failed != (r.Err != "") || (!want.failed && r.Out != want.out) {
			return fmt.Errorf("render %d on the same engine (context %s): engine %v, model %s (failed=%v); templates:%s", i+1, showModel(ctx.Model()), r, q(want.out), want.failed, showSources(srcs))
		}
	}
	return nil
}

// ---- generator ------------------------------------------------------------------------------

type inhGen struct {
	t      *rapid.T
	nblk   int
	levels int
	stats  map[string]bool
	// nestedAt[b] = level at which a block n<b> was introduced inside an override of b<b>
	// (0 = not introduced); more derived templates may then override n<b> as well
	nestedAt map[int]int
}

func (g *inhGen) pick(n int, l string) int { return rapid.IntRange(0, n-1).Draw(g.t, l) }

func tname(level int) string {
	if level == 0 {
		return "main"
	}
	return fmt.Sprintf("t%d", level)
}

func bname(i int) string { return fmt.Sprintf("b%d", i) }

// blockBody draws a definition body for block b at some level. mayParent: a definition
// exists further up the chain, so parent() is meaningful.
func (g *inhGen) blockBody(level, b int, mayParent bool, inLoop bool) []*S {
	tag := fmt.Sprintf("<%d.%d>", level, b)
	form := g.pick(9, "blockform")
	if !mayParent && form >= 4 {
		form = g.pick(3, "blockform2")
	}
	if form == 8 && (g.nestedAt[b] != 0 || level == 0) {
		form = 4
	}
	switch form {
	case 8:
		// the override introduces a block of its own, which templates further down the chain
		// may override in turn
		g.nestedAt[b] = level
		g.stats["override-introduces-a-block"] = true
		g.stats["parent()"] = true
		return []*S{Text(tag + "("), {K: "block", Name: fmt.Sprintf("n%d", b), Body: []*S{Text(fmt.Sprintf("<n%d@%d>", b, level))}}, Text(")"), {K: "parent"}}
	case 0:
		g.stats["empty-override"] = g.stats["empty-override"] || level < g.levels-1
		return nil
	case 1:
		return []*S{Text(tag)}
	case 2:
		body := []*S{Text(tag), Print(Var("a"))}
		if inLoop {
			body = append(body, Print(Var("i")))
		}
		return body
	case 3:
		return []*S{Text(tag), {K: "if", Conds: []*E{Var("t")}, Bodies: [][]*S{{Text("y")}}}}
	case 4:
		g.stats["parent()"] = true
		return []*S{Text(tag + "["), {K: "parent"}, Text("]")}
	case 5:
		g.stats["parent()"] = true
		return []*S{{K: "parent"}, Text(tag)}
	case 6:
		g.stats["parent()"] = true
		g.stats["parent-twice"] = true
		return []*S{{K: "parent"}, Text("+"), {K: "parent"}}
	default:
		g.stats["parent()"] = true
		g.stats["parent-in-if"] = true
		return []*S{Text(tag), {K: "if", Conds: []*E{Var(rapid.SampledFrom([]string{"t", "f"}).Draw(g.t, "pcond"))}, Bodies: [][]*S{{{K: "parent"}}}, HasElse: true, Else: []*S{Text("-")}}}
	}
}

func genInheritance(t *rapid.T) (SetCase, map[string]bool) {
	g := &inhGen{t: t, stats: map[string]bool{}, nestedAt: map[int]int{}}
	g.levels = rapid.IntRange(1, 5).Draw(t, "levels")
	g.nblk = rapid.IntRange(1, 4).Draw(t, "nblocks")
	ctx := Ctx{}
	ctx.Set("a", Int(int64(rapid.IntRange(0, 9).Draw(t, "a"))))
	ctx.Set("t", Bool(true))
	ctx.Set("f", Bool(false))
	ctx.Set("xs", List(Int(1), Int(2)))
	base := g.levels - 1
	// where each block stands in the base layout
	var baseBody []*S
	place := make([]int, g.nblk)
	definedAbove := make([]bool, g.nblk) // a definition exists at a level above the current one
	for b := 0; b < g.nblk; b++ {
		place[b] = g.pick(5, "place")
		blk := &S{K: "block", Name: bname(b), Body: g.blockBody(base, b, false, place[b] == 2)}
		switch place[b] {
		case 0, 1:
			baseBody = append(baseBody, Text(fmt.Sprintf("|%d:", b)), blk)
		case 2:
			g.stats["block-in-loop"] = true
			baseBody = append(baseBody, &S{K: "for", Name: "i", E: Var("xs"), Body: []*S{Text("("), blk, Text(")")}})
		case 3:
			g.stats["block-in-if"] = true
			baseBody = append(baseBody, &S{K: "if", Conds: []*E{Var("t")}, Bodies: [][]*S{{Text("{if}"), blk}}})
		default:
			g.stats["block-in-block"] = true
			outer := &S{K: "block", Name: fmt.Sprintf("o%d", b), Body: []*S{Text("[outer"), blk, Text("]")}}
			baseBody = append(baseBody, outer)
		}
		definedAbove[b] = true
	}
	var partial *Tmpl
	if g.pick(3, "incpart") == 0 {
		// the layout includes a partial that has a block of its own named like a block of the
		// chain: it is not on the extends chain, so it renders its own definition
		g.stats["layout-includes-partial-with-same-block-name"] = true
		partial = &Tmpl{Name: "part", Body: []*S{Text("P["), {K: "block", Name: bname(0), Body: []*S{Text("part-own-b0")}}, Text("]")}}
		baseBody = append(baseBody, &S{K: "include", E: Str("part")})
	}
	baseBody = append(baseBody, Text("|end"))
	set := TSet{{Name: tname(base), Body: baseBody}}
	if partial != nil {
		set = append(set, partial)
	}
	for level := base - 1; level >= 0; level-- {
		parent := tname(level + 1)
		var ext *E
		switch g.pick(5, "extform") {
		case 0:
			ctx.Set(fmt.Sprintf("pn%d", level), Str(parent))
			ext = Var(fmt.Sprintf("pn%d", level))
			g.stats["dynamic-parent"] = true
		case 1:
			ext = Bin("~", Str(parent[:1]), Str(parent[1:]))
			g.stats["dynamic-parent"] = true
		case 2:
			ext = Cond(Var("t"), Str(parent), Str("nonexistent"))
			g.stats["dynamic-parent"] = true
		default:
			ext = Str(parent)
		}
		tm := &Tmpl{Name: tname(level), Extends: ext}
		tm.Body = append(tm.Body, Text("junk-before"))
		junk := func() {
			// content outside blocks in a child produces no output, whatever it is
			switch g.pick(6, "junkkind") {
			case 0:
				tm.Body = append(tm.Body, Print(Var("a")))
				g.stats["output-producing-tags-outside-blocks"] = true
			case 1:
				tm.Body = append(tm.Body, &S{K: "if", Conds: []*E{Var("t")}, Bodies: [][]*S{{Text("junk-if")}}})
				g.stats["output-producing-tags-outside-blocks"] = true
			case 2:
				tm.Body = append(tm.Body, &S{K: "for", Name: "j", E: Var("xs"), Body: []*S{Text("junk-for"), Print(Var("j"))}})
				g.stats["output-producing-tags-outside-blocks"] = true
			case 3:
				tm.Body = append(tm.Body, Print(Str("junk-print")))
				g.stats["output-producing-tags-outside-blocks"] = true
			default:
				tm.Body = append(tm.Body, Text(" junk "))
			}
		}
		if g.pick(2, "junkfirst") == 0 {
			junk()
		}
		for b := 0; b < g.nblk; b++ {
			if at := g.nestedAt[b]; at > level && g.pick(2, "overnested") == 0 {
				// override of the block that a less derived override introduced
				g.stats["overrides-introduced-block"] = true
				nb := []*S{Text(fmt.Sprintf("<n%d!%d>", b, level))}
				if g.pick(2, "nestedparent") == 0 {
					nb = append(nb, &S{K: "parent"})
				}
				tm.Body = append(tm.Body, &S{K: "block", Name: fmt.Sprintf("n%d", b), Body: nb})
			}
			if g.pick(3, "omit") == 0 {
				g.stats["omitted-at-some-level"] = true
				continue
			}
			tm.Body = append(tm.Body, &S{K: "block", Name: bname(b), Body: g.blockBody(level, b, true, place[b] == 2)})
			if g.pick(2, "junkbetween") == 0 {
				junk()
			}
		}
		if g.pick(3, "comment") == 0 {
			tm.Body = append(tm.Body, &S{K: "comment", T: " note "})
		}
		set = append(set, tm)
	}
	sc := SetCase{Ctx: ctx, Set: set, Main: "main"}
	// when main's parent name comes from a variable, a second context selects another layout
	if len(set) >= 2 {
		main := set[len(set)-1]
		if main.Extends != nil && main.Extends.K == "var" {
			alt := &Tmpl{Name: "altlayout", Body: []*S{Text("ALT[")}}
			for b := 0; b < g.nblk; b++ {
				alt.Body = append(alt.Body, &S{K: "block", Name: bname(b), Body: []*S{Text(fmt.Sprintf("alt%d", b))}}, Text(";"))
			}
			alt.Body = append(alt.Body, Text("]"))
			sc.Set = append(sc.Set, alt)
			c2 := Ctx{Names: append([]string{}, ctx.Names...), Vals: append([]*E{}, ctx.Vals...)}
			c2.Set(main.Extends.S, Str("altlayout"))
			sc.Ctx2 = &c2
			g.stats["second-render-selects-another-layout"] = true
		}
	}
	return sc, g.stats
}

const c10Rule = "extends chains of 1-5 templates over 1-4 blocks placed at top level, inside a loop, inside a conditional or inside another block of the base layout; every level independently omits, overrides with text/prints/conditionals, overrides with an empty body, or overrides and calls parent() (before, after, twice, inside an if), or introduces a new block inside its override which more derived templates override in turn; parent names static or dynamic (variable, concatenation, conditional); children carry text, comments, print tags, conditionals and loops outside blocks (none of which may produce output); the layout may include a partial with a block named like one of the chain's; non-trivial = chain length >= 3, or an empty override, or parent(), or a block inside a loop/conditional/other block; distinct by source set"

func TestC10Inheritance(t *testing.T) {
	r := NewRec(t, "C10", c10Rule)
	defer r.Flush()
	rapid.Check(t, func(rt *rapid.T) {
		c, st := genInheritance(rt)
		if runModel(c.Set, "main", c.Ctx, 0).domain {
			r.Excl("outside the modelled domain")
			return
		}
		var cl []string
		for k := range st {
			cl = append(cl, k)
		}
		sortStrings(cl)
		cl = append(cl, fmt.Sprintf("chain:%d", len(c.Set)))
		nt := len(c.Set) >= 3 || st["empty-override"] || st["parent()"] || st["block-in-loop"] || st["block-in-if"] || st["block-in-block"]
		srcs := c.Set.Sources(SPrint{})
		r.Case(showSources(srcs), nt, srcs, cl...)
		if err := checkSetCase(c); err != nil {
			r.Fail(rt, "C10.inherit", c, err)
		}
	})
}

// forEachC10Grid enumerates all assignments of {omit, text, empty, parent()} to the levels of
// chains of length 2..4 over two blocks (one at top level, one inside a loop).
func forEachC10Grid(f func(key string, sc SetCase)) {
	ctx := Ctx{}
	ctx.Set("xs", List(Int(1), Int(2)))
	forms := []string{"omit", "text", "empty", "parent"}
	def := func(level, b int, form string) *S {
		tag := fmt.Sprintf("<%d.%d>", level, b)
		switch form {
		case "text":
			return &S{K: "block", Name: bname(b), Body: []*S{Text(tag)}}
		case "empty":
			return &S{K: "block", Name: bname(b)}
		case "parent":
			return &S{K: "block", Name: bname(b), Body: []*S{Text(tag + "("), {K: "parent"}, Text(")")}}
		}
		return nil
	}
	for n := 2; n <= 4; n++ {
		nchild := n - 1
		total := 1
		for i := 0; i < nchild; i++ {
			total *= len(forms)
		}
		for code := 0; code < total; code++ {
			for b1mode := 0; b1mode < 3; b1mode++ {
				base := &Tmpl{Name: tname(n - 1), Body: []*S{Text("A"), def(n-1, 0, "text"), Text("B"),
					{K: "for", Name: "i", E: Var("xs"), Body: []*S{def(n-1, 1, "text"), Print(Var("i"))}}, Text("C")}}
				set := TSet{base}
				c := code
				for level := n - 2; level >= 0; level-- {
					fm := forms[c%len(forms)]
					c /= len(forms)
					tm := &Tmpl{Name: tname(level), Extends: Str(tname(level + 1)), Body: []*S{Text("junk")}}
					if d := def(level, 0, fm); d != nil {
						tm.Body = append(tm.Body, d)
					}
					switch b1mode {
					case 1:
						if level == 0 {
							tm.Body = append(tm.Body, def(level, 1, "text"))
						}
					case 2:
						tm.Body = append(tm.Body, def(level, 1, "parent"))
					}
					set = append(set, tm)
				}
				f(fmt.Sprint(n, code, b1mode), SetCase{Ctx: ctx, Set: set, Main: "main"})
			}
		}
	}
}

func TestC10Grid(t *testing.T) {
	r := NewRec(t, "C10", "exhaustive: chains of length 2..4; for block b0 (top level) every assignment of {omit, text, empty, text+parent()} to every child level, combined with three assignments for block b1 (inside a loop of the base): omitted everywhere / text at the most derived level / parent() at every level; all cases non-trivial")
	defer r.Flush()
	r.SetExhaustive()
	forEachC10Grid(func(key string, sc SetCase) {
		n := len(sc.Set)
		r.Case(key, true, sc.Set.Sources(SPrint{})["main"], fmt.Sprintf("chain:%d", n))
		if err := checkSetCase(sc); err != nil {
			r.FailEnum(t, "C10.inherit", sc, err)
		}
	})
}

func init() { reg("C10.inherit", checkSetCase) }
