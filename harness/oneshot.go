package vh

// Pristine-process oracle (DESIGN.md 3.4): the harness binary doubles as a one-shot renderer.
// With VERIF_ONESHOT=1 it reads one query on stdin, builds one engine in a fresh process,
// performs the single call and prints the observable result.

import (
	"bytes"
	"crypto/sha256"
	"encoding/json"
	"errors"
	"fmt"
	"io"
	"os"
	"os/exec"
	"sort"
	"sync"

	"github.com/semihalev/twig"
)

type EngSpec struct {
	Templates  map[string]string `json:"templates"`  // served by an ArrayLoader
	Registered [][2]string       `json:"registered"` // RegisterString calls in order (name, source)
	CacheOff   bool              `json:"cache_off,omitempty"`
	Debug      bool              `json:"debug,omitempty"`
	AutoReload bool              `json:"auto_reload,omitempty"`
	FailAt     int               `json:"fail_at,omitempty"`        // spy invocation that fails
	Sandbox    bool              `json:"sandbox,omitempty"`        // EnableSandbox(allowAll)
	DefaultPol bool              `json:"default_policy,omitempty"` // EnableSandbox(NewDefaultSecurityPolicy())
	// Config: additions made through AddGlobal / AddFunction / AddFilter, "g:name", "f:name", "|name"
	// (a global holds "G<name>", a function returns "F<name>", a filter appends "|<name>")
	Config []string `json:"config,omitempty"`
}

// applyConfig performs one configuration call described as in EngSpec.Config.
func applyConfig(e *twig.Engine, c string) {
	name := c[2:]
	switch c[:2] {
	case "s:":
		// strict variables (the option exists; what it does to undefined variables is the engine's)
		e.SetStrictVars(true)
	case "p:":
		// the engine gets a default policy of its own, relaxed in place for one name
		pol := twig.NewDefaultSecurityPolicy()
		pol.AllowedFilters[name] = true
		pol.AllowedFunctions[name] = true
		e.EnableSandbox(pol)
	case "g:":
		e.AddGlobal(name, "G"+name)
	case "f:":
		e.AddFunction(name, func(args ...interface{}) (interface{}, error) { return "F" + name, nil })
	default:
		name = c[1:]
		e.AddFilter(name, func(v interface{}, args ...interface{}) (interface{}, error) { return fmt.Sprint(v) + "|" + name, nil })
	}
}

type OneShot struct {
	Eng     EngSpec `json:"eng"`
	Call    string  `json:"call"` // render | renderTo | loadRender
	Name    string  `json:"name"`
	Ctx     Ctx     `json:"ctx"`
	Variant int     `json:"variant"`
	// TZ: time zone of the fresh process that answers the query (pristine only); "" = as inherited
	TZ string `json:"tz,omitempty"`
}

type OneShotRes struct {
	Out      BStr   `json:"out"`
	Err      bool   `json:"err"`
	NotFound bool   `json:"not_found,omitempty"`
	SecViol  bool   `json:"sec_viol,omitempty"`
	Panic    string `json:"panic,omitempty"`
	ErrText  string `json:"err_text,omitempty"`
}

func (r OneShotRes) Same(o OneShotRes) bool {
	return r.Out == o.Out && r.Err == o.Err && (r.Panic != "") == (o.Panic != "")
}

func (r OneShotRes) String() string {
	if r.Panic != "" {
		return "PANIC(" + r.Panic + ")"
	}
	if r.Err {
		return fmt.Sprintf("ERR(%s) out=%s", firstLine(r.ErrText), q(string(r.Out)))
	}
	return q(string(r.Out))
}

func buildEngine(s EngSpec) (*twig.Engine, *Spies) {
	e := twig.New()
	cp := make(map[string]string, len(s.Templates))
	for k, v := range s.Templates {
		cp[k] = v
	}
	e.RegisterLoader(twig.NewArrayLoader(cp))
	sp := NewSpies()
	sp.FailAt = s.FailAt
	sp.Install(e)
	if s.Sandbox {
		e.EnableSandbox(allowAll{})
	}
	if s.DefaultPol {
		e.EnableSandbox(twig.NewDefaultSecurityPolicy())
	}
	for _, c := range s.Config {
		applyConfig(e, c)
	}
	for _, r := range s.Registered {
		e.RegisterString(r[0], r[1])
	}
	if s.CacheOff {
		e.SetCache(false)
	}
	if s.Debug {
		twig.SetDebugWriter(io.Discard)
		e.SetDebug(true)
	}
	if s.AutoReload {
		e.SetAutoReload(true)
	}
	return e, sp
}

func toOneShotRes(r Res) OneShotRes {
	o := OneShotRes{Out: BStr(r.Out), Err: r.Err != "", Panic: r.Panic, ErrText: r.Err}
	if r.Error() != nil {
		o.NotFound = errors.Is(r.Error(), twig.ErrTemplateNotFound)
		var sv *twig.SecurityViolation
		o.SecViol = errors.As(r.Error(), &sv)
	}
	return o
}

func doCall(e *twig.Engine, call, name string, ctx map[string]interface{}) Res {
	switch call {
	case "renderTo":
		return renderTo(e, name, ctx)
	case "loadRender":
		return guard(func() (string, error) {
			t, err := e.Load(name)
			if err != nil {
				return "", err
			}
			return t.Render(ctx)
		})
	}
	return render(e, name, ctx)
}

func runOneShot(qr OneShot) OneShotRes {
	e, _ := buildEngine(qr.Eng)
	return toOneShotRes(doCall(e, qr.Call, qr.Name, zooCtx(qr.Ctx, qr.Variant)))
}

// oneShotMain is called from TestMain when VERIF_ONESHOT is set.
func oneShotMain() {
	var qr OneShot
	dec := json.NewDecoder(os.Stdin)
	if err := dec.Decode(&qr); err != nil {
		fmt.Fprintln(os.Stderr, "oneshot: bad query:", err)
		os.Exit(3)
	}
	res := runOneShot(qr)
	b, _ := json.Marshal(res)
	os.Stdout.Write(b)
	os.Exit(0)
}

var (
	pristineMu   sync.Mutex
	pristineMemo = map[[32]byte]OneShotRes{}
	pristineRuns int
)

func canonSpec(qr OneShot) []byte {
	// maps marshal with sorted keys, so the JSON form is canonical
	b, _ := json.Marshal(qr)
	return b
}

// pristine answers a query in a fresh OS process (memoised by query).
func pristine(qr OneShot) (OneShotRes, error) {
	key := sha256.Sum256(canonSpec(qr))
	pristineMu.Lock()
	if r, ok := pristineMemo[key]; ok {
		pristineMu.Unlock()
		return r, nil
	}
	pristineMu.Unlock()
	cmd := exec.Command(os.Args[0])
	cmd.Env = append(os.Environ(), "VERIF_ONESHOT=1", "GOMAXPROCS=2")
	if qr.TZ != "" {
		cmd.Env = append(cmd.Env, "TZ="+qr.TZ)
	}
	cmd.Stdin = bytes.NewReader(canonSpec(qr))
	var out, errb bytes.Buffer
	cmd.Stdout = &out
	cmd.Stderr = &errb
	if err := cmd.Run(); err != nil {
		// the fresh process died: that is itself the pristine result (a crash on this input)
		return OneShotRes{Panic: "pristine process died: " + err.Error() + ": " + firstLine(errb.String())}, nil
	}
	var res OneShotRes
	if err := json.Unmarshal(out.Bytes(), &res); err != nil {
		return res, fmt.Errorf("pristine process printed %q: %v", out.String(), err)
	}
	pristineMu.Lock()
	pristineMemo[key] = res
	pristineRuns++
	pristineMu.Unlock()
	return res, nil
}

func sortedTemplateNames(m map[string]string) []string {
	ks := make([]string, 0, len(m))
	for k := range m {
		ks = append(ks, k)
	}
	sort.Strings(ks)
	return ks
}
