package vh

// Statement AST, printer and the statement half of the reference model.

import (
	"errors"
	"fmt"
	"sort"
	"strings"
)

// S is a statement node.
//
//	text T | print E | comment T | verbatim T
//	if Conds/Bodies/Else(HasElse) | for Key? Name in E Body Else(HasElse)
//	set Name = E | do E | block Name Body | parent (prints parent())
//	include E With Only IgnoreMissing Sandboxed
//	macro Name Params Body | import E as Name | from E import Imports
//	apply Filter Args Body | spaceless Body
type S struct {
	K       string   `json:"k"`
	T       BStr     `json:"t,omitempty"`
	E       *E       `json:"e,omitempty"`
	Name    string   `json:"name,omitempty"`
	Key     string   `json:"key,omitempty"`
	Conds   []*E     `json:"conds,omitempty"`
	Bodies  [][]*S   `json:"bodies,omitempty"`
	Body    []*S     `json:"body,omitempty"`
	Else    []*S     `json:"else,omitempty"`
	HasElse bool     `json:"haselse,omitempty"`
	With    *E       `json:"with,omitempty"`
	Only    bool     `json:"only,omitempty"`
	IgnMiss bool     `json:"ignmiss,omitempty"`
	Sandbox bool     `json:"sandbox,omitempty"`
	Params  []Param  `json:"params,omitempty"`
	Imports []Import `json:"imports,omitempty"`
	Filter  string   `json:"filter,omitempty"`
	Args    []*E     `json:"args,omitempty"`
	// spelling: D[i] bit0 = dash on the left delimiter, bit1 = dash on the right delimiter of
	// the i-th tag of this construct (opening, middle tags in order, closing)
	D  []int `json:"d,omitempty"`
	Kw []int `json:"kw,omitempty"` // whitespace codes after tag keywords
}

type Param struct {
	Name string `json:"name"`
	Def  *E     `json:"def,omitempty"`
}

type Import struct {
	Name  string `json:"name"`
	Alias string `json:"alias,omitempty"`
}

type Tmpl struct {
	Name    string `json:"name"`
	Extends *E     `json:"extends,omitempty"`
	Body    []*S   `json:"body"`
	XD      int    `json:"xd,omitempty"` // dashes on the extends tag
}

func Text(s string) *S       { return &S{K: "text", T: BStr(s)} }
func Print(e *E) *S          { return &S{K: "print", E: e} }
func SetS(n string, e *E) *S { return &S{K: "set", Name: n, E: e} }
func If(c *E, body ...*S) *S { return &S{K: "if", Conds: []*E{c}, Bodies: [][]*S{body}} }
func For(v string, seq *E, body ...*S) *S {
	return &S{K: "for", Name: v, E: seq, Body: body}
}

// ---- printer ------------------------------------------------------------------------------

type SPrint struct {
	PrintOpts
	NoDash bool // ignore dash flags
}

func (s *S) dash(i int) (l, r string) {
	if i < len(s.D) {
		if s.D[i]&1 != 0 {
			l = "-"
		}
		if s.D[i]&2 != 0 {
			r = "-"
		}
	}
	return
}

func (s *S) kw(i int, o SPrint) string {
	if o.NoSpace || i >= len(s.Kw) {
		return " "
	}
	w := wsCodes[s.Kw[i]%len(wsCodes)]
	if w == "" {
		return " "
	}
	return w
}

func tagOpen(l string) string  { return "{%" + l + " " }
func tagClose(r string) string { return " " + r + "%}" }

func (s *S) tag(i int, o SPrint, inner string) string {
	l, r := "", ""
	if !o.NoDash {
		l, r = s.dash(i)
	}
	return "{%" + l + " " + inner + " " + r + "%}"
}

func PrintBody(body []*S, o SPrint) string {
	var b strings.Builder
	for _, s := range body {
		b.WriteString(PrintS(s, o))
	}
	return b.String()
}

func PrintS(s *S, o SPrint) string {
	pe := func(e *E) string { return PrintE(e, o.PrintOpts) }
	switch s.K {
	case "text":
		return string(s.T)
	case "print":
		l, r := "", ""
		if !o.NoDash {
			l, r = s.dash(0)
		}
		return "{{" + l + " " + pe(s.E) + " " + r + "}}"
	case "comment":
		return "{#" + string(s.T) + "#}"
	case "verbatim":
		return s.tag(0, o, "verbatim") + string(s.T) + s.tag(1, o, "endverbatim")
	case "if":
		var b strings.Builder
		ti := 0
		for i, c := range s.Conds {
			kwd := "if"
			if i > 0 {
				kwd = "elseif"
			}
			b.WriteString(s.tag(ti, o, kwd+s.kw(i, o)+pe(c)))
			ti++
			b.WriteString(PrintBody(s.Bodies[i], o))
		}
		if s.HasElse {
			b.WriteString(s.tag(ti, o, "else"))
			ti++
			b.WriteString(PrintBody(s.Else, o))
		}
		b.WriteString(s.tag(ti, o, "endif"))
		return b.String()
	case "for":
		var b strings.Builder
		vars := s.Name
		if s.Key != "" {
			vars = s.Key + ", " + s.Name
		}
		b.WriteString(s.tag(0, o, "for"+s.kw(0, o)+vars+s.kw(1, o)+"in"+s.kw(2, o)+pe(s.E)))
		b.WriteString(PrintBody(s.Body, o))
		ti := 1
		if s.HasElse {
			b.WriteString(s.tag(ti, o, "else"))
			ti++
			b.WriteString(PrintBody(s.Else, o))
		}
		b.WriteString(s.tag(ti, o, "endfor"))
		return b.String()
	case "set":
		return s.tag(0, o, "set"+s.kw(0, o)+s.Name+" = "+pe(s.E))
	case "do":
		return s.tag(0, o, "do"+s.kw(0, o)+pe(s.E))
	case "block":
		return s.tag(0, o, "block"+s.kw(0, o)+s.Name) + PrintBody(s.Body, o) + s.tag(1, o, "endblock")
	case "parent":
		l, r := "", ""
		if !o.NoDash {
			l, r = s.dash(0)
		}
		return "{{" + l + " parent() " + r + "}}"
	case "include":
		inner := "include" + s.kw(0, o) + pe(s.E)
		if s.IgnMiss {
			inner += " ignore missing"
		}
		if s.With != nil {
			inner += " with " + pe(s.With)
		}
		if s.Only {
			inner += " only"
		}
		if s.Sandbox {
			inner += " sandboxed"
		}
		return s.tag(0, o, inner)
	case "macro":
		var ps []string
		for _, p := range s.Params {
			if p.Def != nil {
				ps = append(ps, p.Name+" = "+pe(p.Def))
			} else {
				ps = append(ps, p.Name)
			}
		}
		return s.tag(0, o, "macro"+s.kw(0, o)+s.Name+"("+strings.Join(ps, ", ")+")") + PrintBody(s.Body, o) + s.tag(1, o, "endmacro")
	case "import":
		return s.tag(0, o, "import"+s.kw(0, o)+pe(s.E)+" as "+s.Name)
	case "from":
		var is []string
		for _, im := range s.Imports {
			if im.Alias != "" {
				is = append(is, im.Name+" as "+im.Alias)
			} else {
				is = append(is, im.Name)
			}
		}
		return s.tag(0, o, "from"+s.kw(0, o)+pe(s.E)+" import "+strings.Join(is, ", "))
	case "apply":
		f := s.Filter
		if len(s.Args) > 0 {
			var as []string
			for _, a := range s.Args {
				as = append(as, pe(a))
			}
			f += "(" + strings.Join(as, ", ") + ")"
		}
		return s.tag(0, o, "apply"+s.kw(0, o)+f) + PrintBody(s.Body, o) + s.tag(1, o, "endapply")
	case "spaceless":
		return s.tag(0, o, "spaceless") + PrintBody(s.Body, o) + s.tag(1, o, "endspaceless")
	}
	panic("PrintS: unknown kind " + s.K)
}

func PrintTmpl(t *Tmpl, o SPrint) string {
	var b strings.Builder
	if t.Extends != nil {
		l, r := "", ""
		if !o.NoDash {
			if t.XD&1 != 0 {
				l = "-"
			}
			if t.XD&2 != 0 {
				r = "-"
			}
		}
		b.WriteString("{%" + l + " extends " + PrintE(t.Extends, o.PrintOpts) + " " + r + "%}")
	}
	b.WriteString(PrintBody(t.Body, o))
	return b.String()
}

// TSet is a set of templates, kept sorted by name for determinism.
type TSet []*Tmpl

func (ts TSet) Map() map[string]*Tmpl {
	m := make(map[string]*Tmpl, len(ts))
	for _, t := range ts {
		m[t.Name] = t
	}
	return m
}

func (ts TSet) Sources(o SPrint) map[string]string {
	m := make(map[string]string, len(ts))
	for _, t := range ts {
		m[t.Name] = PrintTmpl(t, o)
	}
	return m
}

func showSources(m map[string]string) string {
	ks := make([]string, 0, len(m))
	for k := range m {
		ks = append(ks, k)
	}
	sort.Strings(ks)
	var b strings.Builder
	for _, k := range ks {
		fmt.Fprintf(&b, "\n  [%s] %s", k, q(m[k]))
	}
	return b.String()
}

// ---- model ----------------------------------------------------------------------------------

type frame struct {
	blocks map[string][]blockDef // per block name: definitions from most derived to base
}

type blockDef struct {
	body []*S
	tmpl *Tmpl
}

// RenderModel evaluates template `name` of the set with the given variables.
func (m *Model) Render(name string, vars map[string]interface{}) (string, error) {
	t, ok := m.Set[name]
	if !ok {
		return "", &rmErr{"notfound", name}
	}
	env := &Env{vars: copyVars(vars), m: m}
	var b strings.Builder
	err := m.renderTmpl(&b, t, env, nil)
	if err != nil {
		return "", err
	}
	return b.String(), nil
}

func copyVars(v map[string]interface{}) map[string]interface{} {
	out := make(map[string]interface{}, len(v)+4)
	for k, x := range v {
		out[k] = x
	}
	return out
}

// homeOf finds the template in which a macro is defined.
func (m *Model) homeOf(mac *S, caller *Env) *Tmpl {
	for _, t := range m.Set {
		for _, s := range t.Body {
			if s == mac {
				return t
			}
		}
	}
	return caller.tmpl
}

func collectMacros(t *Tmpl) map[string]*S {
	out := map[string]*S{}
	if t == nil {
		return out
	}
	for _, s := range t.Body {
		if s.K == "macro" {
			out[s.Name] = s
		}
	}
	return out
}

// renderTmpl renders t in env. chain carries block definitions of the templates that
// extend t (most derived first).
func (m *Model) renderTmpl(w *strings.Builder, t *Tmpl, env *Env, chain map[string][]blockDef) error {
	m.depth++
	defer func() { m.depth-- }()
	if m.depth > 40 {
		return domain("template recursion")
	}
	env.tmpl = t
	if env.macros == nil {
		env.macros = map[string]*S{}
	}
	// own top-level blocks are appended after the descendants' definitions
	mine := map[string][]blockDef{}
	for k, v := range chain {
		mine[k] = append([]blockDef(nil), v...)
	}
	var collect func(body []*S)
	collect = func(body []*S) {
		for _, s := range body {
			switch s.K {
			case "block":
				mine[s.Name] = append(mine[s.Name], blockDef{s.Body, t})
				collect(s.Body)
			case "if":
				for _, b := range s.Bodies {
					collect(b)
				}
				collect(s.Else)
			case "for":
				collect(s.Body)
				collect(s.Else)
			}
		}
	}
	collect(t.Body)
	if t.Extends != nil {
		// a child executes nothing but hands its block definitions to the parent
		pn, err := env.Eval(t.Extends)
		if err != nil {
			return err
		}
		pname, ok := pn.(string)
		if !ok {
			return domain("extends name not a string")
		}
		pt, ok := m.Set[pname]
		if !ok {
			return &rmErr{"notfound", pname}
		}
		// the output is the parent's: text, comments, print tags, conditionals and loops outside
		// blocks contribute nothing (as long as they hold no block definitions themselves)
		var holdsBlock func(b []*S) bool
		holdsBlock = func(b []*S) bool {
			for _, s := range b {
				if s.K == "block" || holdsBlock(s.Body) || holdsBlock(s.Else) {
					return true
				}
				for _, bb := range s.Bodies {
					if holdsBlock(bb) {
						return true
					}
				}
			}
			return false
		}
		for _, s := range t.Body {
			switch s.K {
			case "block", "text", "comment":
			case "print", "if", "for":
				if holdsBlock([]*S{s}) {
					return domain("block definitions inside conditionals or loops of a child are not modelled")
				}
			default:
				return domain("child templates with statements outside blocks are not modelled")
			}
		}
		return m.renderTmpl(w, pt, env, mine)
	}
	fr := &frame{blocks: mine}
	return m.exec(w, t.Body, env, fr)
}

var errBreak = errors.New("break")

func (m *Model) exec(w *strings.Builder, body []*S, env *Env, fr *frame) error {
	for _, s := range body {
		if err := m.exec1(w, s, env, fr); err != nil {
			return err
		}
	}
	return nil
}

func (m *Model) renderBlockDef(w *strings.Builder, name string, level int, env *Env, fr *frame) error {
	defs := fr.blocks[name]
	if level >= len(defs) {
		return domain("parent() without a definition further up")
	}
	sub := &frame{blocks: fr.blocks}
	_ = sub
	cur := blockCursor{name, level}
	old := env.m.curBlock(env)
	env.m.setCurBlock(env, &cur)
	defer env.m.setCurBlock(env, old)
	return m.exec(w, defs[level].body, env, fr)
}

type blockCursor struct {
	name  string
	level int
}

// the current block cursor lives in the Env's vars under an unreachable key
const curBlockKey = "\x00curblock"

func (m *Model) curBlock(env *Env) *blockCursor {
	if v, ok := env.vars[curBlockKey]; ok {
		return v.(*blockCursor)
	}
	return nil
}

func (m *Model) setCurBlock(env *Env, c *blockCursor) {
	if c == nil {
		delete(env.vars, curBlockKey)
	} else {
		env.vars[curBlockKey] = c
	}
}

func loopMap(i, n int) map[string]interface{} {
	return map[string]interface{}{
		"index": int64(i + 1), "index0": int64(i), "revindex": int64(n - i), "revindex0": int64(n - i - 1),
		"first": i == 0, "last": i == n-1, "length": int64(n),
	}
}

func (m *Model) exec1(w *strings.Builder, s *S, env *Env, fr *frame) error {
	switch s.K {
	case "text":
		w.WriteString(string(s.T))
	case "comment":
	case "verbatim":
		w.WriteString(string(s.T))
	case "print":
		if s.E.K == "mcall" {
			return m.callMacro(w, s.E, env)
		}
		v, err := env.Eval(s.E)
		if err != nil {
			return err
		}
		t, err := toText(v)
		if err != nil {
			return err
		}
		w.WriteString(t)
	case "if":
		for i, c := range s.Conds {
			v, err := env.Eval(c)
			if err != nil {
				return err
			}
			if truthy(v) {
				return m.exec(w, s.Bodies[i], env, fr)
			}
		}
		if s.HasElse {
			return m.exec(w, s.Else, env, fr)
		}
	case "for":
		v, err := env.Eval(s.E)
		if err != nil {
			return err
		}
		var items []interface{}
		var keys []interface{}
		switch x := v.(type) {
		case []interface{}:
			items = x
			for i := range x {
				keys = append(keys, int64(i))
			}
		case string:
			i := 0
			for _, r := range x {
				items = append(items, string(r))
				keys = append(keys, int64(i))
				i++
			}
			if s.Key != "" {
				return domain("key variable over a string")
			}
		case map[string]interface{}:
			if len(x) > 1 {
				return domain("iteration order of maps is not specified")
			}
			for k, val := range x {
				items = append(items, val)
				keys = append(keys, k)
			}
		case nil:
		default:
			return domain("for over %T", v)
		}
		if len(items) == 0 {
			if s.HasElse {
				return m.exec(w, s.Else, env, fr)
			}
			return nil
		}
		oldLoop, hadLoop := env.vars["loop"]
		for i, it := range items {
			env.vars[s.Name] = it
			if s.Key != "" {
				env.vars[s.Key] = keys[i]
			}
			env.vars["loop"] = loopMap(i, len(items))
			if err := m.exec(w, s.Body, env, fr); err != nil {
				return err
			}
		}
		// after a nested loop the outer `loop` is what it was (C09)
		if hadLoop {
			env.vars["loop"] = oldLoop
		} else {
			env.vars["loop"] = poison{}
		}
		// no rule for reading the loop variables after the loop: poison them
		env.vars[s.Name] = poison{}
		if s.Key != "" {
			env.vars[s.Key] = poison{}
		}
	case "set":
		v, err := env.Eval(s.E)
		if err != nil {
			return err
		}
		env.vars[s.Name] = v
	case "do":
		_, err := env.Eval(s.E)
		return err
	case "block":
		if fr == nil {
			return domain("block outside a template frame")
		}
		return m.renderBlockDef(w, s.Name, 0, env, fr)
	case "parent":
		cur := m.curBlock(env)
		if cur == nil {
			return domain("parent() outside a block")
		}
		return m.renderBlockDef(w, cur.name, cur.level+1, env, fr)
	case "include":
		return m.include(w, s, env)
	case "macro":
		env.macros[s.Name] = s
	case "import":
		lib, err := m.loadLib(s.E, env)
		if err != nil {
			return err
		}
		if env.mods == nil {
			env.mods = map[string]map[string]*S{}
		}
		env.mods[s.Name] = collectMacros(lib)
		env.vars[s.Name] = poison{}
	case "from":
		lib, err := m.loadLib(s.E, env)
		if err != nil {
			return err
		}
		ms := collectMacros(lib)
		for _, im := range s.Imports {
			mac, ok := ms[im.Name]
			if !ok {
				return &rmErr{"runtime", "macro not found in library"}
			}
			n := im.Name
			if im.Alias != "" {
				n = im.Alias
			}
			env.macros[n] = mac
		}
	case "apply":
		var sub strings.Builder
		if err := m.exec(&sub, s.Body, env, fr); err != nil {
			return err
		}
		args := append([]*E{Str(sub.String())}, s.Args...)
		v, err := env.evalFilter(&E{K: "filt", S: s.Filter, A: args})
		if err != nil {
			return err
		}
		t, err := toText(v)
		if err != nil {
			return err
		}
		w.WriteString(t)
	default:
		return domain("statement kind %s", s.K)
	}
	return nil
}

// poison marks a variable whose value no rule defines; any use leaves the modelled domain.
type poison struct{}

func (m *Model) loadLib(nameE *E, env *Env) (*Tmpl, error) {
	nv, err := env.Eval(nameE)
	if err != nil {
		return nil, err
	}
	name, ok := nv.(string)
	if !ok {
		return nil, domain("template name not a string")
	}
	t, ok := m.Set[name]
	if !ok {
		return nil, &rmErr{"notfound", name}
	}
	return t, nil
}

func (m *Model) include(w *strings.Builder, s *S, env *Env) error {
	nv, err := env.Eval(s.E)
	if err != nil {
		return err
	}
	name, ok := nv.(string)
	if !ok {
		return domain("include name not a string")
	}
	var with map[string]interface{}
	if s.With != nil {
		wv, err := env.Eval(s.With)
		if err != nil {
			return err
		}
		with, ok = wv.(map[string]interface{})
		if !ok {
			return domain("with is not a hash")
		}
	}
	t, ok := m.Set[name]
	if !ok {
		if s.IgnMiss {
			return nil
		}
		return &rmErr{"notfound", name}
	}
	vars := map[string]interface{}{}
	if !s.Only {
		for e := env; e != nil; e = e.parent {
			for k, v := range e.vars {
				if _, seen := vars[k]; !seen && k != curBlockKey {
					vars[k] = v
				}
			}
		}
	}
	for k, v := range with {
		vars[k] = v
	}
	sub := &Env{vars: vars, m: m}
	// macros defined or imported by the includer: the property does not say whether the
	// included template can call them, so generators never rely on it
	return m.renderTmpl(w, t, sub, nil)
}

// callMacro binds parameters and renders the macro body (C12).
func (m *Model) callMacro(w *strings.Builder, e *E, env *Env) error {
	var mac *S
	switch e.M {
	case "local", "from", "alias":
		n := e.S
		if e.M == "alias" {
			n = "al_" + e.S
		}
		mac = env.macros[n]
		if mac == nil && env.parent != nil {
			for p := env.parent; p != nil && mac == nil; p = p.parent {
				mac = p.macros[n]
			}
		}
	case "self":
		if env.tmpl != nil {
			mac = collectMacros(env.tmpl)[e.S]
		}
	case "import":
		if mod, ok := env.mods["lib"]; ok {
			mac = mod[e.S]
		}
	}
	if mac == nil {
		return &rmErr{"runtime", "macro " + e.S + " not found via " + e.M}
	}
	args, err := env.evalArgs(e.A)
	if err != nil {
		return err
	}
	return m.invokeMacro(w, mac, args, env)
}

func (m *Model) invokeMacro(w *strings.Builder, mac *S, args []interface{}, caller *Env) error {
	m.depth++
	defer func() { m.depth-- }()
	if m.depth > 40 {
		return domain("macro recursion")
	}
	vars := map[string]interface{}{}
	for i, p := range mac.Params {
		switch {
		case i < len(args):
			vars[p.Name] = args[i]
		case p.Def != nil:
			v, err := caller.Eval(p.Def)
			if err != nil {
				return err
			}
			vars[p.Name] = v
		default:
			vars[p.Name] = nil
		}
	}
	// outer variables stay readable behind the parameters; assignments stay local; the
	// macros defined next to this one are callable by bare name and through _self
	home := m.homeOf(mac, caller)
	sub := &Env{vars: vars, parent: caller, m: m, macros: collectMacros(home), tmpl: home}
	return m.exec(w, mac.Body, sub, nil)
}
