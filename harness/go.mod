module twigverif

go 1.24.1

require (
	github.com/semihalev/twig v0.0.0
	pgregory.net/rapid v1.3.0
)

replace github.com/semihalev/twig => /repo
