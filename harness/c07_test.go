package vh

// C07 — the escape filter neutralises every HTML-significant character.
//
// Oracle (independent of both engine routines): (1) the output contains no raw < > " '
// and every & starts one of the character references an HTML escaper may emit for the
// five characters; (2) decoding the output with the standard library's html.UnescapeString
// gives back the pre-image byte for byte; (3) `e` and `escape` produce identical bytes in
// the same position.

import (
	"errors"
	"fmt"
	"html"
	"reflect"
	"strings"
	"sync"
	"testing"
	"unicode/utf8"

	"github.com/semihalev/twig"
	"pgregory.net/rapid"
)

type C07Case struct {
	Val   BStr   `json:"val"`
	Shape string `json:"shape"` // how Val is presented to the engine
	Pos   int    `json:"pos"`   // syntactic position of the filter
}

var c07Shapes = []string{"string", "bytes", "stringer", "strslice", "strmap", "struct", "ptr", "named", "intstringer", "boolstringer", "floatstringer", "error", "ptrstring", "iface-slice", "float32", "float64", "namedbytes", "uint8", "int64", "bool"}

// numeric and boolean named types whose String method returns arbitrary text (an enum printing
// "<unknown>"): the text lives in a table indexed by the value
var c07TextTab = struct {
	sync.Mutex
	m map[int]string
	n int
}{m: map[int]string{}}

func c07Text(i int) string {
	c07TextTab.Lock()
	defer c07TextTab.Unlock()
	return c07TextTab.m[i]
}

func c07Reg(s string) int {
	c07TextTab.Lock()
	defer c07TextTab.Unlock()
	c07TextTab.n++
	if c07TextTab.n > 4096 {
		c07TextTab.m = map[int]string{}
		c07TextTab.n = 1
	}
	c07TextTab.m[c07TextTab.n] = s
	return c07TextTab.n
}

type c07IntStr int
type c07BoolStr bool
type c07FloatStr float64

func (v c07IntStr) String() string   { return c07Text(int(v)) }
func (v c07FloatStr) String() string { return c07Text(int(v)) }
func (v c07BoolStr) String() string  { return c07Text(-1) }

type c07Stringer struct{ s string }

func (s c07Stringer) String() string { return s.s }

type c07Named string
type c07Struct struct {
	A string
	B int
}

type c07Bytes []byte

func c07Value(c C07Case) interface{} {
	s := string(c.Val)
	switch c.Shape {
	case "bytes":
		return []byte(s)
	case "stringer":
		return c07Stringer{s}
	case "strslice":
		return []string{s, "x" + s}
	case "strmap":
		return map[string]string{"k": s}
	case "struct":
		return c07Struct{s, 7}
	case "ptr":
		return &c07Struct{s, 7}
	case "named":
		return c07Named(s)
	case "intstringer":
		return c07IntStr(c07Reg(s))
	case "floatstringer":
		return c07FloatStr(c07Reg(s))
	case "boolstringer":
		c07TextTab.Lock()
		c07TextTab.m[-1] = s
		c07TextTab.Unlock()
		return c07BoolStr(true)
	case "error":
		return errors.New(s)
	case "ptrstring":
		return &s
	case "iface-slice":
		return []interface{}{s, 1, c07Stringer{s}}
	// plain scalars of several widths (numbers derived from the text): what the filter makes of them
	// must decode to what the print tag prints
	case "float32":
		return float32(len(s)%97)/10 + 0.1
	case "float64":
		return float64(len(s)%89)/10 + 0.7
	case "uint8":
		return uint8(len(s))
	case "int64":
		return -int64(len(s)) * 1000003
	case "bool":
		return len(s)%2 == 0
	case "namedbytes":
		return c07Bytes(s)
	}
	return s
}

// positions: template set + name of the filter used is a parameter
const c07NPos = 20

func c07Templates(pos int, f string) map[string]string {
	switch pos {
	case 0:
		return map[string]string{"main": "{{ v|" + f + " }}"}
	case 1:
		return map[string]string{"main": "[{{ v|raw|" + f + " }}]"}
	case 2:
		return map[string]string{"main": "{{ v|default('')|" + f + " }}"}
	case 3:
		return map[string]string{"main": "{% apply " + f + " %}{{ v }}{% endapply %}"}
	case 4:
		return map[string]string{"main": "{% macro m(x) %}{{ x|" + f + " }}{% endmacro %}{{ m(v) }}"}
	case 5:
		return map[string]string{"main": "{% macro m() %}{{ v|" + f + " }}{% endmacro %}{{ m() }}"}
	case 6:
		return map[string]string{"main": "{% include 'inc' %}", "inc": "{{ v|" + f + " }}"}
	case 7:
		return map[string]string{"main": "{% include 'inc' with {'w': v} %}", "inc": "{{ w|" + f + " }}"}
	case 8:
		return map[string]string{"main": "{% for x in [v] %}{{ x|" + f + " }}{% endfor %}"}
	case 9:
		return map[string]string{"main": "{% set y = v|" + f + " %}{{ y }}"}
	case 10:
		return map[string]string{"main": "{% if true %}{{ (v)|" + f + " }}{% endif %}"}
	case 11:
		// the escaped value is kept while another value is escaped (must not be overwritten)
		return map[string]string{"main": "{% set a = v|" + f + " %}{% set b = 'other <text> & more'|" + f + " %}{{ a }}"}
	case 12:
		return map[string]string{"main": "{{ [v|" + f + ", '<&>'|" + f + "]|first }}"}
	case 13:
		return map[string]string{"main": "{% set a = v|" + f + " %}{% for q in ['<1>', '<22>'] %}{% set z = q|" + f + " %}{% endfor %}{{ a }}"}
	// 14..17: the filter applied to its own output (c07Twice): the second application sees the
	// already-escaped text as its input
	case 14:
		return map[string]string{"main": "{{ v|" + f + "|" + f + " }}"}
	case 15:
		return map[string]string{"main": "{{ v|" + f + "|" + map[string]string{"e": "escape", "escape": "e"}[f] + " }}"}
	case 16:
		return map[string]string{"main": "{% apply " + f + " %}{{ v|" + f + " }}{% endapply %}"}
	case 17:
		return map[string]string{"main": "{% set a = v|" + f + " %}{{ a|" + f + " }}"}
	// 18, 19: inside a sandboxed include under the library's default policy (which lists both names)
	case 18:
		return map[string]string{"main": "{% include 'inc' sandboxed %}", "inc": "{{ v|" + f + " }}"}
	case 19:
		return map[string]string{"main": "{% include 'inc' sandboxed %}", "inc": "{% apply " + f + " %}{{ v }}{% endapply %}"}
	}
	panic("pos")
}

func c07RefOK(out string) error {
	for i := 0; i < len(out); i++ {
		switch out[i] {
		case '<', '>', '"', '\'':
			return fmt.Errorf("raw %q at offset %d of output %s", out[i], i, q(out))
		case '&':
			ok := false
			for _, ref := range []string{"&amp;", "&lt;", "&gt;", "&quot;", "&#34;", "&#39;", "&#x27;", "&apos;"} {
				if strings.HasPrefix(out[i:], ref) {
					ok = true
					break
				}
			}
			if !ok {
				return fmt.Errorf("raw & at offset %d of output %s", i, q(out))
			}
		}
	}
	return nil
}

func c07CheckOut(pre, out string, what string) error {
	if err := c07RefOK(out); err != nil {
		return fmt.Errorf("%s: %v", what, err)
	}
	if dec := html.UnescapeString(out); dec != pre {
		return fmt.Errorf("%s: decoding the output does not give back the input: input %s output %s decoded %s", what, q(pre), q(out), q(dec))
	}
	return nil
}

func checkC07(c C07Case) error {
	v := c07Value(c)
	if c.Pos == 2 {
		// this position sends the value through default(''), which replaces empty values (false, 0,
		// empty collections): nothing is left to escape
		if rv := reflect.ValueOf(v); rv.IsZero() || ((rv.Kind() == reflect.Slice || rv.Kind() == reflect.Map) && rv.Len() == 0) {
			return nil
		}
	}
	ctx := map[string]interface{}{"v": v}
	// pre-image: the text the engine prints for the value without the filter
	pre := string(c.Val)
	if c.Shape != "string" && c.Shape != "bytes" && c.Shape != "stringer" && c.Shape != "named" && c.Shape != "ptrstring" {
		r := render1("{{ v }}", ctx)
		if r.Failed() {
			return fmt.Errorf("printing the value itself failed: %v", r)
		}
		pre = r.Out
	}
	if c.Pos >= 14 && c.Pos <= 17 {
		// escaped twice: the input of the second application is the engine's single escape
		r := render1("{{ v|e }}", ctx)
		if r.Failed() {
			return fmt.Errorf("single escape failed: %v", r)
		}
		if err := c07CheckOut(pre, r.Out, "single escape"); err != nil {
			return err
		}
		pre = r.Out
	}
	var outs [2]string
	for i, f := range []string{"e", "escape"} {
		t := c07Templates(c.Pos, f)
		eng := newEngine(t)
		if c.Pos >= 18 {
			eng.EnableSandbox(twig.NewDefaultSecurityPolicy())
		}
		r := render(eng, "main", ctx)
		if r.Failed() {
			return fmt.Errorf("pos %d filter %s: render failed: %v (templates %v)", c.Pos, f, r, t)
		}
		out := r.Out
		if c.Pos == 1 {
			if len(out) < 2 || out[0] != '[' || out[len(out)-1] != ']' {
				return fmt.Errorf("pos 1: literal brackets lost: %s", q(out))
			}
			out = out[1 : len(out)-1]
		}
		outs[i] = out
		if err := c07CheckOut(pre, out, fmt.Sprintf("pos %d filter %s (template %s)", c.Pos, f, q(t["main"]))); err != nil {
			return err
		}
	}
	if outs[0] != outs[1] {
		return fmt.Errorf("pos %d: e gives %s but escape gives %s", c.Pos, q(outs[0]), q(outs[1]))
	}
	return nil
}

// ---- the two routes that are not reachable from template source -----------------------

// c07Fallback applies the built-in routine used when no filter of that name is registered.
func c07Fallback(name string, v interface{}) Res {
	return guard(func() (string, error) {
		rc := twig.NewRenderContext(&twig.Environment{}, nil, nil)
		defer rc.Release()
		out, err := rc.ApplyFilter(name, v)
		if err != nil {
			return "", err
		}
		s, ok := out.(string)
		if !ok {
			return "", fmt.Errorf("fallback escape returned %T", out)
		}
		return s, nil
	})
}

type C07FallbackCase struct {
	Val BStr `json:"val"`
}

func checkC07Fallback(c C07FallbackCase) error {
	var outs [2]string
	for i, f := range []string{"e", "escape"} {
		r := c07Fallback(f, string(c.Val))
		if r.Failed() {
			return fmt.Errorf("fallback %s failed: %v", f, r)
		}
		outs[i] = r.Out
		if err := c07CheckOut(string(c.Val), r.Out, "built-in fallback "+f); err != nil {
			return err
		}
	}
	if outs[0] != outs[1] {
		return fmt.Errorf("fallback: e gives %s, escape gives %s", q(outs[0]), q(outs[1]))
	}
	return nil
}

// c07MacroText renders `pre{{ x|f }}post` as the text of a macro body built with the
// exported node constructors (the tokenizer never leaves `{{` inside a text node, so this
// interpolation path exists only for hand-built trees).
func c07MacroText(f string, v interface{}) Res {
	e := twig.New()
	macro := twig.NewMacroNode("m", []string{"x"}, nil, []twig.Node{twig.NewTextNode("<{{ x|"+f+" }}>", 1)}, 1)
	call := twig.NewPrintNode(twig.NewFunctionNode("m", []twig.Node{twig.NewVariableNode("v", 1)}, 1), 1)
	root := twig.NewRootNode([]twig.Node{macro, call}, 1)
	e.RegisterTemplate("t", e.NewTemplate("t", "", root))
	return render(e, "t", map[string]interface{}{"v": v})
}

func checkC07MacroText(c C07FallbackCase) error {
	var outs [2]string
	for i, f := range []string{"e", "escape"} {
		r := c07MacroText(f, string(c.Val))
		if r.Failed() {
			return fmt.Errorf("macro text %s failed: %v", f, r)
		}
		if len(r.Out) < 2 || r.Out[0] != '<' || r.Out[len(r.Out)-1] != '>' {
			return fmt.Errorf("macro text: literal text around the interpolation lost: %s", q(r.Out))
		}
		out := r.Out[1 : len(r.Out)-1]
		outs[i] = out
		// only the safety half is demanded on this path (DESIGN C07 O)
		if err := c07RefOK(out); err != nil {
			return fmt.Errorf("macro text interpolation with %s on %s: %v", f, q(string(c.Val)), err)
		}
	}
	if outs[0] != outs[1] {
		return fmt.Errorf("macro text: e gives %s, escape gives %s", q(outs[0]), q(outs[1]))
	}
	return nil
}

// ---- generators -----------------------------------------------------------------------

var c07Pieces = []string{"<", ">", "&", "\"", "'", "&amp;", "&lt;", "&#39;", "&quot;", "&lt;script&gt;", "&", "&&", "<script>alert('x')</script>",
	"a", "Z", " ", "\n", "\t", "\x00", "é", "日本", "​", "\U0001F600", "\xff", "\xc3", "\xe2\x82", "\xed\xa0\x80", "&#", "&x;", ";", "#"}

func genC07String(t *rapid.T) string {
	switch rapid.IntRange(0, 9).Draw(t, "strmode") {
	case 0:
		return rapid.String().Draw(t, "s")
	case 1:
		return string(rapid.SliceOfN(rapid.Byte(), 0, 24).Draw(t, "bytes"))
	case 2:
		return ""
	default:
		n := rapid.IntRange(1, 10).Draw(t, "npieces")
		var b strings.Builder
		for i := 0; i < n; i++ {
			b.WriteString(rapid.SampledFrom(c07Pieces).Draw(t, "piece"))
		}
		return b.String()
	}
}

func c07NonTrivial(s string) bool {
	return strings.ContainsAny(s, "<>&\"'") || !isASCII(s)
}

func isASCII(s string) bool {
	for i := 0; i < len(s); i++ {
		if s[i] >= 0x80 {
			return false
		}
	}
	return true
}

const c07Rule = "random strings (all of Unicode, raw bytes incl. invalid UTF-8, pieces of HTML and of already-escaped text) as 20 Go value shapes (string, []byte and a named byte-slice type, Stringer struct, named int / float / bool types with a String method, plain float32 / float64 / uint8 / int64 / bool, error, pointer to string, slices, maps, structs) in 20 filter positions (4 of them apply the filter to its own output, 2 lie in a sandboxed include under NewDefaultSecurityPolicy); non-trivial = the text contains one of < > & \" ' or a byte >= 0x80; distinct by (value, shape, position)"

func TestC07Escape(t *testing.T) {
	r := NewRec(t, "C07", c07Rule)
	defer r.Flush()
	rapid.Check(t, func(rt *rapid.T) {
		c := C07Case{Val: BStr(genC07String(rt)), Shape: rapid.SampledFrom(c07Shapes).Draw(rt, "shape"), Pos: rapid.IntRange(0, c07NPos-1).Draw(rt, "pos")}
		r.Case(fmt.Sprintf("%q/%s/%d", c.Val, c.Shape, c.Pos), c07NonTrivial(string(c.Val)), c, "shape:"+c.Shape, fmt.Sprintf("pos:%d", c.Pos), utf8class(string(c.Val)))
		if err := checkC07(c); err != nil {
			r.Fail(rt, "C07.escape", c, err)
		}
	})
}

func utf8class(s string) string {
	if !utf8.ValidString(s) {
		return "invalid-utf8"
	}
	if !isASCII(s) {
		return "multibyte"
	}
	return "ascii"
}

func TestC07Routes(t *testing.T) {
	r := NewRec(t, "C07", "the same strings through the two routes that source text cannot reach: the built-in fallback escape (ApplyFilter on an environment without filters) and macro-text interpolation of a hand-built node tree; non-trivial as above")
	defer r.Flush()
	rapid.Check(t, func(rt *rapid.T) {
		c := C07FallbackCase{Val: BStr(genC07String(rt))}
		r.Case(fmt.Sprintf("%q", c.Val), c07NonTrivial(string(c.Val)), c, utf8class(string(c.Val)))
		if err := checkC07Fallback(c); err != nil {
			r.Fail(rt, "C07.fallback", c, err)
		}
		if err := checkC07MacroText(c); err != nil {
			r.Fail(rt, "C07.macrotext", c, err)
		}
	})
}

// TestC07Codepoints: every Unicode code point once as a one-rune string, every single
// byte, and every pair drawn from 16 hostile bytes, through the registered filter (print
// position) and the fallback.
func TestC07Codepoints(t *testing.T) {
	r := NewRec(t, "C07", "exhaustive: every code point U+0000..U+10FFFF (surrogates excluded) as a 1-rune string, all 256 single bytes and all 16x16 pairs of hostile bytes, through {{ v|e }} and through the built-in fallback")
	defer r.Flush()
	r.SetExhaustive()
	e := twig.New()
	if err := e.RegisterString("t", "{{ v|e }}"); err != nil {
		t.Fatal(err)
	}
	tmpl, err := e.Load("t")
	if err != nil {
		t.Fatal(err)
	}
	one := func(s string) {
		nt := c07NonTrivial(s)
		r.Case(s, nt, q(s))
		res := guard(func() (string, error) { return tmpl.Render(map[string]interface{}{"v": s}) })
		if res.Failed() {
			r.FailEnum(t, "C07.escape", C07Case{Val: BStr(s), Shape: "string", Pos: 0}, fmt.Errorf("render failed: %v", res))
			return
		}
		if err := c07CheckOut(s, res.Out, "{{ v|e }}"); err != nil {
			r.FailEnum(t, "C07.escape", C07Case{Val: BStr(s), Shape: "string", Pos: 0}, err)
		}
		if err := checkC07Fallback(C07FallbackCase{BStr(s)}); err != nil {
			r.FailEnum(t, "C07.fallback", C07FallbackCase{BStr(s)}, err)
		}
	}
	for cp := rune(0); cp <= 0x10FFFF; cp++ {
		if cp >= 0xD800 && cp <= 0xDFFF {
			continue
		}
		one(string(cp))
	}
	for b := 0; b < 256; b++ {
		one(string([]byte{byte(b)}))
	}
	hostile := []byte{'<', '>', '&', '"', '\'', ';', '#', 'a', 0, 0x7f, 0x80, 0xbf, 0xc3, 0xe2, 0xf0, 0xff}
	for _, a := range hostile {
		for _, b := range hostile {
			one(string([]byte{a, b}))
		}
	}
}

func init() {
	reg("C07.escape", checkC07)
	reg("C07.fallback", checkC07Fallback)
	reg("C07.macrotext", checkC07MacroText)
}

// ---- several goroutines escaping on one engine ---------------------------------------------------

type C07ConcCase struct {
	Vals []BStr `json:"vals"`
	Reps int    `json:"reps"`
}

func checkC07Conc(c C07ConcCase) error {
	src := map[string]string{"main": "{{ v|e }}|{{ v|escape }}|{% apply e %}{{ v }}{% endapply %}"}
	want := make([]string, len(c.Vals))
	for i, v := range c.Vals {
		r := render(newEngine(src), "main", map[string]interface{}{"v": string(v)})
		if r.Failed() {
			return fmt.Errorf("serial render failed: %v", r)
		}
		want[i] = r.Out
	}
	e := newEngine(src)
	var wg sync.WaitGroup
	errs := make(chan error, len(c.Vals))
	start := make(chan struct{})
	for i := range c.Vals {
		wg.Add(1)
		go func(i int) {
			defer wg.Done()
			<-start
			for k := 0; k < c.Reps; k++ {
				r := render(e, "main", map[string]interface{}{"v": string(c.Vals[i])})
				if r.Failed() || r.Out != want[i] {
					errs <- fmt.Errorf("goroutine %d, render %d of value %s: %v under concurrency, %s when run alone", i, k+1, q(string(c.Vals[i])), r, q(want[i]))
					return
				}
			}
		}(i)
	}
	close(start)
	wg.Wait()
	close(errs)
	for err := range errs {
		return err
	}
	return nil
}

func TestC07Concurrent(t *testing.T) {
	r := NewRec(t, "C07", "2-8 goroutines escape different strings (all containing special characters) through e, escape and an apply block on one shared engine, 30 (thorough 200) renders each, built with -race; oracle: every output equals the one obtained alone on a fresh engine; non-trivial = always (every value has a special character)")
	defer r.Flush()
	rapid.Check(t, func(rt *rapid.T) {
		n := rapid.IntRange(2, 8).Draw(rt, "goroutines")
		c := C07ConcCase{Reps: scale(30, 200)}
		for i := 0; i < n; i++ {
			c.Vals = append(c.Vals, BStr(genC07String(rt)+rapid.SampledFrom([]string{"<", "&", "\"'", "<&>"}).Draw(rt, "special")+strings.Repeat("<x>", rapid.IntRange(0, 40).Draw(rt, "long"))))
		}
		r.Case(fmt.Sprint(c.Vals), true, c, fmt.Sprintf("goroutines:%d", n))
		if err := checkC07Conc(c); err != nil {
			r.Fail(rt, "C07.concurrent", c, err)
		}
	})
}

func init() { reg("C07.concurrent", checkC07Conc) }

// ---- numbers of every width under escape ---------------------------------------------------------------------------

type C07NumCase struct {
	Kind string `json:"kind"`
	Num  string `json:"num"`
}

// checkC07Num: a number holds no HTML-significant character, so escaping it changes nothing: the
// filter, its alias and the apply form print what the print tag prints.
func checkC07Num(c C07NumCase) error {
	v, ok := c19WidthValue(c.Kind, c.Num)
	if !ok {
		return nil
	}
	r := render1("{{ x }}\x1f{{ x|e }}\x1f{{ x|escape }}\x1f{% apply e %}{{ x }}{% endapply %}\x1f{{ [x]|join|e }}", map[string]interface{}{"x": v})
	if r.Failed() {
		return fmt.Errorf("x = %s(%s): render failed: %v", c.Kind, c.Num, r)
	}
	parts := strings.Split(r.Out, "\x1f")
	for i, p := range parts[1:] {
		if p != parts[0] {
			return fmt.Errorf("x = %s(%s): {{ x }} prints %s, but %s prints %s", c.Kind, c.Num, q(parts[0]), []string{"{{ x|e }}", "{{ x|escape }}", "{% apply e %}{{ x }}{% endapply %}", "{{ [x]|join|e }}"}[i], q(p))
		}
	}
	return nil
}

func TestC07Numbers(t *testing.T) {
	r := NewRec(t, "C07", "exhaustive: 13 Go number types x 9 numerals (0, small, 1e20, 1e-7, -3e25, large integers) under e, escape, apply e and after join; oracle: the text the print tag prints (a number has nothing to escape); non-trivial = the type is not int or float64")
	defer r.Flush()
	r.SetExhaustive()
	for _, kind := range []string{"int", "int8", "int16", "int32", "int64", "uint", "uint8", "uint16", "uint32", "uint64", "named", "float32", "float64"} {
		for _, n := range []string{"0", "7", "-5", "100000000000000000000", "0.0000001", "-30000000000000000000000000", "1.5", "4294967295", "18446744073709551615"} {
			c := C07NumCase{Kind: kind, Num: n}
			if _, ok := c19WidthValue(kind, n); !ok {
				continue
			}
			r.Case(kind+n, kind != "int" && kind != "float64", c)
			if err := checkC07Num(c); err != nil {
				r.FailEnumKey(t, "C07.num", kind, c, err)
			}
		}
	}
}

func init() { reg("C07.num", checkC07Num) }
