package vh

import (
	"os"
	"testing"
)

func TestMain(m *testing.M) {
	if os.Getenv("VERIF_ONESHOT") != "" {
		oneShotMain()
	}
	os.Setenv("TZ", "UTC")
	os.Exit(m.Run())
}
