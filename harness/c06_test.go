package vh

// C06 — a sandboxed include can never run a filter or function the policy forbids.
//
// Three runs per case on fresh engines: (U) the same templates without `sandboxed`: the
// forbidden spy runs at least once (the occurrence is live); (S) sandboxed: the spy runs 0
// times, Render fails with an error matching *SecurityViolation and returns no output;
// (A) sandboxed with that spy allowed by the policy: no error, output equals (U). A fourth
// run (O) checks that the including template keeps its permissions after the include.

import (
	"errors"
	"fmt"
	"strings"
	"testing"

	"github.com/semihalev/twig"
	"pgregory.net/rapid"
)

type C06Case struct {
	Carriers []int `json:"carriers"`        // from the sandboxed include downwards
	Pos      int   `json:"pos"`             // occurrence position
	Fn       bool  `json:"fn"`              // forbidden function instead of filter
	MainWrap int   `json:"mainwrap"`        // how the unsandboxed template holds the include
	IncOpts  int   `json:"incopts"`         // options on the sandboxed include itself: bit0 with, bit1 only
	Order    int   `json:"order,omitempty"` // 0: with, only, sandboxed; 1-6: `ignore missing` added and the options written in another order
	Custom   bool  `json:"custom"`          // harness policy type instead of DefaultSecurityPolicy
	Embed    bool  `json:"embed,omitempty"` // a policy type that embeds a DefaultSecurityPolicy (whose tables say the opposite about the spy) and overrides its methods
	Deny     bool  `json:"deny,omitempty"`  // the refused names are listed in the policy with the value false instead of being absent
	// second arm (checkC06Named): an explicit occurrence and the names the policy refuses,
	// "f:<name>" for a function, "|<name>" for a filter; built-in names included
	Occ    string   `json:"occ,omitempty"`
	Refuse []string `json:"refuse,omitempty"`
	// Probe: the same occurrence with a spy call in place of the refused name's expression; it
	// tells whether that exact place is evaluated in the arrangement (variables may be absent
	// where the occurrence ends up, e.g. at the top level of an imported library)
	Probe string `json:"probe,omitempty"`
}

// occurrence templates: F is replaced by the filter application "|forbid", G(x) by
// "forbid_fn(x)". Each uses the variables x (string), y2 (int), xs (list), t (true).
var c06FilterPos = []struct{ name, src string }{
	{"print-head", "{{ x|forbid }}"},
	{"chain-first", "{{ x|forbid|upper }}"},
	{"chain-middle", "{{ x|lower|forbid|upper }}"},
	{"chain-last", "{{ x|upper|forbid }}"},
	{"filter-arg", "{{ nul|default(x|forbid) }}"},
	{"function-arg", "{{ max(1, y2|forbid) }}"},
	{"for-seq-bare", "{% for i in xs|forbid %}{{ i }}{% endfor %}"},
	{"for-seq-chain-first", "{% for i in xs|forbid|sort %}{{ i }}{% endfor %}"},
	{"for-seq-chain-last", "{% for i in xs|sort|forbid %}{{ i }}{% endfor %}"},
	{"if-cond", "{% if x|forbid %}a{% endif %}"},
	{"elseif-cond", "{% if false %}n{% elseif x|forbid %}a{% endif %}"},
	{"set-value", "{% set v = x|forbid %}{{ v }}"},
	{"ternary-branch", "{{ t ? x|forbid : 'n' }}"},
	{"ternary-cond", "{{ x|forbid ? 'y' : 'n' }}"},
	{"list-element", "{{ [x|forbid]|join }}"},
	{"hash-value", "{{ {'k': x|forbid}['k'] }}"},
	{"include-with-value", "{% include 'leaf' with {'v': x|forbid} %}"},
	{"include-name", "{% include ('le' ~ 'af')|forbid %}"},
	{"apply-name", "{% apply forbid %}x{% endapply %}"},
	{"apply-body", "{% apply upper %}{{ x|forbid }}{% endapply %}"},
	{"macro-default", "{% macro mm(p = x|forbid) %}{{ p }}{% endmacro %}{{ mm() }}"},
	{"macro-arg", "{% macro mm(p) %}{{ p }}{% endmacro %}{{ mm(x|forbid) }}"},
	{"binary-operand", "{{ 'a' ~ x|forbid }}"},
	{"index-expr", "{{ xs[y2|forbid] }}"},
	{"do-tag", "{% do x|forbid %}"},
	{"spaceless-body", "{% spaceless %}<b> {{ x|forbid }} </b>{% endspaceless %}"},
	// under a lenient construct: the refusal must not be taken for an absent value
	{"default-subject", "{{ (x|forbid)|default('d') }}"},
	{"default-subject-in-list", "{{ [x|forbid]|default('d')|join }}"},
	{"default-subject-concat", "{{ ('a' ~ x|forbid)|default('d') }}"},
	{"is-defined-subject", "{{ (x|forbid) is defined ? 'y' : 'n' }}"},
}

var c06FuncPos = []struct{ name, src string }{
	{"print-head", "{{ forbid_fn(x) }}"},
	{"filter-subject", "{{ forbid_fn(x)|upper }}"},
	{"filter-arg", "{{ nul|default(forbid_fn(x)) }}"},
	{"function-arg", "{{ max(1, forbid_fn(y2)) }}"},
	{"for-seq", "{% for i in forbid_fn(xs) %}{{ i }}{% endfor %}"},
	{"for-seq-filtered", "{% for i in forbid_fn(xs)|sort %}{{ i }}{% endfor %}"},
	{"if-cond", "{% if forbid_fn(x) %}a{% endif %}"},
	{"elseif-cond", "{% if false %}n{% elseif forbid_fn(x) %}a{% endif %}"},
	{"set-value", "{% set v = forbid_fn(x) %}{{ v }}"},
	{"ternary-branch", "{{ t ? forbid_fn(x) : 'n' }}"},
	{"list-element", "{{ [forbid_fn(x)]|join }}"},
	{"hash-value", "{{ {'k': forbid_fn(x)}['k'] }}"},
	{"include-with-value", "{% include 'leaf' with {'v': forbid_fn(x)} %}"},
	{"include-name", "{% include forbid_fn('leaf') %}"},
	{"apply-body", "{% apply upper %}{{ forbid_fn(x) }}{% endapply %}"},
	{"macro-default", "{% macro mm(p = forbid_fn(x)) %}{{ p }}{% endmacro %}{{ mm() }}"},
	{"macro-arg", "{% macro mm(p) %}{{ p }}{% endmacro %}{{ mm(forbid_fn(x)) }}"},
	{"binary-operand", "{{ 'a' ~ forbid_fn(x) }}"},
	{"index-expr", "{{ xs[forbid_fn(y2)] }}"},
	{"do-tag", "{% do forbid_fn(x) %}"},
	{"test-operand", "{{ forbid_fn(y2) is even ? 'e' : 'o' }}"},
	{"method-style-print", "{{ mp.forbid_fn(x) }}"},
	{"method-style-cond", "{% if mp.forbid_fn(x) %}a{% endif %}"},
	{"method-style-on-string", "{{ x.forbid_fn(y2) }}"},
	{"method-style-arg", "{{ max(1, mp.forbid_fn(y2)) }}"},
	// under a lenient construct: the refusal must not be taken for an absent value
	{"default-subject", "{{ forbid_fn(x)|default('d') }}"},
	{"default-subject-indexed", "{{ forbid_fn(xs)[0]|default('d') }}"},
	{"default-subject-index", "{{ xs[forbid_fn(y2)]|default('d') }}"},
	{"is-defined-subject", "{{ forbid_fn(x) is defined ? 'y' : 'n' }}"},
	{"method-style-default", "{{ mp.forbid_fn(x)|default('d') }}"},
}

var c06CarrierNames = []string{"include", "include-only", "include-with", "extends+override", "extends(parent-body)", "parent()", "import-as+call", "from-import+call",
	"local-macro", "apply", "for", "if", "block", "set-then-print", "import-as(library-top-level)", "from-import(library-top-level)"}

const c06Vars = "{'x': x, 'y2': y2, 'xs': xs, 't': t, 'nul': nul, 'mp': mp}"

// c06Carry wraps body b in carrier kind k at depth d; extra templates are added to tm.
func c06Carry(k, d int, b string, tm map[string]string) string {
	n := fmt.Sprintf("n%d", d)
	switch k {
	case 0:
		tm[n] = b
		return "{% include '" + n + "' %}"
	case 1:
		tm[n] = b
		return "{% include '" + n + "' with " + c06Vars + " only %}"
	case 2:
		tm[n] = b
		return "{% include '" + n + "' with {'extra': 1} %}"
	case 3:
		tm[n] = "[{% block b" + n + " %}base{% endblock %}]"
		return "{% extends '" + n + "' %}{% block b" + n + " %}" + b + "{% endblock %}"
	case 4:
		tm[n] = "[{% block b" + n + " %}" + b + "{% endblock %}]"
		return "{% extends '" + n + "' %}"
	case 5:
		tm[n] = "[{% block b" + n + " %}" + b + "{% endblock %}]"
		return "{% extends '" + n + "' %}{% block b" + n + " %}<{{ parent() }}>{% endblock %}"
	case 6:
		tm[n] = "{% macro cm" + n + "(x, y2, xs, t, nul, mp) %}" + b + "{% endmacro %}"
		return "{% import '" + n + "' as lib" + n + " %}{{ lib" + n + ".cm" + n + "(x, y2, xs, t, nul, mp) }}"
	case 7:
		tm[n] = "{% macro cm" + n + "(x, y2, xs, t, nul, mp) %}" + b + "{% endmacro %}"
		return "{% from '" + n + "' import cm" + n + " %}{{ cm" + n + "(x, y2, xs, t, nul, mp) }}"
	case 8:
		return "{% macro cm" + n + "(x, y2, xs, t, nul, mp) %}" + b + "{% endmacro %}{{ cm" + n + "(x, y2, xs, t, nul, mp) }}"
	case 9:
		return "{% apply lower %}" + b + "{% endapply %}"
	case 10:
		return "{% for q" + n + " in [1] %}" + b + "{% endfor %}"
	case 11:
		return "{% if t %}" + b + "{% endif %}"
	case 12:
		return "{% block z" + n + " %}" + b + "{% endblock %}"
	case 14:
		// the occurrence stands at the top level of an imported library, outside its macros: it
		// runs when the library is imported
		tm[n] = b + "{% macro cm" + n + "() %}m{% endmacro %}"
		return "{% import '" + n + "' as lib" + n + " %}{{ lib" + n + ".cm" + n + "() }}"
	case 15:
		tm[n] = "{% macro cm" + n + "() %}m{% endmacro %}" + b
		return "{% from '" + n + "' import cm" + n + " %}{{ cm" + n + "() }}"
	default:
		return "{% set s" + n + " = 1 %}" + b
	}
}

// extends must be the first thing in a template: carriers 3,4,5 can only stand where the
// body becomes a whole template (directly under an include, or as the sandboxed template).
func c06Build(c C06Case, sandboxed bool) (map[string]string, string) {
	tm := map[string]string{"leaf": "(leaf {{ v }})"}
	var occ string
	if c.Occ != "" {
		occ = c.Occ
	} else if c.Fn {
		occ = c06FuncPos[c.Pos%len(c06FuncPos)].src
	} else {
		occ = c06FilterPos[c.Pos%len(c06FilterPos)].src
	}
	body := occ
	for i := len(c.Carriers) - 1; i >= 0; i-- {
		body = c06Carry(c.Carriers[i], i, body, tm)
	}
	tm["inner"] = body
	inc := "{% include 'inner'"
	var w, o, sb string
	if c.IncOpts&3 != 0 {
		w = " with " + c06Vars
	}
	if c.IncOpts&2 != 0 {
		o = " only"
	}
	if sandboxed {
		sb = " sandboxed"
	}
	const im = " ignore missing"
	switch c.Order % 7 {
	case 0:
		inc += w + o + sb
	case 1:
		inc += im + w + o + sb
	case 2:
		inc += w + o + sb + im
	case 3:
		inc += sb + im + w + o
	case 4:
		inc += sb + w + o + im
	case 5:
		inc += w + im + o + sb
	case 6:
		inc += im + sb + w + o
	}
	inc += " %}"
	var main string
	switch c.MainWrap {
	case 1:
		main = "A{% for w in [1] %}" + inc + "{% endfor %}B"
	case 2:
		main = "A{% if t %}" + inc + "{% endif %}B"
	case 3:
		main = "A{% block outer %}" + inc + "{% endblock %}B"
	case 4:
		main = "{% macro wrap(x, y2, xs, t, nul, mp) %}" + inc + "{% endmacro %}A{{ wrap(x, y2, xs, t, nul, mp) }}B"
	default:
		main = "A" + inc + "B"
	}
	tm["main"] = main
	return tm, occ
}

// validCarriers: an extends carrier needs its body to be a complete template, i.e. it must
// be the first carrier or follow an include-type carrier.
func c06ValidChain(cs []int) bool {
	for i, k := range cs {
		if k >= 3 && k <= 5 {
			if i > 0 && cs[i-1] > 2 && cs[i-1] < 14 {
				return false
			}
		}
	}
	return true
}

type customPolicy struct{ filters, functions map[string]bool }

func (p customPolicy) IsFunctionAllowed(n string) bool { return p.functions[n] }
func (p customPolicy) IsFilterAllowed(n string) bool   { return p.filters[n] }
func (p customPolicy) IsTagAllowed(string) bool        { return true }

func c06Policy(c C06Case, allowSpy bool) twig.SecurityPolicy {
	p := twig.NewDefaultSecurityPolicy()
	for _, f := range []string{"parent", "max", "wrap", "mm"} {
		p.AllowedFunctions[f] = true
	}
	for i := 0; i < 4; i++ {
		p.AllowedFunctions[fmt.Sprintf("cmn%d", i)] = true
	}
	p.AllowedFilters["spaceless"] = true
	if allowSpy {
		p.AllowedFilters["forbid"] = true
		p.AllowedFunctions["forbid_fn"] = true
	} else if c.Deny {
		p.AllowedFilters["forbid"] = false
		p.AllowedFunctions["forbid_fn"] = false
	}
	if c.Embed {
		inner := twig.NewDefaultSecurityPolicy()
		for k, v := range p.AllowedFilters {
			inner.AllowedFilters[k] = v
		}
		for k, v := range p.AllowedFunctions {
			inner.AllowedFunctions[k] = v
		}
		inner.AllowedFilters["forbid"], inner.AllowedFunctions["forbid_fn"] = !allowSpy, !allowSpy
		return embedPolicy{inner, p.AllowedFilters, p.AllowedFunctions}
	}
	if c.Custom {
		return customPolicy{p.AllowedFilters, p.AllowedFunctions}
	}
	return p
}

// embedPolicy embeds the default policy and answers the two questions itself; the embedded tables
// say the opposite about the spy.
type embedPolicy struct {
	*twig.DefaultSecurityPolicy
	filters, functions map[string]bool
}

func (p embedPolicy) IsFunctionAllowed(n string) bool { return p.functions[n] }
func (p embedPolicy) IsFilterAllowed(n string) bool   { return p.filters[n] }

var c06Ctx = map[string]interface{}{"x": "Val", "y2": 1, "xs": []interface{}{3, 1, 2}, "t": true, "nul": nil, "mp": map[string]interface{}{"k": 1}}

func c06Run(tm map[string]string, pol twig.SecurityPolicy) (Res, *Spies) {
	e := newEngine(tm)
	sp := NewSpies()
	sp.Install(e)
	e.EnableSandbox(pol)
	ctx := map[string]interface{}{}
	for k, v := range c06Ctx {
		ctx[k] = v
	}
	return render(e, "main", ctx), sp
}

func spyHits(sp *Spies) int { return sp.Calls["|forbid"] + sp.Calls["forbid_fn"] }

// checkC06 returns (live, error).
func checkC06Live(c C06Case) (bool, error) {
	tmU, _ := c06Build(c, false)
	tmS, _ := c06Build(c, true)
	ru, spU := c06Run(tmU, c06Policy(c, false))
	if ru.Failed() || spyHits(spU) == 0 {
		return false, nil // the occurrence is not live in this arrangement: nothing to confine
	}
	rs, spS := c06Run(tmS, c06Policy(c, false))
	if rs.Panic != "" {
		return true, fmt.Errorf("sandboxed render panicked: %s; templates:%s", rs.Panic, showSources(tmS))
	}
	if n := spyHits(spS); n != 0 {
		return true, fmt.Errorf("the forbidden %s ran %d time(s) inside the sandboxed include (calls %v; render result %v); templates:%s", map[bool]string{false: "filter", true: "function"}[c.Fn], n, spS.Log, rs, showSources(tmS))
	}
	if rs.Err == "" {
		return true, fmt.Errorf("the forbidden name was not invoked but the render did not fail either: output %s; templates:%s", q(rs.Out), showSources(tmS))
	}
	var sv *twig.SecurityViolation
	if !errors.As(rs.Error(), &sv) {
		return true, fmt.Errorf("the render failed but not with a security violation: %s; templates:%s", firstLine(rs.Err), showSources(tmS))
	}
	if rs.Out != "" {
		return true, fmt.Errorf("output %s returned together with the security violation", q(rs.Out))
	}
	ra, spA := c06Run(tmS, c06Policy(c, true))
	if ra.Failed() {
		return true, fmt.Errorf("with the name allowed by the policy the sandboxed render fails: %v; templates:%s", ra, showSources(tmS))
	}
	if ra.Out != ru.Out || spyHits(spA) != spyHits(spU) {
		return true, fmt.Errorf("with the name allowed the sandboxed render gives %s (%d spy calls), unsandboxed %s (%d); templates:%s", q(ra.Out), spyHits(spA), q(ru.Out), spyHits(spU), showSources(tmS))
	}
	return true, nil
}

func checkC06(c C06Case) error {
	_, err := checkC06Live(c)
	return err
}

// checkC06Outside: after a sandboxed include of a harmless template the including template
// (and the next render on the same engine) may still use the forbidden name.
func checkC06Outside(c C06Case) error {
	tm, occ := c06Build(c, true)
	tm["inner"] = "(harmless {{ x|upper }})"
	tm["main"] = tm["main"] + strings.ReplaceAll(occ, "'leaf'", "'leaf'")
	e := newEngine(tm)
	sp := NewSpies()
	sp.Install(e)
	e.EnableSandbox(c06Policy(c, false))
	for round := 1; round <= 2; round++ {
		ctx := map[string]interface{}{}
		for k, v := range c06Ctx {
			ctx[k] = v
		}
		before := spyHits(sp)
		r := render(e, "main", ctx)
		if r.Failed() {
			return fmt.Errorf("render %d: the including template lost its permissions after a sandboxed include: %v; templates:%s", round, r, showSources(tm))
		}
		if spyHits(sp) == before {
			return fmt.Errorf("render %d: the occurrence outside the sandbox did not run; templates:%s", round, showSources(tm))
		}
	}
	return nil
}

// ---- second arm: built-in names and names shared by a filter and a function ---------------------

// value-producing uses of built-in functions and filters (iter: the value can be looped over)
var c06Builtins = []struct {
	refuse, expr string
	iter         bool
}{
	{"f:range", "range(1, 3)", true}, {"f:max", "max(1, y2)", false}, {"f:min", "min(3, y2)", false}, {"f:cycle", "cycle(xs, 1)", false}, {"f:merge", "merge(xs, [7])", true},
	{"f:length", "length(xs)", false}, {"f:json_encode", "json_encode(xs)", false},
	{"|upper", "x|upper", false}, {"|lower", "x|lower", false}, {"|join", "xs|join('-')", false}, {"|sort", "xs|sort", true}, {"|reverse", "xs|reverse", true}, {"|merge", "xs|merge([8])", true},
	{"|keys", "mp|keys", true}, {"|length", "xs|length", false}, {"|first", "xs|first", false}, {"|last", "xs|last", false}, {"|default", "nul|default('d')", false}, {"|escape", "x|escape", false}, {"|e", "x|e", false},
	{"|slice", "xs|slice(1)", true}, {"|split", "x|split('a')", true}, {"|batch", "xs|batch(2)", true}, {"|abs", "y2|abs", false}, {"|trim", "x|trim", false}, {"|replace", "x|replace({'a': 'b'})", false}, {"|capitalize", "x|capitalize", false},
}

// positions for a value expression V (iterV: only for iterable values)
var c06ExprPos = []struct {
	name, src string
	iterOnly  bool
}{
	{"print", "{{ V }}", false}, {"print-joined", "{{ [V]|length }}", false}, {"if-cond", "{% if V %}a{% endif %}", false}, {"set-value", "{% set v = V %}{{ v is defined ? 'd' : 'u' }}", false},
	{"for-seq", "{% for i in V %}{{ i is iterable ? 'it' : i }}{% endfor %}", true}, {"for-seq-key", "{% for k, i in V %}{{ k }}{% endfor %}", true}, {"for-seq-else", "{% for i in V %}a{% else %}e{% endfor %}", true},
	{"ternary-branch", "{{ t ? V : 'n' }}", false}, {"filter-arg", "{{ nul|default(V) is defined ? 'd' : 'u' }}", false}, {"include-with-value", "{% include 'leaf' with {'v': 1, 'w': V} %}", false},
	{"macro-arg", "{% macro mm(p) %}{{ p is defined ? 'd' : 'u' }}{% endmacro %}{{ mm(V) }}", false}, {"list-in", "{{ 1 in [V] ? 'y' : 'n' }}", false}, {"do-tag", "{% do V %}", false},
	{"for-in-for", "{% for a in [1, 2] %}{% for i in V %}.{% endfor %}{% endfor %}", true}, {"apply-body", "{% apply upper %}{{ V is defined ? 'd' : 'u' }}{% endapply %}", false},
}

// a name that is a function and a filter at once, used in both orders
var c06DualOccs = []string{
	"{{ dual(x) }}{{ x|dual }}", "{{ x|dual }}{{ dual(x) }}", "{{ dual(x)|dual }}", "{{ dual(x|dual) }}", "{% if dual(t) %}{{ x|dual }}{% endif %}", "{% for i in dual(xs) %}{{ i|dual }}{% endfor %}",
	"{{ merge(xs, [1])|join }}{{ xs|merge([2])|join }}", "{{ xs|merge([2])|join }}{{ merge(xs, [1])|join }}", "{{ merge(xs|merge([3]), [1])|join }}", "{% for i in merge(xs, [1]) %}{{ [i]|merge([0])|join }}{% endfor %}",
}

func c06NamedPolicy(c C06Case, allowAllNames bool) twig.SecurityPolicy {
	p := twig.NewDefaultSecurityPolicy()
	for _, f := range []string{"parent", "max", "min", "wrap", "mm", "dual", "merge", "range", "cycle", "length", "json_encode"} {
		p.AllowedFunctions[f] = true
	}
	for i := 0; i < 4; i++ {
		p.AllowedFunctions[fmt.Sprintf("cmn%d", i)] = true
	}
	for _, f := range []string{"spaceless", "dual", "merge", "batch", "split", "slice", "keys", "abs", "e", "escape", "replace", "capitalize", "sort", "reverse", "first", "last", "join", "length", "default", "upper", "lower", "trim"} {
		p.AllowedFilters[f] = true
	}
	if !allowAllNames {
		for _, r := range c.Refuse {
			if strings.HasPrefix(r, "f:") {
				delete(p.AllowedFunctions, r[2:])
				if c.Deny {
					p.AllowedFunctions[r[2:]] = false
				}
			} else {
				delete(p.AllowedFilters, r[1:])
				if c.Deny {
					p.AllowedFilters[r[1:]] = false
				}
			}
		}
	}
	if c.Custom {
		return customPolicy{p.AllowedFilters, p.AllowedFunctions}
	}
	return p
}

// checkC06Named: with the named function/filter refused by the policy, the sandboxed include
// must fail with a security violation, produce no output and never run a refused spy; with the
// name allowed the sandboxed render equals the unsandboxed one.
func checkC06Named(c C06Case) (bool, error) {
	// is the occurrence position evaluated at all in this arrangement? (measured with a spy)
	probe := c
	probe.Occ, probe.Refuse, probe.Pos, probe.Fn = c.Probe, nil, 0, false
	probe.Probe = ""
	if live, _ := checkC06Live(probe); !live {
		return false, nil
	}
	tmU, _ := c06Build(c, false)
	tmS, _ := c06Build(c, true)
	ru, _ := c06Run(tmU, c06NamedPolicy(c, false))
	if ru.Failed() {
		return false, nil
	}
	rs, sp := c06Run(tmS, c06NamedPolicy(c, false))
	if rs.Panic != "" {
		return true, fmt.Errorf("sandboxed render panicked: %s; templates:%s", rs.Panic, showSources(tmS))
	}
	for _, r := range c.Refuse {
		key := "|dual"
		if strings.HasPrefix(r, "f:") {
			key = "dual"
		}
		if strings.HasSuffix(r, "dual") && sp.Calls[key] > 0 {
			return true, fmt.Errorf("the policy refuses %s but it ran %d time(s) inside the sandboxed include (calls %v); templates:%s", r, sp.Calls[key], sp.Log, showSources(tmS))
		}
	}
	if rs.Err == "" {
		return true, fmt.Errorf("the policy refuses %v, the sandboxed include uses it, but the render succeeded with output %s (unsandboxed %s); templates:%s", c.Refuse, q(rs.Out), q(ru.Out), showSources(tmS))
	}
	var sv *twig.SecurityViolation
	if !errors.As(rs.Error(), &sv) {
		return true, fmt.Errorf("the render failed but not with a security violation: %s; templates:%s", firstLine(rs.Err), showSources(tmS))
	}
	if rs.Out != "" {
		return true, fmt.Errorf("output %s returned together with the security violation", q(rs.Out))
	}
	ra, _ := c06Run(tmS, c06NamedPolicy(c, true))
	if ra.Failed() || ra.Out != ru.Out {
		return true, fmt.Errorf("with every name allowed the sandboxed render gives %v, unsandboxed %v; templates:%s", ra, ru, showSources(tmS))
	}
	return true, nil
}

func TestC06Named(t *testing.T) {
	r := NewRec(t, "C06", "second arm, exhaustive over (refused name x position) with no carrier and with each single carrier for 3 positions, plus generated chains: 27 built-in functions and filters (range, max, merge, upper, sort, default, escape, ...) refused by name in 15 value positions (print, if, set, for sequence with and without key / else / nested, ternary, filter argument, include-with value, macro argument, in, do, apply), and a name registered both as function and filter (the spy pair dual / the built-in pair merge) with only one of the two refused, used in both orders; oracle: security violation, no output, refused spy never ran; with the name allowed the output equals the unsandboxed one; non-trivial = the position is evaluated in the arrangement (measured with a spy)")
	defer r.Flush()
	run := func(c C06Case, rt *rapid.T) {
		if !c06ValidChain(c.Carriers) {
			return
		}
		if c.Probe == "" {
			// occurrences without a probe of their own are only claimed where the context
			// variables reach them (the top level of an imported library sees none)
			for _, k := range c.Carriers {
				if k >= 14 {
					return
				}
			}
		}
		live, err := checkC06Named(c)
		cl := []string{"refuse:" + strings.Join(c.Refuse, ","), fmt.Sprintf("chain-length:%d", len(c.Carriers))}
		if !live {
			cl = append(cl, "not-live")
		}
		r.Case(fmt.Sprint(c), live, c.Occ+" refusing "+strings.Join(c.Refuse, ","), cl...)
		if err != nil {
			if rt != nil {
				r.Fail(rt, "C06.named", c, err)
			} else {
				r.FailEnum(t, "C06.named", c, err)
			}
		}
	}
	var occs []C06Case
	for _, b := range c06Builtins {
		for _, p := range c06ExprPos {
			if p.iterOnly && !b.iter {
				continue
			}
			probeOcc := strings.ReplaceAll(p.src, "V", "(forbid_fn(xs))")
			occs = append(occs, C06Case{Occ: strings.ReplaceAll(p.src, "V", "("+b.expr+")"), Refuse: []string{b.refuse}, Probe: probeOcc})
			if p.iterOnly || p.name == "print" || p.name == "if-cond" {
				// also without the parentheses (the bare call / filter chain as the tag's whole expression)
				occs = append(occs, C06Case{Occ: strings.ReplaceAll(p.src, "V", b.expr), Refuse: []string{b.refuse}, Probe: probeOcc})
			}
		}
	}
	// tags that apply a built-in filter themselves
	occs = append(occs, C06Case{Occ: "{% spaceless %}<b> x </b> <i>y</i>{% endspaceless %}", Refuse: []string{"|spaceless"}},
		C06Case{Occ: "{% apply upper %}x{{ x }}{% endapply %}", Refuse: []string{"|upper"}},
		C06Case{Occ: "{% apply lower|trim %} X {% endapply %}", Refuse: []string{"|trim"}},
		C06Case{Occ: "{% apply escape %}<{{ x }}>{% endapply %}", Refuse: []string{"|escape"}})
	for _, o := range c06DualOccs {
		name := "dual"
		if strings.Contains(o, "merge") {
			name = "merge"
		}
		occs = append(occs, C06Case{Occ: o, Refuse: []string{"f:" + name}}, C06Case{Occ: o, Refuse: []string{"|" + name}})
	}
	for _, o := range occs {
		for _, custom := range []bool{false, true} {
			c := o
			c.Custom = custom
			run(c, nil)
			c.IncOpts = 3
			run(c, nil)
			c.Deny = true
			run(c, nil)
		}
		for k := range c06CarrierNames {
			c := o
			c.Carriers = []int{k}
			run(c, nil)
		}
	}
	rapid.Check(t, func(rt *rapid.T) {
		c := rapid.SampledFrom(occs).Draw(rt, "occ")
		c.MainWrap = rapid.IntRange(0, 4).Draw(rt, "mainwrap")
		c.IncOpts = rapid.IntRange(0, 3).Draw(rt, "incopts")
		c.Custom = rapid.IntRange(0, 3).Draw(rt, "custom") == 0
		c.Deny = rapid.IntRange(0, 2).Draw(rt, "deny") == 0
		n := rapid.IntRange(1, scale(3, 4)).Draw(rt, "ncarriers")
		for i := 0; i < n; i++ {
			c.Carriers = append(c.Carriers, rapid.IntRange(0, len(c06CarrierNames)-1).Draw(rt, "carrier"))
		}
		run(c, rt)
	})
}

// ---- third arm: the policy changes its answer between renders on one engine ----------------------

// flipPolicy answers from maps that the check edits while the engine holds the policy
type flipPolicy struct{ filters, functions map[string]bool }

func (p *flipPolicy) IsFunctionAllowed(n string) bool { return p.functions[n] }
func (p *flipPolicy) IsFilterAllowed(n string) bool   { return p.filters[n] }
func (p *flipPolicy) IsTagAllowed(string) bool        { return true }

// checkC06Flip: one engine, one policy object; the spy name is allowed, refused, allowed again
// (or refused first), by editing the policy in place, never calling EnableSandbox again. Every
// render must obey the answer the policy gives at that moment.
func checkC06Flip(c C06Case) (bool, error) {
	if live, _ := checkC06Live(c); !live {
		return false, nil
	}
	tm, _ := c06Build(c, true)
	def := c06Policy(C06Case{}, false).(*twig.DefaultSecurityPolicy)
	var pol twig.SecurityPolicy = def
	filters, functions := def.AllowedFilters, def.AllowedFunctions
	if c.Custom {
		pol = &flipPolicy{filters, functions}
	}
	e := newEngine(tm)
	sp := NewSpies()
	sp.Install(e)
	e.EnableSandbox(pol)
	set := func(allowed bool) {
		if allowed {
			filters["forbid"], functions["forbid_fn"] = true, true
		} else {
			delete(filters, "forbid")
			delete(functions, "forbid_fn")
			if c.Deny {
				filters["forbid"], functions["forbid_fn"] = false, false
			}
		}
	}
	seq := []bool{true, false, true, false}
	if c.IncOpts&4 != 0 {
		seq = []bool{false, true, false, true}
	}
	for i, allowed := range seq {
		set(allowed)
		before := spyHits(sp)
		ctx := map[string]interface{}{}
		for k, v := range c06Ctx {
			ctx[k] = v
		}
		r := render(e, "main", ctx)
		if r.Panic != "" {
			return true, fmt.Errorf("render %d panicked: %s", i+1, r.Panic)
		}
		ran := spyHits(sp) - before
		if allowed && (r.Failed() || ran == 0) {
			return true, fmt.Errorf("render %d: the policy allows the name now (it was edited in place after render %d) but the sandboxed render gives %v, spy calls %d; templates:%s", i+1, i, r, ran, showSources(tm))
		}
		if !allowed && (ran != 0 || r.Err == "") {
			return true, fmt.Errorf("render %d: the policy refuses the name now (it was edited in place after render %d) but the spy ran %d time(s), result %v; templates:%s", i+1, i, ran, r, showSources(tm))
		}
	}
	return true, nil
}

func TestC06Flip(t *testing.T) {
	r := NewRec(t, "C06", "third arm: one engine and one policy object (DefaultSecurityPolicy whose maps are edited in place, or a harness policy type reading such maps); the spy name is allowed / refused / allowed / refused (or starting refused) between four renders of the same sandboxed arrangement, without calling EnableSandbox again; every occurrence position with no carrier and each single carrier exhaustively, longer chains generated; oracle: each render obeys the policy's answer at that moment (spy ran and output, or security violation and no spy call); non-trivial = the occurrence is live")
	defer r.Flush()
	run := func(c C06Case, rt *rapid.T) {
		if !c06ValidChain(c.Carriers) {
			return
		}
		live, err := checkC06Flip(c)
		cl := []string{fmt.Sprintf("chain-length:%d", len(c.Carriers))}
		if !live {
			cl = append(cl, "not-live")
		}
		r.Case(fmt.Sprint(c), live, fmt.Sprint(c), cl...)
		if err != nil {
			if rt != nil {
				r.Fail(rt, "C06.flip", c, err)
			} else {
				r.FailEnum(t, "C06.flip", c, err)
			}
		}
	}
	for _, fn := range []bool{false, true} {
		npos := len(c06FilterPos)
		if fn {
			npos = len(c06FuncPos)
		}
		for pos := 0; pos < npos; pos++ {
			for _, opts := range []int{0, 4} {
				for _, custom := range []bool{false, true} {
					run(C06Case{Pos: pos, Fn: fn, IncOpts: opts, Custom: custom}, nil)
					run(C06Case{Pos: pos, Fn: fn, IncOpts: opts, Custom: custom, Deny: true}, nil)
				}
				for k := range c06CarrierNames {
					run(C06Case{Pos: pos, Fn: fn, IncOpts: opts, Carriers: []int{k}}, nil)
				}
			}
		}
	}
	rapid.Check(t, func(rt *rapid.T) {
		c := C06Case{Fn: rapid.Bool().Draw(rt, "fn"), MainWrap: rapid.IntRange(0, 4).Draw(rt, "mainwrap"), IncOpts: rapid.IntRange(0, 7).Draw(rt, "incopts"), Custom: rapid.Bool().Draw(rt, "custom"), Deny: rapid.IntRange(0, 2).Draw(rt, "deny") == 0}
		if c.Fn {
			c.Pos = rapid.IntRange(0, len(c06FuncPos)-1).Draw(rt, "pos")
		} else {
			c.Pos = rapid.IntRange(0, len(c06FilterPos)-1).Draw(rt, "pos")
		}
		n := rapid.IntRange(1, 3).Draw(rt, "ncarriers")
		for i := 0; i < n; i++ {
			c.Carriers = append(c.Carriers, rapid.IntRange(0, len(c06CarrierNames)-1).Draw(rt, "carrier"))
		}
		run(c, rt)
	})
}

const c06Rule = "a forbidden spy filter or function written in one of 30 (filter) / 30 (function) syntactic positions (also as the subject of default and `is defined`), reached from `include 'inner' sandboxed` (optionally with/only/ignore missing in 7 orders, placed at top level, in a loop, condition, block or macro of the unsandboxed template) through a chain of 0-3 carriers out of 16 (top-level code of an imported library (import as / from import), include, include only, include with, extends with override, extends with the occurrence in the parent, parent(), import-as + call, from-import + call, local macro, apply, for, if, block, set) under DefaultSecurityPolicy, a harness policy type, or a type that embeds a DefaultSecurityPolicy and overrides its answers, the refused name absent from the policy's maps or (1 case in 3) listed there with the value false; non-trivial = the occurrence is live (the spy runs when the include is not sandboxed) and it is not the head of a print tag directly in the sandboxed template; distinct by case parameters"

func TestC06Sandbox(t *testing.T) {
	r := NewRec(t, "C06", c06Rule)
	defer r.Flush()
	rapid.Check(t, func(rt *rapid.T) {
		c := C06Case{Fn: rapid.Bool().Draw(rt, "fn"), MainWrap: rapid.IntRange(0, 4).Draw(rt, "mainwrap"), IncOpts: rapid.IntRange(0, 3).Draw(rt, "incopts"), Order: rapid.SampledFrom([]int{0, 0, 1, 2, 3, 4, 5, 6}).Draw(rt, "order"), Custom: rapid.IntRange(0, 3).Draw(rt, "custom") == 0, Deny: rapid.IntRange(0, 2).Draw(rt, "deny") == 0, Embed: rapid.IntRange(0, 4).Draw(rt, "embed") == 0}
		if c.Fn {
			c.Pos = rapid.IntRange(0, len(c06FuncPos)-1).Draw(rt, "pos")
		} else {
			c.Pos = rapid.IntRange(0, len(c06FilterPos)-1).Draw(rt, "pos")
		}
		n := rapid.IntRange(0, scale(3, 4)).Draw(rt, "ncarriers")
		for i := 0; i < n; i++ {
			c.Carriers = append(c.Carriers, rapid.IntRange(0, len(c06CarrierNames)-1).Draw(rt, "carrier"))
		}
		if !c06ValidChain(c.Carriers) {
			r.Excl("extends carrier not at the start of a template")
			return
		}
		live, err := checkC06Live(c)
		pn := ""
		if c.Fn {
			pn = "fn:" + c06FuncPos[c.Pos].name
		} else {
			pn = "filter:" + c06FilterPos[c.Pos].name
		}
		cl := []string{"pos:" + pn, fmt.Sprintf("chain-length:%d", len(c.Carriers))}
		for _, k := range c.Carriers {
			cl = append(cl, "carrier:"+c06CarrierNames[k])
		}
		if !live {
			cl = append(cl, "not-live")
		}
		tm, _ := c06Build(c, true)
		r.Case(fmt.Sprint(c), live && (len(c.Carriers) > 0 || c.Pos != 0), tm, cl...)
		if err != nil {
			r.Fail(rt, "C06.sandbox", c, err)
		}
		if err := checkC06Outside(c); err != nil {
			r.Fail(rt, "C06.outside", c, err)
		}
	})
}

// TestC06Matrix: every position x every single carrier (and no carrier), filter and function.
func TestC06Matrix(t *testing.T) {
	r := NewRec(t, "C06", "exhaustive: every occurrence position x {no carrier, each of the 14 carriers} x {filter, function} x {plain, with+only on the sandboxed include; for the carrier-less arrangement also `ignore missing` added with the options in 6 orders}, plus every ordered pair of carriers for six representative positions; non-trivial = the occurrence is live")
	defer r.Flush()
	r.SetExhaustive()
	run := func(c C06Case) {
		if !c06ValidChain(c.Carriers) {
			return
		}
		live, err := checkC06Live(c)
		tm, _ := c06Build(c, true)
		cl := []string{fmt.Sprintf("chain-length:%d", len(c.Carriers))}
		if !live {
			cl = append(cl, "not-live")
		}
		r.Case(fmt.Sprint(c), live, tm["inner"], cl...)
		if err != nil {
			r.FailEnum(t, "C06.sandbox", c, err)
		}
		if err := checkC06Outside(c); err != nil {
			r.FailEnum(t, "C06.outside", c, err)
		}
	}
	for _, fn := range []bool{false, true} {
		npos := len(c06FilterPos)
		if fn {
			npos = len(c06FuncPos)
		}
		for pos := 0; pos < npos; pos++ {
			for _, opts := range []int{0, 3} {
				run(C06Case{Pos: pos, Fn: fn, IncOpts: opts})
				for order := 1; order <= 6; order++ {
					run(C06Case{Pos: pos, Fn: fn, IncOpts: opts, Order: order})
				}
				run(C06Case{Pos: pos, Fn: fn, IncOpts: opts, Deny: true})
				run(C06Case{Pos: pos, Fn: fn, IncOpts: opts, Deny: true, Custom: true})
				run(C06Case{Pos: pos, Fn: fn, IncOpts: opts, Embed: true})
				for k := range c06CarrierNames {
					run(C06Case{Pos: pos, Fn: fn, IncOpts: opts, Carriers: []int{k}})
				}
			}
		}
		for _, pos := range []int{0, 1, 6, 11, 16, 18} {
			if pos >= npos {
				continue
			}
			for k1 := range c06CarrierNames {
				for k2 := range c06CarrierNames {
					run(C06Case{Pos: pos, Fn: fn, Carriers: []int{k1, k2}})
				}
			}
		}
	}
}

func init() {
	reg("C06.sandbox", checkC06)
	reg("C06.outside", checkC06Outside)
	reg("C06.named", func(c C06Case) error { _, err := checkC06Named(c); return err })
	reg("C06.flip", func(c C06Case) error { _, err := checkC06Flip(c); return err })
}

// ---- other spellings of a refused name, and sandboxes that reach deep ------------------------------------

type denyPolicy struct{}

func (denyPolicy) IsFunctionAllowed(n string) bool { return n != "forbid_fn" }
func (denyPolicy) IsFilterAllowed(n string) bool   { return n != "forbid" }
func (denyPolicy) IsTagAllowed(string) bool        { return true }

type C06SpellCase struct {
	Occ string `json:"occ"` // content of the sandboxed template
}

// checkC06Spell: under a policy that refuses exactly "forbid_fn" / "forbid" (and allows every other
// name), no spelling of a call inside the sandbox gets the refused function or filter invoked.
func checkC06Spell(c C06SpellCase) error {
	tm := map[string]string{"main": "A{% include 'inner' sandboxed %}B", "inner": c.Occ}
	r, sp := c06Run(tm, denyPolicy{})
	if r.Panic != "" {
		return fmt.Errorf("panic: %s", r.Panic)
	}
	if n := spyHits(sp); n != 0 {
		return fmt.Errorf("the policy refuses forbid_fn / forbid (exact names) but the sandboxed template %s got it invoked %d time(s); render: %v", q(c.Occ), n, r)
	}
	return nil
}

type C06DeepCase struct {
	Depth int  `json:"depth"`
	Fn    bool `json:"fn"`
	With  bool `json:"with"`
}

// checkC06Deep: the refused name stands Depth plain includes below the sandboxed one.
func checkC06Deep(c C06DeepCase) error {
	occ := "{{ x|forbid }}"
	if c.Fn {
		occ = "{{ forbid_fn(x) }}"
	}
	with := ""
	if c.With {
		with = ", 'x': x"
	}
	tm := map[string]string{"main": "A{% include 'rec' with {'n': 0} sandboxed %}B",
		"rec": "{% if n < max %}{% include 'rec' with {'n': n + 1" + with + "} %}{% else %}" + occ + "{% endif %}"}
	e := newEngine(tm)
	sp := NewSpies()
	sp.Install(e)
	e.EnableSandbox(c06Policy(C06Case{}, false))
	ctx := map[string]interface{}{"x": "Val", "max": c.Depth}
	r := render(e, "main", ctx)
	if r.Panic != "" {
		return fmt.Errorf("panic: %s", r.Panic)
	}
	if n := spyHits(sp); n != 0 || r.Err == "" {
		return fmt.Errorf("a refused name %d includes below the sandboxed include: invoked %d time(s), render %v", c.Depth, n, trunc(fmt.Sprint(r)))
	}
	var sv *twig.SecurityViolation
	if !errors.As(r.Error(), &sv) {
		return fmt.Errorf("a refused name %d includes below the sandboxed include: the error is not a security violation: %s", c.Depth, firstLine(r.Err))
	}
	return nil
}

func TestC06Reach(t *testing.T) {
	r := NewRec(t, "C06", "exhaustive: (a) under a policy that refuses exactly the names forbid_fn / forbid and allows all others, 24 spellings of a call (other letter case, blanks, method position, quoted dynamic forms) inside a sandboxed include: the refused callable is never invoked; (b) the refused name 0, 1, 10, 31, 32, 33, 63, 64, 65, 100 plain includes below the sandboxed include (a template including itself with a counter): security violation, not invoked; all cases non-trivial")
	defer r.Flush()
	r.SetExhaustive()
	for _, occ := range []string{"{{ Forbid_fn(x) }}", "{{ FORBID_FN(x) }}", "{{ forbid_Fn(x) }}", "{{ x|Forbid }}", "{{ x|FORBID }}", "{{ x|forbiD|upper }}", "{% if Forbid_Fn(x) %}y{% endif %}", "{% for i in FORBID_FN(xs) %}{{ i }}{% endfor %}",
		"{% set v = x|FORBID %}{{ v }}", "{% apply FORBID %}x{% endapply %}", "{% apply Forbid %}x{% endapply %}", "{{ mp.Forbid_fn(x) }}", "{{ mp.FORBID_FN(x) }}", "{{ x.forbid_FN(y2) }}", "{{ nul|default(x|Forbid) }}", "{{ max(1, FORBID_FN(y2)) }}",
		"{{ forbid_fn (x) }}", "{{ x| forbid }}", "{{ x |forbid }}", "{{ x\n|\nforbid }}", "{{ forbid_fn\t(x) }}", "{% do Forbid_fn(x) %}", "{{ [x|FORBID]|join }}", "{{ {'k': FORBID_FN(x)}['k'] }}"} {
		c := C06SpellCase{Occ: occ}
		r.Case(occ, true, occ, "spelling")
		if err := checkC06Spell(c); err != nil {
			r.FailEnum(t, "C06.spell", c, err)
		}
	}
	for _, d := range []int{0, 1, 10, 31, 32, 33, 63, 64, 65, 100} {
		for _, fn := range []bool{false, true} {
			for _, with := range []bool{false, true} {
				c := C06DeepCase{Depth: d, Fn: fn, With: with}
				r.Case(fmt.Sprint(c), true, c, "depth")
				if err := checkC06Deep(c); err != nil {
					r.FailEnumKey(t, "C06.deep", fmt.Sprint(fn, with), c, err)
				}
			}
		}
	}
}

func init() {
	reg("C06.spell", checkC06Spell)
	reg("C06.deep", checkC06Deep)
}
