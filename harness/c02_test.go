package vh

// C02 — concurrent use of one engine is safe and equals serial use.
//
// Oracle: (1) every call's result equals the result the same call gives on a fresh engine of
// the same configuration when run alone (serial oracle); results carry unique markers per
// template, so material from another call is recognisable as cross-talk; (2) the binary is
// built with -race: any report of the Go race detector, any fatal runtime error or worker
// death is a violation (the driver turns race logs into VIOLATION lines).

import (
	"fmt"
	"io"
	"os"
	"path/filepath"
	"runtime"
	"strings"
	"sync"
	"sync/atomic"
	"testing"
	"time"

	"github.com/semihalev/twig"
	"pgregory.net/rapid"
)

type C02Call struct {
	Op   string `json:"op"` // render | renderTo | load | parse | registerRender
	Name string `json:"name"`
	Src  string `json:"src,omitempty"`
	V    int    `json:"v"`
	W    int    `json:"w,omitempty"` // renderTo: 0 bytes.Buffer, 1 a writer with Write only that yields while copying, 2 io.Pipe
}

// yieldWriter has no WriteString method and is slow to consume what it is handed: it copies
// in two halves and yields in between, so bytes that the engine recycles early are seen
type yieldWriter struct{ b []byte }

func (w *yieldWriter) Write(p []byte) (int, error) {
	h := len(p) / 2
	w.b = append(w.b, p[:h]...)
	runtime.Gosched()
	w.b = append(w.b, p[h:]...)
	return len(p), nil
}

type C02Case struct {
	Mode   string            `json:"mode"` // cache | nocache | autoreload
	FS     map[string]string `json:"fs"`   // files below the FileSystemLoader root
	Mem    map[string]string `json:"mem"`  // ArrayLoader templates
	Procs  int               `json:"procs"`
	Yields bool              `json:"yields"`
	Calls  [][]C02Call       `json:"calls"` // per goroutine
	Reps   int               `json:"reps"`
	Churn  bool              `json:"churn,omitempty"` // the harness removes/recreates churn/* while the workload runs
	Chain  bool              `json:"chain,omitempty"` // the loaders are registered as one ChainLoader (an empty directory first)
}

func c02World(t *rapid.T) (map[string]string, map[string]string, []string) {
	fs := map[string]string{"shared/base.twig": "base[{% block body %}dflt{% endblock %}|{% block foot %}f{% endblock %}]"}
	var names []string
	dirs := []string{"a", "b", "c"}[:rapid.IntRange(2, 3).Draw(t, "ndirs")]
	for _, d := range dirs {
		D := strings.ToUpper(d)
		fs[d+"/page.twig"] = "{% extends '../shared/base' %}{% block body %}" + D + ":{% include './part' %}{% import './macros' as mm %}{{ mm.tag(v) }}{% endblock %}"
		fs[d+"/part.twig"] = "part" + D + "({{ v }}){% include './leaf' %}"
		fs[d+"/leaf.twig"] = "leaf" + D
		fs[d+"/macros.twig"] = "{% macro tag(x) %}<" + D + "{{ x }}>{% endmacro %}"
		fs[d+"/plain.twig"] = "plain" + D + "{% for i in [1,2,3] %}{{ i * v }}{% if not loop.last %},{% endif %}{% endfor %}{% from './macros' import tag %}{{ tag(v) }}"
		names = append(names, d+"/page", d+"/plain", d+"/part")
	}
	fs["churn/x.twig"] = "churn-x{{ v }}"
	fs["churn/y.twig"] = "churn-y{{ v }}"
	mem := map[string]string{
		"mlayout": "ML[{% block c %}{% endblock %}]",
		"mchild":  "{% extends 'mlayout' %}{% block c %}child{{ v }}{{ parent() }}{% endblock %}",
		"minc":    "inc{{ v }}{% include 'mleaf' with {'w': v + 1} %}",
		"mleaf":   "(w={{ w }})",
		"mmac":    "{% macro m(x) %}[m{{ x }}]{% endmacro %}{{ m(v) }}{{ _self.m(v + 1) }}",
		"mbig":    "{% for i in range(1, 40) %}{{ i }}{{ v }};{% endfor %}" + strings.Repeat("pad ", 1100),
	}
	// escaping of values that contain every special character (per-call scratch state in a filter
	// would be shared between goroutines)
	mem["mesc"] = "{% for i in [1,2,3] %}{{ s|e }}{{ (s ~ i)|escape }}{% endfor %}{{ s|e|e }}"
	mem["mobj"] = "{{ o.Name }}/{{ o.N }}/{{ o.Label }}/{{ o.Double }}/{% for it in o.Items %}{{ it }}{% endfor %}/{{ o.Nope }}"
	// loops over maps (untyped, typed, int-keyed, nested through a recursive include) and filters over
	// lists that differ per call: scratch space kept on a shared node or in the extension would be
	// shared between goroutines
	mem["mmap"] = "{% for k, x in mp %}{{ k }}={{ x }};{% endfor %}|{% for k, x in mi %}{{ k }}:{{ x }},{% endfor %}|{{ mp|keys|join(',') }}|{{ mp|length }}|{% for x in xs|sort %}{{ x }}.{% endfor %}|{{ xs|reverse|join('-') }}|{{ xs|merge([v])|join('+') }}|{{ mi|first }}"
	mem["mtree"] = "{% for k, x in t %}{{ k }}{% if x is iterable %}[{% include 'mtree' with {'t': x} only %}]{% else %}={{ x }}{% endif %};{% endfor %}"
	// tags that capture the output of their body before they write it (spaceless, apply, set from a
	// macro call): a capture buffer kept on the shared node would be shared between goroutines
	mem["mcap"] = "{% spaceless %}<ul> {% for i in range(1, 12) %}<li> {{ v }}-{{ i }} </li> {% endfor %}</ul>{% endspaceless %}|{% apply upper %}a{{ v }}{% for i in [1, 2, 3] %}b{{ v }}{% endfor %}{% endapply %}|{% macro cm(x) %}<{{ x }}>{% endmacro %}{% set c = cm(v) %}{{ c }}{{ c|length }}|{% spaceless %}<b> {{ s }} </b> <i>{{ v }}</i>{% endspaceless %}"
	names = append(names, "mchild", "minc", "mmac", "mbig", "mesc", "mobj", "mmap", "mtree", "mcap")
	return fs, mem, names
}

func c02Engine(c C02Case, root string) *twig.Engine {
	e := twig.New()
	if c.Chain {
		// one ChainLoader over an (empty) override directory, the template directory and the
		// in-memory templates
		os.MkdirAll(filepath.Join(root, "_override"), 0o755)
		e.RegisterLoader(twig.NewChainLoader([]twig.Loader{twig.NewFileSystemLoader([]string{filepath.Join(root, "_override")}),
			twig.NewFileSystemLoader([]string{root}), twig.NewArrayLoader(copyMap(c.Mem))}))
	} else {
		e.RegisterLoader(twig.NewFileSystemLoader([]string{root}))
		e.RegisterLoader(twig.NewArrayLoader(copyMap(c.Mem)))
	}
	switch c.Mode {
	case "nocache":
		e.SetCache(false)
	case "autoreload":
		e.SetAutoReload(true)
	}
	return e
}

func copyMap(m map[string]string) map[string]string {
	out := make(map[string]string, len(m))
	for k, v := range m {
		out[k] = v
	}
	return out
}

type c02Obj struct {
	Name string
	N    int
}

func (o c02Obj) Label() string   { return "L" + o.Name }
func (o *c02Obj) Double() int    { return 2 * o.N }
func (o c02Obj) Items() []string { return []string{o.Name, "x"} }

// c02Nonce numbers the runs of this process: the text NONCE inside generated identifiers is
// replaced by a fresh number in every run, so that the names are new to the process each time
// (the serial reference run would otherwise already have entered them into global tables).
// The identifiers are undefined and print nothing: the expected output does not depend on it.
var c02Nonce int64

func c02Do(e *twig.Engine, call C02Call, nonce string) Res {
	call.Src = strings.ReplaceAll(call.Src, "NONCE", nonce)
	// o: a Go struct with fields and methods (value in even calls, pointer in odd ones), so that
	// attribute lookups on structs happen concurrently
	var o interface{} = c02Obj{Name: fmt.Sprintf("n%d", call.V), N: call.V}
	if call.V%2 == 1 {
		o = &c02Obj{Name: fmt.Sprintf("n%d", call.V), N: call.V}
	}
	ctx := map[string]interface{}{"o": o, "v": call.V, "s": fmt.Sprintf("<%d&\"'>%s", call.V, strings.Repeat("<&>", call.V))}
	// maps and lists whose size and content depend on the call
	mp, mi, xs := map[string]interface{}{}, map[int]string{}, []interface{}{}
	for i := 0; i <= call.V%5+1; i++ {
		mp[fmt.Sprintf("k%d_%d", call.V, i)] = call.V*10 + i
		mi[call.V*100+i] = fmt.Sprintf("s%d.%d", call.V, i)
		xs = append(xs, (call.V*7+i*13)%50)
	}
	ctx["mp"], ctx["mi"], ctx["xs"] = mp, mi, xs
	ctx["t"] = map[string]interface{}{fmt.Sprintf("a%d", call.V): 1, "b": map[string]interface{}{"c": call.V, fmt.Sprintf("d%d", call.V%3): map[string]interface{}{"e": 2, "f": call.V + 1}}, "g": mp}
	switch call.Op {
	case "renderTo":
		switch call.W {
		case 1:
			return guard(func() (string, error) {
				w := &yieldWriter{}
				err := e.RenderTo(w, call.Name, ctx)
				return string(w.b), err
			})
		case 2:
			return guard(func() (string, error) {
				pr, pw := io.Pipe()
				done := make(chan []byte, 1)
				go func() { b, _ := io.ReadAll(pr); done <- b }()
				err := e.RenderTo(pw, call.Name, ctx)
				pw.Close()
				return string(<-done), err
			})
		}
		return renderTo(e, call.Name, ctx)
	case "load":
		return guard(func() (string, error) {
			t, err := e.Load(call.Name)
			if err != nil {
				return "", err
			}
			return t.Render(ctx)
		})
	case "parse":
		return guard(func() (string, error) {
			t, err := e.ParseTemplate(call.Src)
			if err != nil {
				return "", err
			}
			return t.Render(ctx)
		})
	case "registerRender":
		return guard(func() (string, error) {
			if err := e.RegisterString(call.Name, call.Src); err != nil {
				return "", err
			}
			return e.Render(call.Name, ctx)
		})
	}
	return render(e, call.Name, ctx)
}

func writeTree(root string, fs map[string]string) error {
	for p, src := range fs {
		full := filepath.Join(root, p)
		if err := os.MkdirAll(filepath.Dir(full), 0o755); err != nil {
			return err
		}
		if err := os.WriteFile(full, []byte(src), 0o644); err != nil {
			return err
		}
	}
	return nil
}

func checkC02(c C02Case) error {
	_, err := runC02(c)
	return err
}

func runC02(c C02Case) (int, error) {
	root, err := os.MkdirTemp(workDir(), "c02-")
	if err != nil {
		return 0, fmt.Errorf("harness: %v", err)
	}
	defer os.RemoveAll(root)
	if err := writeTree(root, c.FS); err != nil {
		return 0, fmt.Errorf("harness: %v", err)
	}
	// serial oracle: every call alone on a fresh engine
	type key struct{ g, i int }
	want := map[key]Res{}
	for g, calls := range c.Calls {
		for i, call := range calls {
			if call.Op == "registerRender" && c.Mode == "nocache" {
				continue // registrations are dropped while the cache is off (C15 domain decision)
			}
			if call.Op == "loadChurn" {
				want[key{g, i}] = Res{Out: "\x00unchecked"}
				continue
			}
			want[key{g, i}] = c02Do(c02Engine(c, root), call, "s")
		}
	}
	if c.Procs > 0 {
		defer runtime.GOMAXPROCS(runtime.GOMAXPROCS(c.Procs))
	}
	reps := c.Reps
	if reps <= 0 {
		reps = 1
	}
	overlaps := 0
	for rep := 0; rep < reps; rep++ {
		e := c02Engine(c, root)
		nonce := fmt.Sprintf("n%d", atomic.AddInt64(&c02Nonce, 1))
		var wg sync.WaitGroup
		start := make(chan struct{})
		errs := make(chan error, len(c.Calls)+1)
		var active, maxActive int32
		var mu sync.Mutex
		for g, calls := range c.Calls {
			wg.Add(1)
			go func(g int, calls []C02Call) {
				defer wg.Done()
				<-start
				for i, call := range calls {
					w, ok := want[key{g, i}]
					if !ok {
						continue
					}
					mu.Lock()
					active++
					if active > maxActive {
						maxActive = active
					}
					mu.Unlock()
					if call.Op == "loadChurn" {
						// these files are removed and recreated by the harness while the workload runs:
						// the result legitimately varies, only panics, races and fatal errors count
						got := c02Do(e, C02Call{Op: "load", Name: call.Name, V: call.V}, nonce)
						mu.Lock()
						active--
						mu.Unlock()
						if got.Panic != "" {
							errs <- fmt.Errorf("goroutine %d call %d (load %s while the file is being replaced) panicked: %s", g, i, call.Name, got.Panic)
							return
						}
						continue
					}
					got := c02Do(e, call, nonce)
					mu.Lock()
					active--
					mu.Unlock()
					if c.Yields {
						runtime.Gosched()
					}
					if got.Panic != "" {
						errs <- fmt.Errorf("goroutine %d call %d (%s %s) panicked under concurrency: %s", g, i, call.Op, call.Name, got.Panic)
						return
					}
					if (got.Err != "") != (w.Err != "") || got.Out != w.Out {
						errs <- fmt.Errorf("goroutine %d call %d (%s %s, v=%d, mode %s) returned %v under concurrency, %v when run alone", g, i, call.Op, call.Name, call.V, c.Mode, short(got), short(w))
						return
					}
				}
			}(g, calls)
		}
		stopChurn := make(chan struct{})
		churnDone := make(chan struct{})
		go func() {
			defer close(churnDone)
			if !c.Churn {
				return
			}
			<-start
			for k := 0; ; k++ {
				select {
				case <-stopChurn:
					return
				default:
				}
				p := filepath.Join(root, "churn", []string{"x.twig", "y.twig"}[k%2])
				os.Remove(p)
				runtime.Gosched()
				os.WriteFile(p, []byte(fmt.Sprintf("churn%d{{ v }}", k)), 0o644)
			}
		}()
		close(start)
		wg.Wait()
		close(stopChurn)
		<-churnDone
		close(errs)
		if maxActive >= 2 {
			overlaps++
		}
		for err := range errs {
			return overlaps, err
		}
	}
	return overlaps, nil
}

func genC02(t *rapid.T) C02Case {
	fs, mem, names := c02World(t)
	c := C02Case{FS: fs, Mem: mem, Mode: rapid.SampledFrom([]string{"cache", "cache", "nocache", "autoreload"}).Draw(t, "mode"),
		Procs: rapid.SampledFrom([]int{0, 2, 4, 16}).Draw(t, "procs"), Yields: rapid.Bool().Draw(t, "yields"), Reps: scale(3, 10), Churn: rapid.Bool().Draw(t, "churn"), Chain: rapid.IntRange(0, 2).Draw(t, "chain") == 0}
	g := rapid.SampledFrom([]int{2, 4, 8, 16}).Draw(t, "goroutines")
	for gi := 0; gi < g; gi++ {
		n := rapid.IntRange(3, scale(12, 40)).Draw(t, "ncalls")
		var calls []C02Call
		for i := 0; i < n; i++ {
			call := C02Call{V: rapid.IntRange(1, 9).Draw(t, "v")}
			switch rapid.IntRange(0, 9).Draw(t, "op") {
			case 0, 1, 2, 3:
				call.Op, call.Name = "render", rapid.SampledFrom(names).Draw(t, "name")
			case 4, 5:
				call.Op, call.Name = "renderTo", rapid.SampledFrom(names).Draw(t, "name")
				call.W = rapid.IntRange(0, 2).Draw(t, "writer")
			case 6:
				call.Op, call.Name = "load", rapid.SampledFrom(names).Draw(t, "name")
				if c.Churn && rapid.Bool().Draw(t, "churnload") {
					call.Op, call.Name = "loadChurn", rapid.SampledFrom([]string{"churn/x", "churn/y"}).Draw(t, "churnname")
				}
			case 7, 8:
				call.Op = "parse"
				// names never seen before by this process (u<goroutine>_<call>_<draw>): parsing enters them into
				// whatever global tables the tokenizers keep, also above 4096 bytes
				fresh := fmt.Sprintf("u%d_%d_%d_NONCE", gi, i, rapid.IntRange(0, 1<<30).Draw(t, "fresh"))
				call.Src = fmt.Sprintf("P%d.%d[{%% for q in [1,2] %%}{{ q + v }}{%% endfor %%}{%% if v > 4 %%}hi{%% else %%}lo{%% endif %%}{{ v }}{{ %s }}{{ %s_b }}{{ s|e }}]%s", gi, i, fresh, fresh, strings.Repeat("x", rapid.SampledFrom([]int{0, 50, 5000}).Draw(t, "plen")))
			default:
				call.Op = "registerRender"
				call.Name = fmt.Sprintf("priv_%d_%d", gi, i)
				call.Src = fmt.Sprintf("R%d.%d<{{ v }}>{%% include 'mleaf' with {'w': v} %%}{{ r%d_%d_%d_NONCE }}%s", gi, i, gi, i, rapid.IntRange(0, 1<<30).Draw(t, "freshr"), strings.Repeat("y", rapid.SampledFrom([]int{0, 4200}).Draw(t, "rlen")))
			}
			calls = append(calls, call)
		}
		c.Calls = append(c.Calls, calls)
	}
	return c
}

const c02Rule = "workloads on one shared engine with a temp-dir FileSystemLoader (2-3 directories whose templates extend ../shared/base and include/import ./part, ./macros, ./leaf — the same relative names resolving to different files per directory) and an ArrayLoader (registered one by one, or together as one ChainLoader behind an empty override directory; inheritance with parent(), include-with, macros, a template above 4096 bytes, escaping of strings full of special characters, attribute and method lookups on a Go struct passed by value and by pointer); parsed and registered sources (below and above 4096 bytes) print identifiers the process has never seen; cache on / off / auto-reload; 2-16 goroutines with 3-12 (thorough 40) calls each out of Render, RenderTo (into a bytes.Buffer, a slow Write-only writer, an io.Pipe), Load+Render, ParseTemplate+Render, RegisterString+Render of goroutine-private names; GOMAXPROCS 2/4/16/default and optional yields; each workload repeated 3 (thorough 10) times on fresh engines, so first loads are concurrent and uncached; built with -race. non-trivial = at least two calls overlapped in time on the shared engine (measured); distinct by workload"

func TestC02Concurrent(t *testing.T) {
	r := NewRec(t, "C02", c02Rule)
	defer r.Flush()
	rapid.Check(t, func(rt *rapid.T) {
		c := genC02(rt)
		overlaps, err := runC02(c)
		ncalls := 0
		for _, cs := range c.Calls {
			ncalls += len(cs)
		}
		r.ClassN("calls", ncalls*maxInt(1, c.Reps))
		r.Case(fmt.Sprint(c.Mode, c.Procs, c.Yields, c.Calls), overlaps > 0, map[string]interface{}{"mode": c.Mode, "goroutines": len(c.Calls), "procs": c.Procs, "first_calls": c.Calls[0][:min(3, len(c.Calls[0]))]},
			"mode:"+c.Mode, fmt.Sprintf("goroutines:%d", len(c.Calls)))
		if err != nil {
			r.Fail(rt, "C02.concurrent", c, err)
		}
	})
}

func init() { reg("C02.concurrent", checkC02) }

// TestC02AttrCache: the process-wide attribute cache under concurrent renders with more
// (type, attribute) pairs in play than it holds, so that entries are evicted while other
// goroutines are between finding and using them. A wrong answer, an error, a data race or a
// render that never returns (a lock left held on the eviction path) is a violation.
func TestC02AttrCache(t *testing.T) {
	r := NewRec(t, "C02", "16 goroutines x 4000 (thorough 20000) pseudo-random renders of {{ x.A }} over 1100 / 1600 distinct struct types (the attribute cache holds 1000 entries), under the race detector and a 120 s watchdog; every answer compared with the known field value; all cases non-trivial")
	defer r.Flush()
	for i, pairs := range []int{1100, 1600} {
		c := C20ConcCase{Goroutines: 16, Pairs: pairs, Lookups: scale(4000, 20000), Seed: 11 + i}
		r.Case(fmt.Sprint(c), true, c)
		r.Case(fmt.Sprint(c, "b"), true, c)
		if err := checkC20Conc(c); err != nil {
			r.FailEnum(t, "C20.conc", c, err)
		}
	}
}

// ---- many renders in flight inside nested includes ---------------------------------------------------

type C02DeepCase struct {
	Goroutines int `json:"goroutines"`
	Depth      int `json:"depth"`
	Rounds     int `json:"rounds"`
}

// checkC02Deep: G goroutines render a chain of Depth nested includes at the same time, through a
// writer that yields on every write, so that many renders are inside their innermost include at
// once. Anything the engine counts per render (nesting depth, recursion guards) must be per render.
func checkC02Deep(c C02DeepCase) error {
	tm := map[string]string{}
	for i := 0; i < c.Depth; i++ {
		tm[fmt.Sprintf("deep%d", i)] = fmt.Sprintf("D%d{{ v }}[{%% include 'deep%d' %%}]", i, i+1)
	}
	tm[fmt.Sprintf("deep%d", c.Depth)] = "leaf{{ v }}{% for i in [1,2,3] %}.{{ i }}{% endfor %}"
	e := newEngine(tm)
	want := func(v int) string {
		r := renderTo(e, "deep0", map[string]interface{}{"v": v})
		return r.Out
	}
	wants := make([]string, c.Goroutines)
	for g := range wants {
		wants[g] = want(g)
		if !strings.Contains(wants[g], fmt.Sprintf("leaf%d.1.2.3", g)) {
			return fmt.Errorf("harness: serial render gives %s", q(wants[g]))
		}
	}
	var wg sync.WaitGroup
	errs := make(chan error, c.Goroutines)
	start := make(chan struct{})
	for g := 0; g < c.Goroutines; g++ {
		wg.Add(1)
		go func(g int) {
			defer wg.Done()
			<-start
			for i := 0; i < c.Rounds; i++ {
				r := guard(func() (string, error) {
					w := &yieldWriter{}
					err := e.RenderTo(w, "deep0", map[string]interface{}{"v": g})
					return string(w.b), err
				})
				if r.Failed() || r.Out != wants[g] {
					errs <- fmt.Errorf("goroutine %d, render %d of a %d-deep include chain with %d goroutines at work: %v; run alone it gives %s", g, i, c.Depth, c.Goroutines, r, q(wants[g]))
					return
				}
			}
		}(g)
	}
	close(start)
	done := make(chan struct{})
	go func() { wg.Wait(); close(done) }()
	select {
	case <-done:
	case <-time.After(120 * time.Second):
		return fmt.Errorf("concurrent renders of nested includes do not terminate (120 s)")
	}
	close(errs)
	for err := range errs {
		return err
	}
	return nil
}

func TestC02Deep(t *testing.T) {
	r := NewRec(t, "C02", "16 / 48 / 96 goroutines render a chain of 12 / 30 nested includes 20 (thorough 100) times each through a writer that yields on every write; oracle: the serial output of the same call; under the race detector and a watchdog; all cases non-trivial")
	defer r.Flush()
	for _, g := range []int{16, 48, 96} {
		for _, d := range []int{12, 30} {
			c := C02DeepCase{Goroutines: g, Depth: d, Rounds: scale(20, 100)}
			r.Case(fmt.Sprint(c), true, c)
			r.Case(fmt.Sprint(c, "b"), true, c)
			if err := checkC02Deep(c); err != nil {
				r.FailEnum(t, "C02.deep", c, err)
			}
		}
	}
}

// ---- a source that changes between two waves of concurrent calls -------------------------------------

type C02ReloadCase struct {
	Goroutines int  `json:"goroutines"`
	Waves      int  `json:"waves"`
	Files      bool `json:"files"` // FileSystemLoader instead of a timestamp-aware in-memory loader
}

type c02TSLoader struct {
	mu   sync.Mutex
	src  map[string]string
	ts   map[string]int64
	slow bool
}

func (l *c02TSLoader) Load(name string) (string, error) {
	l.mu.Lock()
	s, ok := l.src[name]
	l.mu.Unlock()
	if l.slow {
		// a loader that takes a while (network file system): calls overlap while one of them reloads
		time.Sleep(2 * time.Millisecond)
	}
	if !ok {
		return "", fmt.Errorf("%w: %s", twig.ErrTemplateNotFound, name)
	}
	return s, nil
}
func (l *c02TSLoader) Exists(name string) bool {
	l.mu.Lock()
	defer l.mu.Unlock()
	_, ok := l.src[name]
	return ok
}
func (l *c02TSLoader) GetModifiedTime(name string) (int64, error) {
	l.mu.Lock()
	defer l.mu.Unlock()
	if t, ok := l.ts[name]; ok {
		return t, nil
	}
	return 0, fmt.Errorf("%w: %s", twig.ErrTemplateNotFound, name)
}

// checkC02Reload: with auto-reload on, the source changes while no call is in flight; every call of
// the next wave starts after the change, so whatever the order in which they run, each returns the
// new version.
func checkC02Reload(c C02ReloadCase) error {
	e := twig.New()
	e.SetAutoReload(true)
	var write func(version int) error
	if c.Files {
		root, err := os.MkdirTemp(workDir(), "c02reload-")
		if err != nil {
			return fmt.Errorf("harness: %v", err)
		}
		defer os.RemoveAll(root)
		e.RegisterLoader(twig.NewFileSystemLoader([]string{root}))
		write = func(version int) error {
			for _, n := range []string{"page", "part"} {
				p := filepath.Join(root, n+".twig")
				src := fmt.Sprintf("%s-v%d{{ v }}", n, version)
				if n == "page" {
					src += "{% include 'part' %}"
				}
				if err := os.WriteFile(p, []byte(src), 0o644); err != nil {
					return err
				}
				ts := time.Unix(1700000000+int64(version)*10, 0)
				os.Chtimes(p, ts, ts)
			}
			return nil
		}
	} else {
		l := &c02TSLoader{src: map[string]string{}, ts: map[string]int64{}, slow: true}
		e.RegisterLoader(l)
		write = func(version int) error {
			l.mu.Lock()
			defer l.mu.Unlock()
			l.src["page"] = fmt.Sprintf("page-v%d{{ v }}{%% include 'part' %%}", version)
			l.src["part"] = fmt.Sprintf("part-v%d{{ v }}", version)
			l.ts["page"], l.ts["part"] = int64(1000+version*10), int64(1000+version*10)
			return nil
		}
	}
	for wave := 1; wave <= c.Waves; wave++ {
		if err := write(wave); err != nil {
			return fmt.Errorf("harness: %v", err)
		}
		var wg sync.WaitGroup
		errs := make(chan error, c.Goroutines)
		start := make(chan struct{})
		for g := 0; g < c.Goroutines; g++ {
			wg.Add(1)
			go func(g int) {
				defer wg.Done()
				<-start
				want := fmt.Sprintf("page-v%d%dpart-v%d%d", wave, g, wave, g)
				r := render(e, "page", map[string]interface{}{"v": g})
				if r.Failed() || r.Out != want {
					errs <- fmt.Errorf("wave %d (all %d calls start after version %d was written): goroutine %d got %v, want %s", wave, c.Goroutines, wave, g, r, q(want))
				}
			}(g)
		}
		close(start)
		wg.Wait()
		close(errs)
		for err := range errs {
			return err
		}
	}
	return nil
}

func TestC02Reload(t *testing.T) {
	r := NewRec(t, "C02", "auto-reload on; 12 (thorough 60) waves of 8 / 32 concurrent Render calls on one name with an include, the sources rewritten (newer timestamp) between the waves while nothing is in flight; timestamp-aware in-memory loader that takes 2 ms per read, and FileSystemLoader; oracle: every call of a wave returns the version written before the wave; under the race detector; all cases non-trivial")
	defer r.Flush()
	for _, files := range []bool{false, true} {
		for _, g := range []int{8, 32} {
			c := C02ReloadCase{Goroutines: g, Waves: scale(12, 60), Files: files}
			r.Case(fmt.Sprint(c), true, c)
			r.Case(fmt.Sprint(c, "b"), true, c)
			if err := checkC02Reload(c); err != nil {
				r.FailEnum(t, "C02.reload", c, err)
			}
		}
	}
}

func init() {
	reg("C02.deep", checkC02Deep)
	reg("C02.reload", checkC02Reload)
}
