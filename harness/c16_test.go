package vh

// C16 — a compiled template is interchangeable with its source.
//
// (a) Deserialize(Serialize(c)) == c field-wise for arbitrary names/sources/timestamps/AST
// bytes; (b) render_B(LoadFromCompiledData(Serialize(Compile(t)))) == render_A(t) on a second
// engine (also with other cache settings and with the AST bytes replaced by garbage, the
// documented fallback), and == the reference model where it applies; (c) files written by
// CompiledLoader.SaveCompiled are read back identically by Load / LoadAll on a fresh engine.

import (
	"bytes"
	"errors"
	"fmt"
	"os"
	"path/filepath"
	"strings"
	"testing"

	"github.com/semihalev/twig"
	"pgregory.net/rapid"
)

type C16RoundTrip struct {
	Name         BStr  `json:"name"`
	Source       BStr  `json:"source"`
	SourceRepeat int   `json:"source_repeat"` // the source is Source repeated this many times
	LastModified int64 `json:"last_modified"`
	CompileTime  int64 `json:"compile_time"`
	AST          BStr  `json:"ast"`
	ASTRepeat    int   `json:"ast_repeat"`
}

func (c C16RoundTrip) build() *twig.CompiledTemplate {
	rep := func(s BStr, n int) string {
		if n <= 1 {
			return string(s)
		}
		return strings.Repeat(string(s), n)
	}
	return &twig.CompiledTemplate{Name: string(c.Name), Source: rep(c.Source, c.SourceRepeat), LastModified: c.LastModified, CompileTime: c.CompileTime, AST: []byte(rep(c.AST, c.ASTRepeat))}
}

func checkC16RoundTrip(c C16RoundTrip) error {
	in := c.build()
	var data []byte
	r := guard(func() (string, error) {
		d, err := twig.SerializeCompiledTemplate(in)
		data = d
		return "", err
	})
	if r.Failed() {
		return fmt.Errorf("serialize failed: %v", r)
	}
	// another template of the same size is serialised before the first result is used: the
	// bytes handed out for the first must be the caller's own
	other := &twig.CompiledTemplate{Name: "other", Source: strings.Repeat("Z", len(in.Source)), LastModified: 1, CompileTime: 2, AST: bytes.Repeat([]byte{0xEE}, len(in.AST))}
	keep := append([]byte(nil), data...)
	if r := guard(func() (string, error) { _, err := twig.SerializeCompiledTemplate(other); return "", err }); r.Failed() {
		return fmt.Errorf("serialize of a second template failed: %v", r)
	}
	if !bytes.Equal(keep, data) {
		return fmt.Errorf("the bytes returned by SerializeCompiledTemplate (%d bytes) changed when another template was serialised afterwards", len(data))
	}
	var out *twig.CompiledTemplate
	r = guard(func() (string, error) {
		o, err := twig.DeserializeCompiledTemplate(data)
		out = o
		return "", err
	})
	if r.Failed() {
		return fmt.Errorf("deserialize of freshly serialized data failed: %v (name %d bytes, source %d bytes, ast %d bytes)", r, len(in.Name), len(in.Source), len(in.AST))
	}
	// the caller's byte slice is the caller's: overwriting it afterwards must not reach the result
	for i := range data {
		data[i] = 0xA5
	}
	switch {
	case out.Name != in.Name:
		return fmt.Errorf("name differs after round trip (and after the input bytes were overwritten): %s vs %s", q(trunc(out.Name)), q(trunc(in.Name)))
	case out.Source != in.Source:
		return fmt.Errorf("source differs after round trip (len %d vs %d)", len(out.Source), len(in.Source))
	case out.LastModified != in.LastModified || out.CompileTime != in.CompileTime:
		return fmt.Errorf("timestamps differ after round trip: (%d,%d) vs (%d,%d)", out.LastModified, out.CompileTime, in.LastModified, in.CompileTime)
	case !bytes.Equal(out.AST, in.AST):
		return fmt.Errorf("AST bytes differ after round trip (len %d vs %d)", len(out.AST), len(in.AST))
	}
	return nil
}

func trunc(s string) string {
	if len(s) > 80 {
		return s[:80] + "…"
	}
	return s
}

func TestC16RoundTrip(t *testing.T) {
	r := NewRec(t, "C16", "CompiledTemplate values with arbitrary name/source bytes (empty, binary, invalid UTF-8, lengths at 0/1/255/256/65535/65536/1 MB, thorough 32 MB), arbitrary int64 timestamps (negative, min, max) and arbitrary AST bytes; oracle: Deserialize(Serialize(c)) == c field-wise, the serialised bytes stay as they are while another template of the same size is serialised, and the result survives overwriting the input bytes; non-trivial = source length >= 256 or non-UTF-8 bytes or extreme timestamps; distinct by value")
	defer r.Flush()
	rapid.Check(t, func(rt *rapid.T) {
		unit := func(label string) BStr {
			switch rapid.IntRange(0, 3).Draw(rt, label+"k") {
			case 0:
				return ""
			case 1:
				return BStr(rapid.SliceOfN(rapid.Byte(), 1, 40).Draw(rt, label+"b"))
			case 2:
				return BStr(rapid.String().Draw(rt, label+"s"))
			default:
				return BStr(rapid.SampledFrom([]string{"{{ x }}", "\x00", "\xff\xfe", "{% if a %}b{% endif %}", "é", "a"}).Draw(rt, label+"p"))
			}
		}
		sizes := []int{0, 1, 2, 255, 256, 257, 65535, 65536, 65537, 1 << 20}
		if thorough() {
			sizes = append(sizes, 32<<20)
		}
		c := C16RoundTrip{Name: unit("name"), Source: unit("src"), AST: unit("ast"),
			LastModified: rapid.SampledFrom([]int64{0, 1, -1, 1 << 62, -1 << 63, 1<<63 - 1, 1700000000}).Draw(rt, "lm"),
			CompileTime:  rapid.Int64().Draw(rt, "ct")}
		if len(c.Source) > 0 && rapid.IntRange(0, 2).Draw(rt, "big") == 0 {
			target := rapid.SampledFrom(sizes).Draw(rt, "size")
			c.SourceRepeat = target/len(c.Source) + 1
		}
		if len(c.Name) > 0 && rapid.IntRange(0, 5).Draw(rt, "bigname") == 0 {
			c.Name = BStr(strings.Repeat(string(c.Name), rapid.SampledFrom([]int{7, 300, 70000}).Draw(rt, "namerep")))
		}
		if len(c.AST) > 0 && rapid.IntRange(0, 3).Draw(rt, "bigast") == 0 {
			c.ASTRepeat = rapid.SampledFrom([]int{10, 256, 65536 / len(c.AST), 70000}).Draw(rt, "astrep")
		}
		in := c.build()
		nt := len(in.Source) >= 256 || !isASCII(in.Source) || !isASCII(in.Name) || c.LastModified < 0 || c.LastModified > 1<<40
		r.Case(fmt.Sprintf("%q/%q/%d/%d/%d/%q/%d", c.Name, c.Source, c.SourceRepeat, c.LastModified, c.CompileTime, c.AST, c.ASTRepeat), nt,
			map[string]interface{}{"name_len": len(in.Name), "source_len": len(in.Source), "ast_len": len(in.AST), "last_modified": c.LastModified}, fmt.Sprintf("source-size-class:%d", sizeClass(len(in.Source))))
		if err := checkC16RoundTrip(c); err != nil {
			r.Fail(rt, "C16.roundtrip", c, err)
		}
	})
}

func sizeClass(n int) int {
	c := 0
	for n > 0 {
		n >>= 4
		c++
	}
	return c
}

// ---- (b) compiled == source ---------------------------------------------------------------------

type C16RenderCase struct {
	Ctx  Ctx    `json:"ctx"`
	Set  TSet   `json:"set"`
	Main string `json:"main"`
}

func checkC16Render(c C16RenderCase) error {
	srcs := c.Set.Sources(SPrint{})
	ctx := c.Ctx.Go()
	eA := newEngine(srcs)
	NewSpies().Install(eA)
	eA.EnableSandbox(allowAll{})
	want := render(eA, c.Main, ctx)
	if want.Panic != "" {
		return fmt.Errorf("source render panicked: %s", want.Panic)
	}
	// compile every template of the set on A, serialise
	blobs := map[string][]byte{}
	for name := range srcs {
		name := name
		r := guard(func() (string, error) {
			ct, err := eA.CompileTemplate(name)
			if err != nil {
				return "", err
			}
			if ct.Name != name || ct.Source != srcs[name] {
				return "", fmt.Errorf("compiled template holds name %q / a different source", ct.Name)
			}
			b, err := twig.SerializeCompiledTemplate(ct)
			blobs[name] = b
			return "", err
		})
		if r.Failed() {
			if want.Err != "" {
				continue // a template of the set does not parse: the source render fails as well
			}
			return fmt.Errorf("compiling %q failed: %v; templates:%s", name, r, showSources(srcs))
		}
	}
	// the same set compiled from an engine on which the templates were registered (they carry
	// the registration time as their timestamp) instead of loaded
	blobsReg := map[string][]byte{}
	eR := twig.New()
	NewSpies().Install(eR)
	eR.EnableSandbox(allowAll{})
	for name, src := range srcs {
		eR.RegisterString(name, src)
	}
	for name := range blobs {
		if ct, err := eR.CompileTemplate(name); err == nil {
			if b, err := twig.SerializeCompiledTemplate(ct); err == nil {
				blobsReg[name] = b
			}
		}
	}
	for variant := 0; variant < 5; variant++ {
		eB := twig.New()
		NewSpies().Install(eB)
		eB.EnableSandbox(allowAll{})
		what := "second engine"
		use := blobs
		if variant == 3 || variant == 4 {
			// the target engine already holds other templates under the same names (registered
			// within the same second as the compiled ones): registering the compiled form must
			// replace them
			what = "second engine that already had templates under these names"
			for name := range blobs {
				eB.RegisterString(name, "STALE("+name+")")
			}
			if variant == 4 {
				if len(blobsReg) != len(blobs) {
					continue
				}
				use = blobsReg
				what += " (compiled from registered templates)"
			}
		}
		for name, b := range use {
			data := b
			if variant == 2 {
				// documented fallback: AST bytes that do not decode => the stored source is parsed
				ct, err := twig.DeserializeCompiledTemplate(b)
				if err != nil {
					return fmt.Errorf("deserialize failed: %v", err)
				}
				ct.AST = []byte("\x07garbage that is not a gob stream")
				data, _ = twig.SerializeCompiledTemplate(ct)
				what = "second engine, AST replaced by garbage"
			}
			if variant%2 == 0 {
				// the template was last modified long before it was compiled (a file compiled later)
				ct, err := twig.DeserializeCompiledTemplate(data)
				if err != nil {
					return fmt.Errorf("deserialize failed: %v", err)
				}
				ct.LastModified = 1500000000 + int64(variant)
				data, _ = twig.SerializeCompiledTemplate(ct)
			}
			orig, err := twig.DeserializeCompiledTemplate(data)
			if err != nil {
				return fmt.Errorf("deserialize failed: %v", err)
			}
			// the engine is handed a buffer the caller reuses afterwards
			buf := append([]byte(nil), data...)
			r := guard(func() (string, error) { return "", eB.LoadFromCompiledData(buf) })
			for i := range buf {
				buf[i] = 0
			}
			if r.Failed() {
				return fmt.Errorf("%s: LoadFromCompiledData(%q) failed: %v", what, name, r)
			}
			// compiled again on the receiving engine: name, source and modification time are the ones
			// that were loaded
			if again, err := eB.CompileTemplate(name); err != nil {
				return fmt.Errorf("%s: CompileTemplate(%q) after LoadFromCompiledData failed: %v", what, name, err)
			} else if again.Name != orig.Name || again.Source != orig.Source || (again.LastModified != orig.LastModified && orig.LastModified != 0) {
				// (a modification time of 0 means "not set": RegisterTemplate documents that it puts the
				// registration time there)
				return fmt.Errorf("%s: %q loaded from compiled data and compiled again has name %q, %d source bytes, modification time %d; the loaded data had %q, %d, %d", what, name, again.Name, len(again.Source), again.LastModified, orig.Name, len(orig.Source), orig.LastModified)
			}
		}
		if variant == 1 {
			what = "second engine with auto-reload on"
			eB.SetAutoReload(true)
		}
		for round := 1; round <= 2; round++ {
			got := render(eB, c.Main, ctx)
			if got.Panic != "" {
				return fmt.Errorf("%s: render %d panicked: %s; templates:%s", what, round, got.Panic, showSources(srcs))
			}
			if (got.Err != "") != (want.Err != "") || got.Out != want.Out {
				return fmt.Errorf("%s, render %d: compiled form renders %v, source renders %v; templates:%s", what, round, got, want, showSources(srcs))
			}
		}
	}
	m := runModel(c.Set, c.Main, c.Ctx, 0)
	if !m.domain && !m.failed && want.Err == "" && m.out != want.Out {
		return fmt.Errorf("source render %s differs from the model %s; templates:%s", q(want.Out), q(m.out), showSources(srcs))
	}
	return nil
}

func TestC16Render(t *testing.T) {
	r := NewRec(t, "C16", "template sets from the structural generators (control flow, inheritance, includes, macros in five call forms, apply/spaceless) compiled on engine A, serialised, loaded with LoadFromCompiledData on a fresh engine B (plain, with auto-reload, with the AST bytes replaced by garbage, and on engines that already hold other templates under the same names, compiled from loaded and from registered templates) and rendered twice; oracle: identical to the source render on A and to the reference model; non-trivial = the set has >= 2 templates or the main template has >= 3 node kinds; distinct by source set")
	defer r.Flush()
	rapid.Check(t, func(rt *rapid.T) {
		sc, kind := genStructured(rt)
		if rapid.IntRange(0, 5).Draw(rt, "relative") == 0 {
			// names with directories and template names relative to them
			kind = "relative-names"
			v := Ctx{}
			v.Set("v", Int(int64(rapid.IntRange(1, 9).Draw(rt, "v"))))
			sc = SetCase{Ctx: v, Main: "a/page", Set: TSet{
				{Name: "shared/base", Body: []*S{Text("base["), {K: "block", Name: "body", Body: []*S{Text("dflt")}}, Text("]")}},
				{Name: "a/page", Extends: Str("../shared/base"), Body: []*S{{K: "block", Name: "body", Body: []*S{Text("A:"), {K: "include", E: Str("./part")}, {K: "import", E: Str("./macros"), Name: "lib"}, Print(&E{K: "mcall", S: "tag", M: "import", A: []*E{Var("v")}})}}}},
				{Name: "a/part", Body: []*S{Text("partA("), Print(Var("v")), Text(")"), {K: "include", E: Str("../shared/leaf")}}},
				{Name: "a/macros", Body: []*S{{K: "macro", Name: "tag", Params: []Param{{Name: "x"}}, Body: []*S{Text("<A"), Print(Var("x")), Text(">")}}}},
				{Name: "shared/leaf", Body: []*S{Text("leaf")}},
			}}
		}
		c := C16RenderCase{Ctx: sc.Ctx, Set: sc.Set, Main: sc.Main}
		srcs := c.Set.Sources(SPrint{})
		kinds := 0
		for _, k := range []string{"{{", "{% if", "{% for", "{% set", "{% block", "{% include", "{% macro", "{% apply", "{% spaceless"} {
			if strings.Contains(srcs[c.Main], k) {
				kinds++
			}
		}
		r.Case(showSources(srcs)+showModel(c.Ctx.Model()), len(c.Set) >= 2 || kinds >= 3, srcs, "structure:"+kind)
		if err := checkC16Render(c); err != nil {
			r.Fail(rt, "C16.render", c, err)
		}
	})
}

// ---- (c) files written by the compiled loader ---------------------------------------------------

type C16FileCase struct {
	Name   string `json:"name"`
	Source BStr   `json:"source"`
	Repeat int    `json:"repeat"`
}

func workDir() string {
	d := os.Getenv("VERIF_WORK")
	if d == "" {
		d = os.TempDir()
	}
	return d
}

func checkC16File(c C16FileCase) error {
	src := string(c.Source)
	if c.Repeat > 1 {
		src = strings.Repeat(src, c.Repeat)
	}
	dir, err := os.MkdirTemp(workDir(), "c16-")
	if err != nil {
		return fmt.Errorf("harness: %v", err)
	}
	defer os.RemoveAll(dir)
	eA := newEngine(map[string]string{c.Name: src})
	want := render(eA, c.Name, map[string]interface{}{"x": "X"})
	if want.Err != "" {
		return nil // not a valid template: nothing to save
	}
	cl := twig.NewCompiledLoader(dir)
	if r := guard(func() (string, error) { return "", cl.SaveCompiled(eA, c.Name) }); r.Failed() {
		return fmt.Errorf("SaveCompiled failed: %v", r)
	}
	if _, err := os.Stat(filepath.Join(dir, c.Name+".twig.compiled")); err != nil {
		return fmt.Errorf("SaveCompiled wrote no file: %v", err)
	}
	// read back through Load
	cl2 := twig.NewCompiledLoader(dir)
	var back string
	if r := guard(func() (string, error) { s, err := cl2.Load(c.Name); back = s; return "", err }); r.Failed() {
		return fmt.Errorf("CompiledLoader.Load failed: %v", r)
	}
	if back != src {
		return fmt.Errorf("source read back from the compiled file differs (len %d vs %d)", len(back), len(src))
	}
	if !cl2.Exists(c.Name) || cl2.Exists(c.Name+"x") {
		return fmt.Errorf("Exists is inconsistent with the files on disk")
	}
	mt, err := cl2.GetModifiedTime(c.Name)
	st, _ := os.Stat(filepath.Join(dir, c.Name+".twig.compiled"))
	if err != nil || mt != st.ModTime().Unix() {
		return fmt.Errorf("GetModifiedTime = %d, %v; file mtime %d", mt, err, st.ModTime().Unix())
	}
	// the file is rewritten from a different template of the same length (typically within
	// the same second): the loader instance that read the old file must read the new one
	src2 := strings.Replace(src, "{% if x %}y{% endif %}", "{% if x %}z{% endif %}", 1)
	if src2 != src {
		eA2 := newEngine(map[string]string{c.Name: src2})
		if r := guard(func() (string, error) { return "", cl.SaveCompiled(eA2, c.Name) }); r.Failed() {
			return fmt.Errorf("second SaveCompiled failed: %v", r)
		}
		for _, l := range []*twig.CompiledLoader{cl2, cl} {
			var again string
			if r := guard(func() (string, error) { s, err := l.Load(c.Name); again = s; return "", err }); r.Failed() {
				return fmt.Errorf("CompiledLoader.Load after rewriting the file failed: %v", r)
			}
			if again != src2 {
				return fmt.Errorf("after the compiled file was rewritten (same length, %d bytes) Load still returns the old source", len(src2))
			}
		}
		if r := guard(func() (string, error) { return "", cl.SaveCompiled(eA, c.Name) }); r.Failed() {
			return fmt.Errorf("third SaveCompiled failed: %v", r)
		}
	}
	// CompileAll of an engine, then of an engine holding changed sources under the same names,
	// into the same directory: the directory must hold the second state
	if src2 != src {
		dir2, err := os.MkdirTemp(workDir(), "c16all-")
		if err != nil {
			return fmt.Errorf("harness: %v", err)
		}
		defer os.RemoveAll(dir2)
		for round, set := range []map[string]string{{c.Name: src, "other": "O1{{ x }}"}, {c.Name: src2, "other": "O2{{ x }}"}} {
			eC := newEngine(set)
			for n := range set {
				if r := render(eC, n, map[string]interface{}{"x": "X"}); r.Failed() {
					return nil
				}
			}
			if r := guard(func() (string, error) { return "", twig.NewCompiledLoader(dir2).CompileAll(eC) }); r.Failed() {
				return fmt.Errorf("CompileAll (round %d) failed: %v", round+1, r)
			}
			for n, want := range set {
				var got string
				if r := guard(func() (string, error) { s, err := twig.NewCompiledLoader(dir2).Load(n); got = s; return "", err }); r.Failed() || got != want {
					return fmt.Errorf("after CompileAll round %d the compiled file of %q holds a source of %d bytes (%v), the engine's template has %d bytes", round+1, n, len(got), r, len(want))
				}
			}
		}
	}
	// names that differ only in a path separator versus another character are different templates
	if !strings.Contains(c.Name, "/") {
		dir3, err := os.MkdirTemp(workDir(), "c16names-")
		if err != nil {
			return fmt.Errorf("harness: %v", err)
		}
		defer os.RemoveAll(dir3)
		os.MkdirAll(filepath.Join(dir3, "sub"), 0o755)
		pair := map[string]string{"sub/" + c.Name: "NESTED{{ x }}", "sub_" + c.Name: "FLAT{{ x }}", "sub-" + c.Name: "DASH{{ x }}", "sub." + c.Name: "DOT{{ x }}"}
		eN := newEngine(pair)
		cl3 := twig.NewCompiledLoader(dir3)
		for _, n := range sortedTemplateNames(pair) {
			if r := render(eN, n, map[string]interface{}{"x": "X"}); r.Failed() {
				return fmt.Errorf("harness: %v", r)
			}
			if r := guard(func() (string, error) { return "", cl3.SaveCompiled(eN, n) }); r.Failed() {
				return fmt.Errorf("SaveCompiled(%q) failed: %v", n, r)
			}
		}
		for n, want := range pair {
			var got string
			if r := guard(func() (string, error) { s, err := twig.NewCompiledLoader(dir3).Load(n); got = s; return "", err }); r.Failed() || got != want {
				return fmt.Errorf("compiled files of names that differ only in a separator: Load(%q) gives %s (%v), want %s", n, q(got), r, q(want))
			}
		}
	}
	// a name without a compiled file is "not found" (and nothing else), so that a template served
	// from compiled files can include it with `ignore missing`
	if _, err := twig.NewCompiledLoader(dir).Load(c.Name + "-absent"); err == nil || !errors.Is(err, twig.ErrTemplateNotFound) {
		return fmt.Errorf("CompiledLoader.Load of a name without a file: error %v does not match ErrTemplateNotFound", err)
	}
	eI := newEngine(map[string]string{"im": "A{% include 'zz-absent' ignore missing %}B{{ x }}"})
	if r := guard(func() (string, error) { return "", cl.SaveCompiled(eI, "im") }); r.Failed() {
		return fmt.Errorf("SaveCompiled failed: %v", r)
	}
	eM := twig.New()
	eM.RegisterLoader(twig.NewCompiledLoader(dir))
	if r := render(eM, "im", map[string]interface{}{"x": "X"}); r.Failed() || r.Out != "ABX" {
		return fmt.Errorf("a template with an `ignore missing` include of an absent name, served from compiled files, renders %v; from source it renders \"ABX\"", r)
	}
	// a template registered under a name of the caller's choice (a parsed template carries none of
	// its own) is saved under that name and read back under it
	if tp, err := eA.ParseTemplate(src); err == nil {
		eA.RegisterTemplate("given-"+c.Name, tp)
		if r := guard(func() (string, error) { return "", cl.SaveCompiled(eA, "given-"+c.Name) }); r.Failed() {
			return fmt.Errorf("SaveCompiled of a template registered with RegisterTemplate failed: %v", r)
		}
		clN := twig.NewCompiledLoader(dir)
		var got string
		if r := guard(func() (string, error) { s, err := clN.Load("given-" + c.Name); got = s; return "", err }); r.Failed() || got != src || !clN.Exists("given-"+c.Name) {
			return fmt.Errorf("a template registered as %q with RegisterTemplate and saved: Load gives %d bytes (%v), Exists %v; the source has %d bytes", "given-"+c.Name, len(got), r, clN.Exists("given-"+c.Name), len(src))
		}
		if r := render(eM, "given-"+c.Name, map[string]interface{}{"x": "X"}); r.Failed() || r.Out != want.Out {
			return fmt.Errorf("a template registered as %q with RegisterTemplate, saved and served from the compiled file renders %v, the source renders %v", "given-"+c.Name, r, want)
		}
	}
	// LoadAll on a fresh engine
	eB := twig.New()
	if r := guard(func() (string, error) { return "", twig.NewCompiledLoader(dir).LoadAll(eB) }); r.Failed() {
		return fmt.Errorf("LoadAll failed: %v", r)
	}
	got := render(eB, c.Name, map[string]interface{}{"x": "X"})
	if got.Failed() || got.Out != want.Out {
		return fmt.Errorf("template loaded from the compiled file renders %v, source renders %v", got, want)
	}
	return nil
}

func TestC16Files(t *testing.T) {
	r := NewRec(t, "C16", "templates (text over all bytes + a print + an if, sizes up to 100 KB) saved with CompiledLoader.SaveCompiled and read back with Load / Exists / GetModifiedTime / LoadAll on a fresh engine, rewritten from a different template of the same length and read again by the same loader instance, CompileAll run twice with changed sources, a name without a file (`ignore missing` through the compiled loader), a nameless parsed template registered with RegisterTemplate; oracle: identical source and output; non-trivial = source >= 256 bytes or non-ASCII; distinct by (name, source)")
	defer r.Flush()
	rapid.Check(t, func(rt *rapid.T) {
		text, _ := fixTextBeforeTag(breakDelims(genText(rt, 40)))
		c := C16FileCase{Name: rapid.SampledFrom([]string{"page", "a.b", "with space", "UPPER", "x_1", "sub/page", "a/b/c", "emails/welcome.html"}).Draw(rt, "name"),
			Source: BStr(text + "{{ x }}{% if x %}y{% endif %}" + breakDelims(genText(rt, 10)))}
		if rapid.IntRange(0, 3).Draw(rt, "big") == 0 {
			c.Repeat = rapid.SampledFrom([]int{10, 200, 3000}).Draw(rt, "rep")
		}
		n := len(c.Source) * maxInt(1, c.Repeat)
		r.Case(fmt.Sprintf("%s/%q/%d", c.Name, c.Source, c.Repeat), n >= 256 || !isASCII(string(c.Source)), map[string]interface{}{"name": c.Name, "len": n})
		if err := checkC16File(c); err != nil {
			r.Fail(rt, "C16.file", c, err)
		}
	})
}

func maxInt(a, b int) int {
	if a > b {
		return a
	}
	return b
}

// ---- sources without print or block tags ------------------------------------------------------------

type C16StaticCase struct {
	Src BStr `json:"src"`
}

// checkC16Static: a source made of text, comments and escaped delimiters only renders the same from
// its compiled form (with the stored AST, and with the AST dropped so that the source is used).
func checkC16Static(c C16StaticCase) error {
	src := string(c.Src)
	eA := newEngine(map[string]string{"main": src, "outer": "[{% include 'main' %}]"})
	want := render(eA, "main", map[string]interface{}{"v": "V"})
	if want.Panic != "" {
		return fmt.Errorf("source render panicked: %s", want.Panic)
	}
	ct, err := eA.CompileTemplate("main")
	if err != nil {
		if want.Err != "" {
			return nil // does not parse: fails from source as well
		}
		return fmt.Errorf("compiling %s failed: %v", q(trunc(src)), err)
	}
	for variant := 0; variant < 2; variant++ {
		cp := *ct
		what := "compiled form"
		if variant == 1 {
			cp.AST = nil
			what = "compiled form without the AST"
		}
		data, err := twig.SerializeCompiledTemplate(&cp)
		if err != nil {
			return fmt.Errorf("serialize failed: %v", err)
		}
		eB := twig.New()
		eB.RegisterString("outer", "[{% include 'main' %}]")
		if r := guard(func() (string, error) { return "", eB.LoadFromCompiledData(data) }); r.Failed() {
			if want.Err != "" {
				continue
			}
			return fmt.Errorf("%s: LoadFromCompiledData failed: %v; source %s", what, r, q(trunc(src)))
		}
		for _, name := range []string{"main", "outer"} {
			w := want
			if name == "outer" {
				w = render(eA, "outer", map[string]interface{}{"v": "V"})
			}
			got := render(eB, name, map[string]interface{}{"v": "V"})
			if got.Panic != "" || (got.Err != "") != (w.Err != "") || got.Out != w.Out {
				return fmt.Errorf("%s of %s renders %v (as %q), the source renders %v", what, q(trunc(src)), got, name, w)
			}
		}
	}
	return nil
}

func TestC16Static(t *testing.T) {
	r := NewRec(t, "C16", "exhaustive: 40 sources without print or block tags (plain text, comments in every position, dashed comments, escaped delimiters, lone braces, tag syntax inside comments, unclosed comments) x {as written, padded beyond 4096 bytes}; compiled, serialised, loaded into a second engine with and without the AST, rendered directly and through an include; oracle: same result as the source; non-trivial = the source contains a comment or an escape")
	defer r.Flush()
	r.SetExhaustive()
	srcs := []string{"", "plain", "a{# c #}b", "{# only #}", "{##}", "x {#- c -#} y", "x{#- c #} y", "x {# c -#}y", "\\{{ v }}", "a\\{% if v %}", "a\\{# c #}", "{", "{ {", "}}", "%}", "#}", "a{# {{ v }} #}b", "a{# {% if %} #}b",
		"line1\n{# c #}\nline2", "{# a #}{# b #}", "{# a #} {# b #}", "t{# a #}", "{# a #}t", "{#", "a{#", "{# {# nested #}", "{#}", "{# # #}", "{# } #}", "\u00e9{# \u00e9 #}\u00e9", "\xff{# \xfe #}\xfd",
		"\x00{# \x00 #}\x00", "a{ # c # }b", "a{#c#}b{#d#}c{#e#}d", "<style>a{b:c}</style>{# css #}", "{a}{# c #}{b}", "$ {# c #} %", "{{# c #}", "{# c #}}", "{%# c #}"}
	pad := strings.Repeat("0123456789abcdef", 260)
	for _, s0 := range srcs {
		for _, s1 := range []string{s0, s0 + pad, pad + s0} {
			c := C16StaticCase{Src: BStr(s1)}
			r.Case(s1, strings.Contains(s0, "{#") || strings.Contains(s0, "\\"), q(trunc(s1)))
			if err := checkC16Static(c); err != nil {
				r.FailEnum(t, "C16.static", c, err)
			}
		}
	}
}

func init() {
	reg("C16.static", checkC16Static)
	reg("C16.roundtrip", checkC16RoundTrip)
	reg("C16.render", checkC16Render)
	reg("C16.file", checkC16File)
}

// TestC16Large: very large sources through every compiled route.
func TestC16Large(t *testing.T) {
	r := NewRec(t, "C16", "exhaustive: sources of 1 MiB, 4 MiB - 1, 4 MiB + 1, 5 MiB, 9 MiB (thorough: 17 MiB, 33 MiB) through serialise / deserialise, SaveCompiled / Load / LoadAll and LoadFromCompiledData; oracle as in TestC16Files and TestC16RoundTrip; all cases non-trivial")
	defer r.Flush()
	r.SetExhaustive()
	unit := "0123456789abcdef0123456789abcdef0123456789abcdef0123456789abcde\n" // 64 bytes
	sizes := []int{1 << 20, 4<<20 - 1, 4<<20 + 1, 5 << 20, 9 << 20}
	if scale(0, 1) == 1 {
		sizes = append(sizes, 17<<20, 33<<20)
	}
	for _, n := range sizes {
		src := strings.Repeat(unit, n/64) + strings.Repeat("z", n%64)
		_ = src
		tagUnit := "{{ x }}{% if x %}y{% endif %}" + strings.Repeat(unit, 16) // ~1 KiB
		fc := C16FileCase{Name: "big", Source: BStr(tagUnit), Repeat: n/len(tagUnit) + 1}
		r.Case(fmt.Sprint("file", n), true, fmt.Sprintf("%d bytes through the compiled loader", n))
		if err := checkC16File(fc); err != nil {
			r.FailEnum(t, "C16.file", fc, fmt.Errorf("source of %d bytes: %v", n, err))
		}
		rc := C16RoundTrip{Name: "big", Source: BStr(unit), SourceRepeat: n / 64, LastModified: 1700000000, CompileTime: 1700000001, AST: "ast"}
		r.Case(fmt.Sprint("rt", n), true, fmt.Sprintf("%d bytes through serialise / deserialise", n))
		if err := checkC16RoundTrip(rc); err != nil {
			r.FailEnum(t, "C16.roundtrip", rc, err)
		}
	}
}

// ---- the other ways into and out of the compiled loader --------------------------------------------------------

type C16WaysCase struct {
	Which int `json:"which"`
}

// checkC16Ways: (0) a template registered as an object keeps its registered name when compiled;
// (1) LoadAll reads the files CompileAll wrote: the engine has the templates afterwards, also when
// the directory is gone; (2) LoadCompiled reads the loader's file for the name.
func checkC16Ways(c C16WaysCase) error {
	dir, err := os.MkdirTemp(workDir(), "c16w-")
	if err != nil {
		return fmt.Errorf("harness: %v", err)
	}
	defer os.RemoveAll(dir)
	srcs := map[string]string{"page": "Hi {{ x }}{% if x %}!{% endif %}", "list": "{% for i in [1, 2] %}{{ i }}{% endfor %}-{{ x|upper }}"}
	ctx := map[string]interface{}{"x": "World"}
	switch c.Which % 3 {
	case 0:
		e1 := twig.New()
		t, err := e1.ParseTemplate(srcs["page"])
		if err != nil {
			return fmt.Errorf("harness: %v", err)
		}
		e1.RegisterTemplate("page", t)
		comp, err := e1.CompileTemplate("page")
		if err != nil {
			return fmt.Errorf("CompileTemplate of a template registered with RegisterTemplate failed: %v", err)
		}
		data, err := twig.SerializeCompiledTemplate(comp)
		if err != nil {
			return fmt.Errorf("harness: %v", err)
		}
		e2 := twig.New()
		if err := e2.LoadFromCompiledData(data); err != nil {
			return fmt.Errorf("LoadFromCompiledData failed: %v", err)
		}
		want, got := render(e1, "page", ctx), render(e2, "page", ctx)
		if want.Failed() || got.Failed() || got.Out != want.Out {
			return fmt.Errorf("a template registered as \"page\" with RegisterTemplate, compiled (compiled name %q) and loaded into a fresh engine: Render(\"page\") gives %v there, %v on the first engine", comp.Name, got, want)
		}
	case 1:
		e1 := newEngine(srcs)
		for n := range srcs {
			if r := render(e1, n, ctx); r.Failed() {
				return fmt.Errorf("harness: %v", r)
			}
		}
		if err := twig.NewCompiledLoader(dir).CompileAll(e1); err != nil {
			return fmt.Errorf("CompileAll failed: %v", err)
		}
		e2 := twig.New()
		if err := twig.NewCompiledLoader(dir).LoadAll(e2); err != nil {
			return fmt.Errorf("LoadAll failed: %v", err)
		}
		os.RemoveAll(dir)
		for n := range srcs {
			want, got := render(e1, n, ctx), render(e2, n, ctx)
			if got.Failed() || got.Out != want.Out {
				return fmt.Errorf("CompileAll wrote %q, LoadAll read the directory into a fresh engine (the directory is gone now): Render gives %v, the first engine %v; cached names after LoadAll: %v", n, got, want, e2.GetCachedTemplateNames())
			}
		}
	default:
		e1 := newEngine(srcs)
		cl := twig.NewCompiledLoader(dir)
		if err := cl.SaveCompiled(e1, "page"); err != nil {
			return fmt.Errorf("SaveCompiled failed: %v", err)
		}
		for i, e2 := range []*twig.Engine{twig.New(), newEngine(map[string]string{"page": "some other source"})} {
			if err := twig.NewCompiledLoader(dir).LoadCompiled(e2, "page"); err != nil {
				return fmt.Errorf("LoadCompiled(\"page\") on %s failed although the loader has the file: %v", []string{"a fresh engine", "an engine whose own loader has another \"page\""}[i], err)
			}
			want, got := render(e1, "page", ctx), render(e2, "page", ctx)
			if got.Failed() || got.Out != want.Out {
				return fmt.Errorf("LoadCompiled(\"page\") on %s: Render gives %v, the compiled source renders %v", []string{"a fresh engine", "an engine whose own loader has another \"page\""}[i], got, want)
			}
		}
	}
	return nil
}

func TestC16Ways(t *testing.T) {
	r := NewRec(t, "C16", "exhaustive: 3 further routes: a template registered as an object, compiled by name and loaded elsewhere; CompileAll then LoadAll into a fresh engine with the directory removed afterwards; SaveCompiled then LoadCompiled on a fresh engine and on one whose own loader has the name; oracle: the same rendering as the first engine; all cases non-trivial")
	defer r.Flush()
	r.SetExhaustive()
	for i := 0; i < 3; i++ {
		c := C16WaysCase{Which: i}
		r.Case(fmt.Sprint(i), true, i)
		if err := checkC16Ways(c); err != nil {
			r.FailEnum(t, "C16.ways", c, err)
		}
	}
}

func init() { reg("C16.ways", checkC16Ways) }
