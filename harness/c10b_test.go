package vh

// C10, second oracle — flattening (metamorphic, independent of the reference interpreter).
//
// "Inheritance is block substitution along the extends chain": the harness performs that
// substitution on the case AST itself — every block of the base layout is replaced in place by
// the body of its most derived definition, every parent() call by the body of the next
// definition up the chain, recursively — and obtains ONE template without extends, block or
// parent(). The engine must render that template and the original chain identically (same
// engine evaluates both, so expression semantics cancel out; only inheritance is compared).

import (
	"fmt"
	"path"
	"strings"
	"testing"

	"pgregory.net/rapid"
)

// c10Chain resolves the extends chain starting at main: templates from most derived to base.
func c10Chain(set TSet, main string, ctx Ctx) ([]*Tmpl, bool) {
	byName := set.Map()
	var chain []*Tmpl
	cur := byName[main]
	for cur != nil && len(chain) < 12 {
		chain = append(chain, cur)
		if cur.Extends == nil {
			return chain, true
		}
		env := &Env{vars: ctx.Model(), m: &Model{}}
		v, err := env.Eval(cur.Extends)
		name, ok := v.(string)
		if err != nil || !ok {
			return nil, false
		}
		if strings.HasPrefix(name, "./") || strings.HasPrefix(name, "../") {
			name = path.Join(path.Dir(cur.Name), name)
		}
		cur = byName[name]
	}
	return nil, false
}

// c10Defs: for every block name, the bodies defined along the chain, most derived first.
// In a child only top-level blocks count (everything else outside blocks is dropped); in
// the base every block counts, wherever it stands.
func c10Defs(chain []*Tmpl) map[string][][]*S {
	defs := map[string][][]*S{}
	var collect func(body []*S, deep bool)
	collect = func(body []*S, deep bool) {
		for _, s := range body {
			if s.K == "block" {
				defs[s.Name] = append(defs[s.Name], s.Body)
				collect(s.Body, true) // blocks nested inside a definition define too
				continue
			}
			if deep {
				collect(s.Body, true)
				collect(s.Else, true)
				for _, b := range s.Bodies {
					collect(b, true)
				}
			}
		}
	}
	for i, t := range chain {
		collect(t.Body, i == len(chain)-1)
	}
	return defs
}

// c10Flatten substitutes blocks and parent() calls in body. level: which definition of the
// enclosing block is being expanded (for parent()); name: the enclosing block.
func c10Flatten(body []*S, defs map[string][][]*S, name string, level int, depth int) ([]*S, bool) {
	if depth > 30 {
		return nil, false
	}
	var out []*S
	for _, s := range body {
		switch s.K {
		case "block":
			d := defs[s.Name]
			if len(d) == 0 {
				return nil, false
			}
			exp, ok := c10Flatten(d[0], defs, s.Name, 0, depth+1)
			if !ok {
				return nil, false
			}
			out = append(out, exp...)
		case "parent":
			d := defs[name]
			if name == "" || level+1 >= len(d) {
				return nil, false // parent() without a parent definition: an error case, not flattened
			}
			exp, ok := c10Flatten(d[level+1], defs, name, level+1, depth+1)
			if !ok {
				return nil, false
			}
			out = append(out, exp...)
		case "comment":
			// contributes nothing
		default:
			cp := *s
			var ok bool
			if cp.Body, ok = c10Flatten(s.Body, defs, name, level, depth+1); !ok {
				return nil, false
			}
			if cp.Else, ok = c10Flatten(s.Else, defs, name, level, depth+1); !ok {
				return nil, false
			}
			if s.Bodies != nil {
				cp.Bodies = make([][]*S, len(s.Bodies))
				for i, b := range s.Bodies {
					if cp.Bodies[i], ok = c10Flatten(b, defs, name, level, depth+1); !ok {
						return nil, false
					}
				}
			}
			out = append(out, &cp)
		}
	}
	return out, true
}

// c10FlatTemplate returns the single template equivalent to rendering main, or ok=false when
// the case is outside what flattening expresses (unresolvable parent name, parent() without a
// parent definition).
func c10FlatTemplate(c SetCase, ctx Ctx) (*Tmpl, bool) {
	main := c.Main
	if main == "" {
		main = "main"
	}
	chain, ok := c10Chain(c.Set, main, ctx)
	if !ok {
		return nil, false
	}
	defs := c10Defs(chain)
	// a block defined in a child but absent from the base never renders: drop nothing, it is
	// simply never reached by the walk below
	flat, ok := c10Flatten(chain[len(chain)-1].Body, defs, "", 0, 0)
	if !ok {
		return nil, false
	}
	return &Tmpl{Name: "flat", Body: flat}, true
}

// c10Relativise moves the chain into nested directories so that every child names its parent
// by the same relative string "../t" (main = d/d/.../t, base = t). Only for static parent names.
func c10Relativise(c SetCase) (SetCase, bool) {
	main := c.Main
	if main == "" {
		main = "main"
	}
	chain, ok := c10Chain(c.Set, main, c.Ctx)
	if !ok || len(chain) < 2 {
		return c, false
	}
	newName := map[string]string{}
	for i, t := range chain {
		if t.Extends != nil && t.Extends.K != "str" {
			return c, false
		}
		newName[t.Name] = strings.Repeat("d/", len(chain)-1-i) + "t"
	}
	var set TSet
	for _, t := range c.Set {
		cp := *t
		if nn, ok := newName[t.Name]; ok {
			cp.Name = nn
			if cp.Extends != nil {
				cp.Extends = Str("../t")
			}
		} else if t.Extends != nil {
			return c, false
		}
		set = append(set, &cp)
	}
	return SetCase{Ctx: c.Ctx, Set: set, Main: newName[main]}, true
}

func checkC10Flat(c SetCase) error {
	ctxs := []Ctx{c.Ctx}
	if c.Ctx2 != nil {
		ctxs = append(ctxs, *c.Ctx2)
	}
	main := c.Main
	if main == "" {
		main = "main"
	}
	srcs := c.Set.Sources(SPrint{})
	for _, ctx := range ctxs {
		flat, ok := c10FlatTemplate(c, ctx)
		if !ok {
			continue
		}
		fsrc := PrintTmpl(flat, SPrint{})
		e1 := newEngine(srcs)
		NewSpies().Install(e1)
		r1 := render(e1, main, zooCtx(ctx, 0))
		all := copyMap(srcs) // templates off the chain (included partials) stay available
		all["flat"] = fsrc
		e2 := newEngine(all)
		NewSpies().Install(e2)
		r2 := render(e2, "flat", zooCtx(ctx, 0))
		if r1.Panic != "" || r2.Panic != "" {
			return fmt.Errorf("panic: chain %v / flattened %v; templates:%s", r1, r2, showSources(srcs))
		}
		if r2.Failed() {
			continue // the flattened program itself fails (an expression error): nothing to compare
		}
		if r1.Failed() || r1.Out != r2.Out {
			return fmt.Errorf("the chain renders %v, the template obtained by substituting the blocks by hand renders %s; templates:%s\nflattened: %s", r1, q(r2.Out), showSources(srcs), q(fsrc))
		}
		// the same two renders on engines that have a global under every context name: the values
		// passed to the render call are the ones every level of the chain sees
		goCtx := zooCtx(ctx, 0)
		for name := range goCtx {
			e1.AddGlobal(name, "GLOBAL")
			e2.AddGlobal(name, "GLOBAL")
		}
		g1, g2 := render(e1, main, zooCtx(ctx, 0)), render(e2, "flat", zooCtx(ctx, 0))
		if g1.Panic != "" || g2.Panic != "" {
			return fmt.Errorf("panic with globals: chain %v / flattened %v; templates:%s", g1, g2, showSources(srcs))
		}
		if !g2.Failed() && (g1.Failed() || g1.Out != g2.Out) {
			return fmt.Errorf("with engine globals named like the context variables the chain renders %v, the template obtained by substituting the blocks by hand renders %s; templates:%s\nflattened: %s", g1, q(g2.Out), showSources(srcs), q(fsrc))
		}
	}
	return nil
}

func TestC10Flatten(t *testing.T) {
	r := NewRec(t, "C10", "the generated extends chains of TestC10Inheritance and the grid of TestC10Grid, compared with the single template obtained by substituting blocks and parent() calls by hand on the case AST (no extends, no block, no parent() left); chains with static parent names are checked a second time laid out in nested directories with every child extending the same relative name '../t'; oracle: identical engine output, also when the engines carry globals named like every context variable; non-trivial as in TestC10Inheritance; cases whose parent() has no parent definition are not flattened (counted)")
	defer r.Flush()
	forEachC10Grid(func(key string, sc SetCase) {
		if _, ok := c10FlatTemplate(sc, sc.Ctx); !ok {
			r.Excl("not expressible by flattening")
			return
		}
		r.Case("grid"+key, true, sc.Set.Sources(SPrint{})["main"], "grid")
		if err := checkC10Flat(sc); err != nil {
			r.FailEnum(t, "C10.flat", sc, err)
		}
		if rc, ok := c10Relativise(sc); ok {
			if err := checkC10Flat(rc); err != nil {
				r.FailEnum(t, "C10.flat", rc, err)
			}
		}
	})
	rapid.Check(t, func(rt *rapid.T) {
		c, st := genInheritance(rt)
		if _, ok := c10FlatTemplate(c, c.Ctx); !ok {
			r.Excl("not expressible by flattening")
			return
		}
		nt := len(c.Set) >= 3 || st["empty-override"] || st["parent()"] || st["block-in-loop"] || st["block-in-if"] || st["block-in-block"]
		srcs := c.Set.Sources(SPrint{})
		r.Case(showSources(srcs), nt, srcs, fmt.Sprintf("chain:%d", len(c.Set)))
		if err := checkC10Flat(c); err != nil {
			r.Fail(rt, "C10.flat", c, err)
		}
		// the same chain laid out in nested directories, every child extending "../t"
		if rc, ok := c10Relativise(c); ok {
			r.Class("relative-parent-names")
			if err := checkC10Flat(rc); err != nil {
				r.Fail(rt, "C10.flat", rc, err)
			}
		}
	})
}

func init() { reg("C10.flat", checkC10Flat) }

// ---- long chains, names that differ only in case ------------------------------------------------------

type C10ScaleCase struct {
	Levels int  `json:"levels"` // templates in the chain
	Parent bool `json:"parent"` // every override calls parent()
	Rel    bool `json:"rel"`    // parents named relative to the child ("./t<i>")
}

// checkC10Scale: a chain of Levels templates; t0 is the layout with blocks a (overridden at every
// level), b (overridden at odd levels) and c (never overridden). Expected text computed directly.
func checkC10Scale(c C10ScaleCase) error {
	tm := map[string]string{"d/t0": "[{% block a %}A0{% endblock %}|{% block b %}B0{% endblock %}|{% block c %}C0{{ v }}{% endblock %}]"}
	wantA, wantB := "A0", "B0"
	for i := 1; i < c.Levels; i++ {
		parent := fmt.Sprintf("'d/t%d'", i-1)
		if c.Rel {
			parent = fmt.Sprintf("'./t%d'", i-1)
		}
		src := "{% extends " + parent + " %}"
		if c.Parent {
			src += fmt.Sprintf("{%% block a %%}a%d({{ parent() }}){%% endblock %%}", i)
			wantA = fmt.Sprintf("a%d(%s)", i, wantA)
		} else {
			src += fmt.Sprintf("{%% block a %%}a%d{%% endblock %%}", i)
			wantA = fmt.Sprintf("a%d", i)
		}
		if i%2 == 1 {
			src += fmt.Sprintf("{%% block b %%}b%d{{ v }}{%% endblock %%}", i)
			wantB = fmt.Sprintf("b%dV", i)
		}
		tm[fmt.Sprintf("d/t%d", i)] = src + " outside "
	}
	want := "[" + wantA + "|" + wantB + "|C0V]"
	r := render(newEngine(tm), fmt.Sprintf("d/t%d", c.Levels-1), map[string]interface{}{"v": "V"})
	if r.Failed() || r.Out != want {
		return fmt.Errorf("a chain of %d templates (parent()=%v, relative names=%v) renders %s, want %s", c.Levels, c.Parent, c.Rel, trunc(fmt.Sprint(r)), q(trunc(want)))
	}
	return nil
}

type C10CaseNames struct {
	Which int `json:"which"`
}

var c10CaseNameSets = []struct {
	tm   map[string]string
	want string
}{
	{map[string]string{"base": "<{% block Title %}T1{% endblock %}|{% block title %}t1{% endblock %}>", "main": "{% extends 'base' %}{% block title %}x{% endblock %}"}, "<T1|x>"},
	{map[string]string{"base": "<{% block content %}c1{% endblock %}>", "main": "{% extends 'base' %}{% block Content %}X{% endblock %}"}, "<c1>"},
	{map[string]string{"base": "<{% block Row %}R{% block row %}r{% endblock %}{% endblock %}>", "main": "{% extends 'base' %}{% block row %}x{% endblock %}"}, "<Rx>"},
	{map[string]string{"base": "<{% block Side %}S1{% endblock %}|{% block side %}s2{% endblock %}>", "mid": "{% extends 'base' %}{% block side %}m({{ parent() }}){% endblock %}",
		"main": "{% extends 'mid' %}{% block Side %}c({{ parent() }}){% endblock %}"}, "<c(S1)|m(s2)>"},
	{map[string]string{"base": "<{% block NAV %}N{% endblock %}{% block nav %}n{% endblock %}{% block Nav %}M{% endblock %}>", "main": "{% extends 'base' %}{% block Nav %}{% endblock %}"}, "<Nn>"},
	{map[string]string{"base": "<{% block a_b %}1{% endblock %}{% block a_B %}2{% endblock %}>", "main": "{% extends 'base' %}{% block a_B %}x{{ parent() }}{% endblock %}"}, "<1x2>"},
	// blocks that stand inside spaceless / apply sections of the layout, or use them in an override
	{map[string]string{"base": "<{% spaceless %}[{% block a %}A{% endblock %}]{% endspaceless %}>", "main": "{% extends 'base' %}{% block a %}x{{ parent() }}{% endblock %}"}, "<[xA]>"},
	{map[string]string{"base": "<{% spaceless %}<i>{% block a %}A{% endblock %}</i> <b>{% block b %}B{% endblock %}</b>{% endspaceless %}>", "main": "{% extends 'base' %}{% block b %}y{% endblock %}"}, "<<i>A</i><b>y</b>>"},
	{map[string]string{"base": "<{% apply upper %}[{% block a %}a{% endblock %}]{% endapply %}>", "main": "{% extends 'base' %}{% block a %}x{{ parent() }}{% endblock %}"}, "<[XA]>"},
	{map[string]string{"base": "<{% block a %}A{% endblock %}>", "main": "{% extends 'base' %}{% block a %}{% spaceless %}<i>x</i> <b>{{ parent() }}</b>{% endspaceless %}{% endblock %}"}, "<<i>x</i><b>A</b>>"},
	{map[string]string{"base": "<{% block a %}a{% endblock %}>", "mid": "{% extends 'base' %}{% block a %}m{{ parent() }}{% endblock %}", "main": "{% extends 'mid' %}{% block a %}{% apply upper %}c{{ parent() }}{% endapply %}{% endblock %}"}, "<CMA>"},
	{map[string]string{"base": "<{% block o %}{% spaceless %}<p>{% block a %}A{% endblock %}</p> {% endspaceless %}{% endblock %}>", "main": "{% extends 'base' %}{% block a %}x{% endblock %}"}, "<<p>x</p> >"},
}

func checkC10CaseNames(c C10CaseNames) error {
	s := c10CaseNameSets[c.Which%len(c10CaseNameSets)]
	r := render(newEngine(s.tm), "main", nil)
	if r.Failed() || r.Out != s.want {
		return fmt.Errorf("every block is replaced by its most-derived definition where it stands (names that differ in case are different blocks; blocks inside spaceless / apply sections are blocks): got %v, want %s; templates:%s", r, q(s.want), showSources(s.tm))
	}
	return nil
}

func TestC10Scale(t *testing.T) {
	r := NewRec(t, "C10", "exhaustive: extends chains of 2..20, 33, 64, 100 templates (every level overrides one block, odd levels a second, a third stays default) with and without parent(), with absolute and relative parent names; six template sets whose block names differ only in letter case, six with blocks inside spaceless / apply sections; expected text computed directly; non-trivial = more than 3 templates or case-variant names")
	defer r.Flush()
	r.SetExhaustive()
	levels := []int{33, 64, 100}
	for n := 2; n <= 20; n++ {
		levels = append(levels, n)
	}
	for _, n := range levels {
		for _, par := range []bool{false, true} {
			for _, rel := range []bool{false, true} {
				c := C10ScaleCase{Levels: n, Parent: par, Rel: rel}
				r.Case(fmt.Sprint(c), n > 3, c)
				if err := checkC10Scale(c); err != nil {
					r.FailEnumKey(t, "C10.scale", fmt.Sprint(par, rel), c, err)
				}
			}
		}
	}
	for i := range c10CaseNameSets {
		c := C10CaseNames{Which: i}
		r.Case(fmt.Sprint("names", i), true, c10CaseNameSets[i].tm)
		if err := checkC10CaseNames(c); err != nil {
			r.FailEnum(t, "C10.names", c, err)
		}
	}
}

func init() {
	reg("C10.scale", checkC10Scale)
	reg("C10.names", checkC10CaseNames)
}

// ---- a block written inside an overriding block ---------------------------------------------------------------

type C10NestedCase struct {
	Which int `json:"which"`
}

var c10NestedSets = []struct {
	tm   map[string]string
	want string
}{
	{map[string]string{"base": "[{% block a %}A{% endblock %}|{% block b %}B{% endblock %}]", "main": "{% extends 'base' %}{% block a %}mA({% block b %}mB{% endblock %}){% endblock %}"}, "[mA(mB)|mB]"},
	{map[string]string{"base": "[{% block a %}A{% endblock %}|{% block b %}B{% endblock %}]", "mid": "{% extends 'base' %}{% block a %}mA({% block b %}mB{% endblock %}){% endblock %}", "main": "{% extends 'mid' %}{% block b %}cB{% endblock %}"}, "[mA(cB)|cB]"},
	{map[string]string{"base": "[{% block a %}A{% endblock %}]", "main": "{% extends 'base' %}{% block a %}mA({% block c %}mC{% endblock %}){% endblock %}"}, "[mA(mC)]"},
	{map[string]string{"base": "[{% block a %}A{% endblock %}]", "mid": "{% extends 'base' %}{% block a %}mA({% block c %}mC{% endblock %}){% endblock %}", "main": "{% extends 'mid' %}{% block c %}cC{% endblock %}"}, "[mA(cC)]"},
	{map[string]string{"base": "[{% block a %}A{% endblock %}|{% block b %}B{% endblock %}]", "main": "{% extends 'base' %}{% block a %}x{% block b %}<{{ parent() }}>{% endblock %}{% endblock %}"}, "[x<B>|<B>]"},
	{map[string]string{"base": "[{% block a %}A({% block b %}B{% endblock %}){% endblock %}]", "main": "{% extends 'base' %}{% block b %}cB{% endblock %}"}, "[A(cB)]"},
	{map[string]string{"base": "[{% block a %}A({% block b %}B{% endblock %}){% endblock %}]", "main": "{% extends 'base' %}{% block a %}nA({% block b %}nB{% endblock %}){% endblock %}"}, "[nA(nB)]"},
	{map[string]string{"base": "[{% block a %}A({% block b %}B{% endblock %}){% endblock %}|{% block c %}C{% endblock %}]", "main": "{% extends 'base' %}{% block a %}{{ parent() }}+{% block c %}nC{% endblock %}{% endblock %}"}, "[A(B)+nC|nC]"},
	{map[string]string{"base": "[{% block a %}A{% endblock %}|{% block b %}B{% endblock %}|{% block c %}C{% endblock %}]", "main": "{% extends 'base' %}{% block a %}1{% block b %}2{% block c %}3{% endblock %}{% endblock %}{% endblock %}"}, "[123|23|3]"},
	{map[string]string{"base": "[{% block a %}A{% endblock %}|{% block b %}B{% endblock %}]", "mid": "{% extends 'base' %}{% block a %}m{% block b %}mB{% endblock %}{% endblock %}", "main": "{% extends 'mid' %}{% block a %}c[{{ parent() }}]{% endblock %}"}, "[c[mmB]|mB]"},
	{map[string]string{"base": "[{% block a %}A{% endblock %}|{% block b %}B{% endblock %}]", "main": "{% extends 'base' %}{% block a %}{% block b %}{% endblock %}{% endblock %}"}, "[|]"},
	// ... and inside a condition, a loop, an apply or a spaceless section of an overriding block
	{map[string]string{"base": "<{% block c %}{% endblock %}>/{% block s %}LS{% endblock %}", "main": "{% extends 'base' %}{% block c %}{% if true %}{% block s %}PS{% endblock %}{% endif %}{% endblock %}"}, "<PS>/PS"},
	{map[string]string{"base": "<{% block c %}{% endblock %}>/{% block s %}LS{% endblock %}", "mid": "{% extends 'base' %}{% block c %}{% if true %}{% block s %}PS{% endblock %}{% endif %}{% endblock %}", "main": "{% extends 'mid' %}{% block s %}[{{ parent() }}]{% endblock %}"}, "<[PS]>/[PS]"},
	{map[string]string{"base": "{% block h %}{% endblock %}|{% for i in [1, 2] %}{% block row %}<{{ i }}>{% endblock %}{% endfor %}", "main": "{% extends 'base' %}{% block h %}{% block row %}[{{ parent() }}]{% endblock %}{% endblock %}"}, "[<>]|[<1>][<2>]"},
	{map[string]string{"base": "{% block outer %}<{% block inner %}x{% endblock %}>{% endblock %}", "main": "{% extends 'base' %}{% block inner %}{% if true %}{% block outer %}MO{% endblock %}{% endif %}{% endblock %}"}, "MO"},
	{map[string]string{"base": "[{% block a %}A{% endblock %}|{% block b %}B{% endblock %}]", "main": "{% extends 'base' %}{% block a %}{% for i in [1, 2] %}{% block b %}bx{% endblock %}{% endfor %}{% endblock %}"}, "[bxbx|bx]"},
	{map[string]string{"base": "[{% block a %}A{% endblock %}|{% block b %}B{% endblock %}]", "main": "{% extends 'base' %}{% block a %}{% apply upper %}x{% block b %}nb{% endblock %}{% endapply %}{% spaceless %}<i> {% block c %}c{% endblock %} </i>{% endspaceless %}{% endblock %}"}, "[XNB<i> c </i>|nb]"},
	{map[string]string{"base": "[{% block a %}A{% endblock %}|{% block b %}B{% endblock %}]", "main": "{% extends 'base' %}{% block a %}{% if false %}{% block b %}hidden{% endblock %}{% else %}e{% endif %}{% endblock %}"}, "[e|hidden]"},
}

// checkC10Nested: a block written inside an overriding block is a definition of that template: it
// replaces the definitions further up the chain wherever the block stands.
func checkC10Nested(c C10NestedCase) error {
	s := c10NestedSets[c.Which%len(c10NestedSets)]
	for pass := 0; pass < 2; pass++ {
		e := newEngine(s.tm)
		r := render(e, "main", nil)
		if pass == 1 {
			r = render(e, "main", nil) // and from the cache
		}
		if r.Failed() || r.Out != s.want {
			return fmt.Errorf("templates:%s\nrender %v, want %s", showSources(s.tm), r, q(s.want))
		}
	}
	return nil
}

func TestC10Nested(t *testing.T) {
	r := NewRec(t, "C10", "exhaustive: 18 template sets in which a block is written inside an overriding block of a child or middle template (a block the layout has at top level, a new block, with parent(), three deep, with an empty body, overridden again further down; directly, and under if, else, for, apply and spaceless; a layout block inside a loop reached by parent() before the loop runs); expected text written out; all cases non-trivial")
	defer r.Flush()
	r.SetExhaustive()
	for i := range c10NestedSets {
		c := C10NestedCase{Which: i}
		r.Case(fmt.Sprint(i), true, c10NestedSets[i].tm["main"])
		if err := checkC10Nested(c); err != nil {
			r.FailEnum(t, "C10.nested", c, err)
		}
	}
}

func init() { reg("C10.nested", checkC10Nested) }

// ---- a template of the chain registered again between renders ----------------------------------------------------

type C10ReregCase struct {
	Which int `json:"which"` // which template is replaced: 0 layout, 1 middle, 2 both in turn
	Route int `json:"route"` // 0 RegisterString, 1 RegisterTemplate
}

func checkC10Rereg(c C10ReregCase) error {
	tm := map[string]string{"base": "B1[{% block a %}ba1{% endblock %}|{% block b %}bb1{% endblock %}]", "mid": "{% extends 'base' %}{% block a %}m1<{{ parent() }}>{% endblock %}", "main": "{% extends 'mid' %}{% block b %}c<{{ parent() }}>{% endblock %}"}
	e := newEngine(nil)
	reg := func(name, src string) error {
		tm[name] = src
		if c.Route%2 == 1 {
			t, err := e.ParseTemplate(src)
			if err != nil {
				return err
			}
			e.RegisterTemplate(name, t)
			return nil
		}
		return e.RegisterString(name, src)
	}
	for _, n := range []string{"base", "mid", "main"} {
		if err := e.RegisterString(n, tm[n]); err != nil {
			return fmt.Errorf("harness: %v", err)
		}
	}
	expect := func(step string, want string) error {
		for i := 0; i < 2; i++ {
			if r := render(e, "main", nil); r.Failed() || r.Out != want {
				return fmt.Errorf("%s: main renders %v, want %s; registered now:%s", step, r, q(want), showSources(tm))
			}
		}
		return nil
	}
	if err := expect("as first registered", "B1[m1<ba1>|c<bb1>]"); err != nil {
		return err
	}
	if c.Which%3 != 1 {
		if err := reg("base", "B2({% block b %}bb2{% endblock %}/{% block a %}ba2{% endblock %})"); err != nil {
			return fmt.Errorf("harness: %v", err)
		}
		if err := expect("after the layout was registered again", "B2(c<bb2>/m1<ba2>)"); err != nil {
			return err
		}
	}
	if c.Which%3 != 0 {
		if err := reg("mid", "{% extends 'base' %}{% block a %}m2{% endblock %}{% block b %}mb2[{{ parent() }}]{% endblock %}"); err != nil {
			return fmt.Errorf("harness: %v", err)
		}
		want := "B1[m2|c<mb2[bb1]>]"
		if c.Which%3 == 2 {
			want = "B2(c<mb2[bb2]>/m2)"
		}
		if err := expect("after the middle template was registered again", want); err != nil {
			return err
		}
	}
	return nil
}

func TestC10Reregister(t *testing.T) {
	r := NewRec(t, "C10", "exhaustive: a three-level chain rendered, then the layout, the middle template or both registered again with other text, moved blocks and other defaults (RegisterString / RegisterTemplate) and the child rendered again twice; expected text written out; all cases non-trivial")
	defer r.Flush()
	r.SetExhaustive()
	for which := 0; which < 3; which++ {
		for route := 0; route < 2; route++ {
			c := C10ReregCase{Which: which, Route: route}
			r.Case(fmt.Sprint(which, route), true, c)
			if err := checkC10Rereg(c); err != nil {
				r.FailEnum(t, "C10.rereg", c, err)
			}
		}
	}
}

func init() { reg("C10.rereg", checkC10Rereg) }
