package vh

// C01 — rendering is repeatable and independent of everything rendered before.
//
// A history of engine operations (renders through three entry points, parses of valid,
// invalid, small and large sources, registrations, cache and debug toggles, garbage
// collections, activity on other engines) is executed in one process; after every render the
// result must equal what a freshly created engine holding the same templates and
// configuration returns in a fresh OS process (memoised pristine-process oracle).

import (
	"fmt"
	"io"
	"runtime"
	"strings"
	"testing"

	"github.com/semihalev/twig"
	"pgregory.net/rapid"
)

type C01Op struct {
	Op   string `json:"op"` // render | renderTo | loadRender | parse | register | cache | debug | gc | again
	Eng  int    `json:"eng"`
	Name string `json:"name,omitempty"`
	Ctx  int    `json:"ctx,omitempty"`
	Src  string `json:"src,omitempty"`
	On   bool   `json:"on,omitempty"`
	N    int    `json:"n,omitempty"`
}

type C01Case struct {
	DefaultPolicy []bool              `json:"default_policy,omitempty"` // per engine: DefaultSecurityPolicy instead of allow-all
	Worlds        []map[string]string `json:"worlds"`                   // per engine: ArrayLoader contents
	Ctxs          []Ctx               `json:"ctxs"`
	Ops           []C01Op             `json:"ops"`
}

type c01Eng struct {
	e          *twig.Engine
	spec       EngSpec
	cacheOn    bool
	rendered   map[string]int // successful renders per name (cached templates)
	everFailed bool
}

type c01Stats struct {
	checked, repeat, afterParse, afterFailure, afterGC, afterOther, pristineRuns int
	nontrivial                                                                   bool
}

var c01Extras = map[string]string{
	"x_bad_syntax":  "{% if %}oops",
	"x_unclosed":    "{{ a ",
	"x_missing_inc": "before{% include 'does_not_exist' %}after",
	"x_div0":        "{{ 1 / (0 * 1) }}",
	"x_big":         "B[{% for i in [1,2,3] %}{{ i }}{% if i > 1 %}!{% endif %}{% endfor %}]" + strings.Repeat("0123456789abcdef", 300) + "{{ 'end' }}",
	"x_inc_bad":     "{% include 'x_bad_syntax' %}",
	"x_plain":       "just text",
	"x_upper":       "{{ 'abc'|upper }}",
	"x_sbx_inc":     "s[{% include 'x_plain' sandboxed %}|{% include 'x_upper' sandboxed %}|{% for i in [1,2] %}{% include 'x_upper' sandboxed %}{% endfor %}]",
	// a sandboxed include whose template includes further templates, and plain includes nested two
	// levels that end in filters the default policy does not list: the sandbox state of one render
	// must not reach the contexts of the next
	"x_sbx_nest":   "S[{% include 'x_nest_a' sandboxed %}]",
	"x_nest_unl":   "N({% include 'x_nest_unl_b' %})",
	"x_nest_unl_b": "M[{% include 'x_unlisted' %}{% include 'x_unlisted' with {'q': 1} %}]",
	// string literals with escape sequences, different ones per template (what one parse leaves
	// behind must not reach the literals of a template parsed earlier)
	"x_esc_a":   "{{ 'line\\nA\\t1' ~ \"q\\\"A\" }}|{{ 'it\\'s A' }}",
	"x_esc_b":   "{{ 'other\\\\B\\n2, a longer literal than the first one' }}|{{ \"dq\\\"B\\\"\" }}|{{ 'b\\'s' }}",
	"x_sbx_unl": "U[{% include 'x_unlisted' sandboxed %}]",
	// filter arguments taken from the context next to literal ones (rendered with several contexts)
	"x_argchain": "{{ 'abcdefgh'|slice(c01n, 2) }}|{% for ch in 'abcdefgh'|split('')|slice(c01n, 3) %}{{ ch }}{% endfor %}|{{ nope|default(c01n)|number_format(c01n, '.', ',') }}|{{ nope|default('-')|replace('-', c01n ~ '+')|upper }}",
	// calls of macros that other templates define (m0 .. m3 are the names the generated libraries
	// use): a function nobody defined here
	"x_call_m0":  "[{{ m0(1) }}]",
	"x_call_m1":  "[{{ m1(1, 2) }}{{ c12wrap(1) }}]",
	"x_unlisted": "{{ 'a-b'|replace('-', '+') }}{{ {'k': 1}|keys|join }}{{ [3,1]|merge([2])|join(',') }}",
	// the same struct type reached as a value and through a pointer, in separate templates: the
	// order in which a process meets the two forms must not matter
	"x_meth_v": "[{{ c01mv.Label }}|{{ c01mv.Twice }}|{{ c01mv.Name }}]",
	"x_meth_p": "[{{ c01mp.Label }}|{{ c01mp.Twice }}|{{ c01mp.Name }}]",
	// a relative parent name; the parent is replaced by registrations during the history
	"d/x_rel_child": "{% extends './x_rel_base' %}{% block b %}child{{ parent() }}{% endblock %}",
	"d/x_rel_base":  "ZERO[{% block b %}0{% endblock %}]",
	"d/x_rel_inc":   "<{% include './x_rel_base' %}>",
	// names that no loader has; they may be registered later in the history (by any route),
	// after lookups of them have already failed or been ignored
	"x_ign_inc": "a{% include 'late_inc' ignore missing %}b{% include 'does_not_exist' ignore missing %}c",
	// includes nested two levels (rendered in bursts: per-render bookkeeping must start afresh)
	"x_nest_a": "A({% include 'x_nest_b' %})",
	"x_nest_b": "B[{% include 'x_plain' %}{% include 'x_upper' with {'k': 1} only %}]",
	// the same pattern with and without the case-insensitive flag, in separate templates
	"x_re_cs":    "{{ 'Hello' matches '/hello/' ? 'yes' : 'no' }}{{ 'abc' matches '/B/' ? 'yes' : 'no' }}",
	"x_re_ci":    "{{ 'Hello' matches '/hello/i' ? 'yes' : 'no' }}{{ 'abc' matches '/B/i' ? 'yes' : 'no' }}",
	"x_late_ext": "{% extends 'late_layout' %}{% block b %}late-child{% endblock %}",
}

var c01LateNames = []string{"late_inc", "does_not_exist", "late_layout", "late_inc"}
var c01LateSrcs = []string{"L1[{{ 1 + 1 }}]", "L2{% block b %}dflt{% endblock %}", "L3[{% block b %}{% endblock %}|{% for i in [1,2] %}{{ i }}{% endfor %}]"}

var c01RelBases = []string{"ONE[{% block b %}1{% endblock %}]", "TWO[{% block b %}2{% endblock %}|{{ 1 + 1 }}]", "THREE{% block b %}{% endblock %}"}

func checkC01(c C01Case) error {
	_, err := runC01(c)
	return err
}

func runC01(c C01Case) (c01Stats, error) {
	var st c01Stats
	twig.SetDebugWriter(io.Discard)
	defer twig.SetDebugLevel(twig.DebugOff)
	engs := make([]*c01Eng, len(c.Worlds))
	for i, w := range c.Worlds {
		spec := EngSpec{Templates: w, Sandbox: true}
		if i < len(c.DefaultPolicy) && c.DefaultPolicy[i] {
			spec = EngSpec{Templates: w, DefaultPol: true}
		}
		e, _ := buildEngine(spec)
		engs[i] = &c01Eng{e: e, spec: spec, cacheOn: true, rendered: map[string]int{}}
	}
	// a held handle keeps the source it was loaded from; whatever it extends or includes is
	// resolved when it is rendered, i.e. against the engine's configuration at that time
	type heldT struct {
		t    *twig.Template
		eng  int
		name string
		src  string
	}
	var held []heldT
	var last *C01Op
	parsesSince, failuresSince, gcSince, otherSince := 0, 0, 0, 0
	for i := range c.Ops {
		op := c.Ops[i]
		if op.Op == "again" {
			if last == nil {
				continue
			}
			op = *last
		}
		if op.Eng >= len(engs) {
			op.Eng = 0
		}
		en := engs[op.Eng]
		switch op.Op {
		case "parse":
			guard(func() (string, error) {
				t, err := en.e.ParseTemplate(op.Src)
				if err != nil {
					return "", err
				}
				return t.Render(nil)
			})
			parsesSince++
		case "register":
			if !en.cacheOn {
				continue
			}
			// three routes to the same state: RegisterString, compiled data, RegisterTemplate
			var err error
			switch {
			case op.N%3 == 1:
				var data []byte
				data, err = twig.SerializeCompiledTemplate(&twig.CompiledTemplate{Name: op.Name, Source: op.Src, LastModified: 1700000000, CompileTime: 1700000001})
				if err == nil {
					err = en.e.LoadFromCompiledData(data)
				}
			case op.N%3 == 2 && !strings.Contains(op.Name, "/"):
				var tp *twig.Template
				if tp, err = en.e.ParseTemplate(op.Src); err == nil {
					en.e.RegisterTemplate(op.Name, tp)
				}
			default:
				err = en.e.RegisterString(op.Name, op.Src)
			}
			if err == nil {
				en.spec.Registered = append(append([][2]string{}, en.spec.Registered...), [2]string{op.Name, op.Src})
				delete(en.rendered, op.Name)
			}
		case "cache":
			en.e.SetCache(op.On)
			en.cacheOn = op.On
			en.spec.CacheOff = !op.On
		case "configure":
			// a global, function or filter is added to this engine only
			applyConfig(en.e, op.Src)
			en.spec.Config = append(append([]string{}, en.spec.Config...), op.Src)
		case "debug":
			en.e.SetDebug(op.On)
			en.spec.Debug = op.On
			if !op.On {
				twig.SetDebugLevel(twig.DebugOff)
			}
		case "hold":
			// keep a handle obtained from Load; it is rendered later, whatever happened in between
			// (a registered name can be held while the cache serves it)
			src, inLoader := en.spec.Templates[op.Name]
			if en.cacheOn {
				for _, r := range en.spec.Registered {
					if r[0] == op.Name {
						src, inLoader = r[1], true
					}
				}
			}
			if !inLoader {
				continue
			}
			var tp *twig.Template
			r := guard(func() (string, error) { t, err := en.e.Load(op.Name); tp = t; return "", err })
			if !r.Failed() && tp != nil {
				held = append(held, heldT{tp, op.Eng, op.Name, src})
			}
		case "renderHeld":
			if len(held) == 0 {
				continue
			}
			h := held[op.N%len(held)]
			if op.N == 1000003 {
				h = held[len(held)-1]
			}
			ctxI := op.Ctx % len(c.Ctxs)
			// the pristine counterpart: the owning engine's present configuration, with the
			// held template's own source as it was when the handle was taken
			hspec := engs[h.eng].spec
			tm := make(map[string]string, len(hspec.Templates)+1)
			for k, v := range hspec.Templates {
				tm[k] = v
			}
			tm[h.name] = h.src
			hspec.Templates = tm
			var regs [][2]string
			for _, r := range hspec.Registered {
				if r[0] != h.name {
					regs = append(regs, r)
				}
			}
			hspec.Registered = regs
			want, err := pristine(OneShot{Eng: hspec, Call: "loadRender", Name: h.name, Ctx: c.Ctxs[ctxI]})
			if err != nil {
				return st, fmt.Errorf("harness: %v", err)
			}
			got := toOneShotRes(guard(func() (string, error) { return h.t.Render(zooCtx(c.Ctxs[ctxI], 0)) }))
			st.checked++
			st.nontrivial = true
			if !got.Same(want) {
				return st, fmt.Errorf("op %d: rendering the template handle obtained earlier from Load(%q) returned %v; a fresh engine in a fresh process returns %v\nsource: %s", i, h.name, got, want, q(trunc(h.src)))
			}
			if got.Err {
				failuresSince++
			}
		case "brokenWrite":
			// a RenderTo whose writer fails part-way (nothing is checked here: what it leaves behind
			// must not reach the renders that follow)
			if _, inLoader := en.spec.Templates[op.Name]; !inLoader {
				continue
			}
			guard(func() (string, error) {
				return "", en.e.RenderTo(&brokenWriter{limit: op.N}, op.Name, zooCtx(c.Ctxs[op.Ctx%len(c.Ctxs)], 0))
			})
			failuresSince++
		case "gc":
			for k := 0; k < maxInt(1, op.N); k++ {
				runtime.GC()
			}
			gcSince++
		case "burst":
			if _, inLoader := en.spec.Templates[op.Name]; !inLoader {
				continue
			}
			ctxI := op.Ctx % len(c.Ctxs)
			want, err := pristine(OneShot{Eng: en.spec, Call: "render", Name: op.Name, Ctx: c.Ctxs[ctxI]})
			if err != nil {
				return st, fmt.Errorf("harness: %v", err)
			}
			for k := 0; k < op.N; k++ {
				got := toOneShotRes(doCall(en.e, "render", op.Name, zooCtx(c.Ctxs[ctxI], 0)))
				st.checked++
				st.repeat++
				st.nontrivial = true
				if !got.Same(want) {
					return st, fmt.Errorf("op %d: render %d of a burst of %d renders of %q on engine %d returned %v; a fresh engine in a fresh process returns %v", i, k+1, op.N, op.Name, op.Eng, got, want)
				}
				if got.Err {
					failuresSince++
				} else if en.cacheOn {
					en.rendered[op.Name]++
				}
			}
		case "render", "renderTo", "loadRender":
			isRegisteredOnly := false
			if _, inLoader := en.spec.Templates[op.Name]; !inLoader {
				isRegisteredOnly = true
			}
			if isRegisteredOnly && !en.cacheOn {
				continue // registrations are not served while the cache is off (C15 domain decision)
			}
			ctxI := op.Ctx % len(c.Ctxs)
			want, err := pristine(OneShot{Eng: en.spec, Call: op.Op, Name: op.Name, Ctx: c.Ctxs[ctxI]})
			if err != nil {
				return st, fmt.Errorf("harness: %v", err)
			}
			got := toOneShotRes(doCall(en.e, op.Op, op.Name, zooCtx(c.Ctxs[ctxI], 0)))
			st.checked++
			if en.rendered[op.Name] > 0 {
				st.repeat++
				st.nontrivial = true
			}
			if parsesSince > 0 && en.rendered[op.Name] > 0 {
				st.afterParse++
			}
			if failuresSince > 0 {
				st.afterFailure++
				st.nontrivial = true
			}
			if gcSince > 0 {
				st.afterGC++
				st.nontrivial = true
			}
			if otherSince > 0 {
				st.afterOther++
			}
			if !got.Same(want) {
				return st, fmt.Errorf("op %d: %s(%q, ctx %d) on engine %d returned %v; a fresh engine with the same templates and configuration in a fresh process returns %v (this name was rendered %d time(s) before on this engine; %d parses, %d failing renders, %d GCs earlier in the history)\nsource: %s",
					i, op.Op, op.Name, ctxI, op.Eng, got, want, en.rendered[op.Name], parsesSince, failuresSince, gcSince, q(trunc(en.spec.Templates[op.Name])))
			}
			if got.Err {
				failuresSince++
			} else if en.cacheOn {
				en.rendered[op.Name]++
			}
			if last != nil && last.Eng != op.Eng {
				otherSince++
			}
			cp := op
			last = &cp
		}
	}
	return st, nil
}

func genC01(t *rapid.T) C01Case {
	var c C01Case
	nw := rapid.IntRange(1, 3).Draw(t, "nworlds")
	var allSources []string
	for w := 0; w < nw; w++ {
		sc, _ := genStructured(t)
		srcs := sc.Set.Sources(SPrint{})
		for k, v := range c01Extras {
			srcs[k] = v
		}
		c.Worlds = append(c.Worlds, srcs)
		c.DefaultPolicy = append(c.DefaultPolicy, rapid.IntRange(0, 2).Draw(t, "defaultpolicy") == 0)
		sc.Ctx.Set("c01n", Int(int64(w+1)))
		sc.Ctx.Set("c01mv", ZT(Hash([]string{"Name", "N"}, []*E{Str("v<" + fmt.Sprint(w)), Int(int64(w + 2))}), "meth"))
		sc.Ctx.Set("c01mp", ZT(Hash([]string{"Name", "N"}, []*E{Str("p&" + fmt.Sprint(w)), Int(int64(w + 5))}), "ptrmeth"))
		c.Ctxs = append(c.Ctxs, sc.Ctx)
		for _, s := range srcs {
			allSources = append(allSources, s)
		}
	}
	c.Ctxs = append(c.Ctxs, Ctx{})
	n := rapid.IntRange(5, scale(40, 200)).Draw(t, "nops")
	for i := 0; i < n; i++ {
		eng := rapid.IntRange(0, nw-1).Draw(t, "eng")
		names := sortedTemplateNames(c.Worlds[eng])
		op := C01Op{Eng: eng}
		switch k := rapid.IntRange(0, 29).Draw(t, "opkind"); {
		case k == 29:
			// a template that includes (extends) a name is rendered, the name is registered again
			// with another source, the includer is rendered again
			pair := rapid.SampledFrom([][2]string{{"x_nest_b", "x_plain"}, {"x_nest_a", "x_nest_b"}, {"x_sbx_inc", "x_upper"}, {"d/x_rel_inc", "d/x_rel_base"}}).Draw(t, "incpair")
			c.Ops = append(c.Ops, C01Op{Op: "render", Eng: eng, Name: pair[0], Ctx: eng},
				C01Op{Op: "register", Eng: eng, Name: pair[1], Src: rapid.SampledFrom([]string{"again {{ 1 + 1 }}", "AGAIN[{% block b %}x{% endblock %}]", "again{% for i in [1, 2] %}{{ i }}{% endfor %}"}).Draw(t, "againsrc"), N: rapid.IntRange(0, 2).Draw(t, "route")},
				C01Op{Op: "render", Eng: eng, Name: pair[0], Ctx: eng}, C01Op{Op: "render", Eng: eng, Name: pair[0], Ctx: eng})
			continue
		case k == 28:
			// a writer that breaks in the middle of one render, then renders into healthy writers
			nm := rapid.SampledFrom([]string{"x_big", "main", "x_nest_a", "x_plain"}).Draw(t, "brokenname")
			c.Ops = append(c.Ops, C01Op{Op: "brokenWrite", Eng: eng, Name: nm, Ctx: eng, N: rapid.SampledFrom([]int{0, 1, 3, 10, 100}).Draw(t, "brokenlimit")},
				C01Op{Op: "renderTo", Eng: rapid.IntRange(0, nw-1).Draw(t, "brokenafter"), Name: rapid.SampledFrom([]string{"x_plain", "x_upper", "main"}).Draw(t, "brokennext"), Ctx: eng})
			continue
		case k == 27:
			// one template whose filter arguments come from the context, rendered with two contexts
			other := rapid.IntRange(0, len(c.Ctxs)-1).Draw(t, "argctx")
			c.Ops = append(c.Ops, C01Op{Op: "render", Eng: eng, Name: "x_argchain", Ctx: eng}, C01Op{Op: "render", Eng: eng, Name: "x_argchain", Ctx: other},
				C01Op{Op: "render", Eng: eng, Name: "x_argchain", Ctx: eng})
			continue
		case k == 26:
			// one engine is configured further; any engine then renders the templates that name the addition
			cfg := rapid.SampledFrom([]string{"g:cfg_a", "g:cfg_b", "f:cfg_fn", "|cfg_filter", "|upper", "f:max", "s:strict", "s:strict", "p:replace", "p:keys", "p:merge"}).Draw(t, "cfg")
			other := rapid.IntRange(0, len(c.Worlds)-1).Draw(t, "cfgreader")
			nm := rapid.SampledFrom([]string{"x_cfg", "x_cfg_fn", "x_cfg_filter", "x_cfg_inc", "x_cfg_inc"}).Draw(t, "cfgname")
			if strings.HasPrefix(cfg, "p:") {
				nm = rapid.SampledFrom([]string{"x_sbx_unl", "x_sbx_unl", "x_sbx_nest"}).Draw(t, "polname")
			}
			c.Ops = append(c.Ops, C01Op{Op: "render", Eng: other, Name: nm, Ctx: other}, C01Op{Op: "configure", Eng: eng, Src: cfg},
				C01Op{Op: "render", Eng: other, Name: nm, Ctx: other}, C01Op{Op: "render", Eng: eng, Name: nm, Ctx: eng})
			continue
		case k == 25:
			// a template with escaped string literals is rendered, another source with escapes is
			// parsed (or registered), the first one is rendered again
			nm := rapid.SampledFrom([]string{"x_esc_a", "x_esc_b"}).Draw(t, "escname")
			between := C01Op{Op: "parse", Eng: eng, Src: rapid.SampledFrom([]string{"{{ 'p\\n\\tq\\\\r and some more text here' }}", c01Extras["x_esc_a"], c01Extras["x_esc_b"]}).Draw(t, "escsrc")}
			if rapid.Bool().Draw(t, "escreg") {
				between = C01Op{Op: "register", Eng: eng, Name: "reg0", Src: between.Src, N: rapid.IntRange(0, 2).Draw(t, "route")}
			}
			c.Ops = append(c.Ops, C01Op{Op: "render", Eng: eng, Name: nm, Ctx: eng}, between, C01Op{Op: "render", Eng: eng, Name: nm, Ctx: eng})
			continue
		case k == 20:
			// replace the parent that a relative extends / include resolves to, then render the
			// templates that name it
			src := rapid.SampledFrom(c01RelBases).Draw(t, "relbase")
			c.Ops = append(c.Ops, C01Op{Op: "register", Eng: eng, Name: "d/x_rel_base", Src: src},
				C01Op{Op: "render", Eng: eng, Name: rapid.SampledFrom([]string{"d/x_rel_child", "d/x_rel_child", "d/x_rel_inc"}).Draw(t, "relname"), Ctx: eng})
			continue
		case k == 21:
			// a handle to a registered template is kept, the name is registered again with
			// another source, something else is parsed, and the old handle is rendered
			name := fmt.Sprintf("reg%d", rapid.IntRange(0, 2).Draw(t, "regname"))
			srcs := rapid.Permutation([]string{"H1{{ 1 + 1 }}{% if true %}y{% endif %}", "H2{% for i in [1,2] %}{{ i }}{% endfor %}", "H3{{ 'x'|upper }}"}).Draw(t, "heldsrcs")
			c.Ops = append(c.Ops, C01Op{Op: "register", Eng: eng, Name: name, Src: srcs[0]}, C01Op{Op: "hold", Eng: eng, Name: name},
				C01Op{Op: "register", Eng: eng, Name: name, Src: srcs[1]},
				C01Op{Op: "parse", Eng: eng, Src: rapid.SampledFrom([]string{"UNRELATED{{ 7 }}", "{% if true %}other{% endif %}", srcs[2]}).Draw(t, "between")},
				C01Op{Op: "renderHeld", Eng: eng, N: 1000003, Ctx: eng}, C01Op{Op: "render", Eng: eng, Name: name, Ctx: eng})
			continue
		case k == 23:
			// a name that was looked up in vain before becomes available, by one of three routes
			nm := rapid.SampledFrom(c01LateNames).Draw(t, "latename")
			c.Ops = append(c.Ops, C01Op{Op: "render", Eng: eng, Name: rapid.SampledFrom([]string{"x_ign_inc", "x_late_ext", "x_missing_inc", nm}).Draw(t, "latebefore"), Ctx: eng},
				C01Op{Op: "register", Eng: eng, Name: nm, Src: rapid.SampledFrom(c01LateSrcs).Draw(t, "latesrc"), N: rapid.IntRange(0, 2).Draw(t, "route")},
				C01Op{Op: "render", Eng: eng, Name: rapid.SampledFrom([]string{"x_ign_inc", "x_late_ext", "x_missing_inc", nm}).Draw(t, "lateafter"), Ctx: eng})
			continue
		case k == 24:
			// a burst of renders of one template (also of the regex pair in either order)
			op.Op = "burst"
			op.Name = rapid.SampledFrom([]string{"x_nest_a", "x_nest_a", "main", "x_sbx_inc", "x_re_cs", "x_re_ci"}).Draw(t, "burstname")
			op.N = rapid.SampledFrom([]int{3, 60, 130}).Draw(t, "burstn")
			op.Ctx = eng
		case k == 22:
			op.Op = "render"
			op.Name = rapid.SampledFrom([]string{"x_meth_v", "x_meth_p"}).Draw(t, "methname")
			op.Ctx = eng

		case k <= 7:
			op.Op = rapid.SampledFrom([]string{"render", "render", "renderTo", "loadRender"}).Draw(t, "path")
			if rapid.IntRange(0, 2).Draw(t, "main") == 0 {
				op.Name = "main"
			} else {
				op.Name = rapid.SampledFrom(names).Draw(t, "name")
			}
			op.Ctx = rapid.IntRange(0, len(c.Ctxs)-1).Draw(t, "ctx")
			if rapid.IntRange(0, 1).Draw(t, "ownctx") == 0 {
				op.Ctx = eng
			}
		case k <= 9:
			op.Op = "again"
		case k <= 10:
			if rapid.Bool().Draw(t, "holdOrRender") {
				op.Op = "hold"
				op.Name = rapid.SampledFrom(names).Draw(t, "holdname")
			} else {
				op.Op = "renderHeld"
				op.N = rapid.IntRange(0, 7).Draw(t, "heldidx")
				op.Ctx = eng
			}
		case k <= 13:
			op.Op = "parse"
			switch rapid.IntRange(0, 3).Draw(t, "parsekind") {
			case 0:
				op.Src = rapid.SampledFrom([]string{"{% if %}", "{{ a", "{% for x in %}y{% endfor %}", "{% block a %}", "{{ 1 + }}", "{% extends %}"}).Draw(t, "badsrc")
			case 1:
				op.Src = rapid.SampledFrom(allSources).Draw(t, "othersrc") + strings.Repeat(" pad{{ 1 }}", 500)
			default:
				op.Src = rapid.SampledFrom(allSources).Draw(t, "othersrc")
			}
		case k <= 14:
			op.Op = "register"
			op.N = rapid.IntRange(0, 2).Draw(t, "route")
			op.Name = fmt.Sprintf("reg%d", rapid.IntRange(0, 2).Draw(t, "regname"))
			op.Src = rapid.SampledFrom([]string{"R1{{ 1 + 1 }}", "R2{% for i in [1,2] %}{{ i }}{% endfor %}", "R3{% include 'x_plain' %}", "R4{{ nope }}"}).Draw(t, "regsrc")
		case k <= 15:
			op.Op = "cache"
			op.On = rapid.IntRange(0, 2).Draw(t, "cacheon") != 0
		case k <= 16:
			op.Op = "debug"
			op.On = rapid.Bool().Draw(t, "debugon")
		default:
			op.Op = "gc"
			op.N = rapid.IntRange(1, 2).Draw(t, "gcn")
		}
		if op.Op == "hold" && rapid.IntRange(0, 1).Draw(t, "dance") == 0 {
			// a handle taken while cached is rendered while caching is off, then the cached
			// template is rendered again with caching back on
			c.Ops = append(c.Ops, op, C01Op{Op: "cache", Eng: eng, On: false}, C01Op{Op: "renderHeld", Eng: eng, N: 1000003, Ctx: eng},
				C01Op{Op: "cache", Eng: eng, On: true}, C01Op{Op: "render", Eng: eng, Name: op.Name, Ctx: eng})
			continue
		}
		c.Ops = append(c.Ops, op)
		if op.Op == "register" {
			// make the registered name renderable by later ops
			c.Ops = append(c.Ops, C01Op{Op: "render", Eng: eng, Name: op.Name, Ctx: eng})
		}
	}
	return c
}

const c01Rule = "histories of 5-40 (thorough 200) operations over 1-3 engines, each holding a template set from the structural generators (control flow, inheritance with parent(), include chains, macro libraries in five call forms, apply/spaceless) plus failing templates (syntax error, unclosed tag, include of a missing template, include of a broken template, division by zero) and a template above 4096 bytes; operations: Render / RenderTo (into a writer that has only Write) / Load+Render, a RenderTo whose writer breaks part-way followed by renders into healthy writers, bursts of up to 130 renders of one template, repeat of the previous call, ParseTemplate+Render of valid, invalid, small and > 4096-byte sources (also of other engines' sources), RegisterString / LoadFromCompiledData / RegisterTemplate (also of names whose lookup failed or was ignored earlier, of a name whose old handle is still held, of a name that a template rendered before includes, and of the parent behind a relative extends/include), a struct reached by value and by pointer in separate templates, templates with escaped string literals around a parse of other escaped literals, SetCache, SetDebug, AddGlobal / AddFunction / AddFilter / a relaxed default policy of its own on one of the engines (the others must not see it), a template whose filter arguments come from the context rendered with several contexts, runtime.GC once or twice; after every render the result is compared with a pristine engine in a fresh OS process; non-trivial = the checked render is preceded by a render of the same cached template, a failing render or a GC; distinct by history"

func TestC01History(t *testing.T) {
	r := NewRec(t, "C01", c01Rule)
	defer r.Flush()
	rapid.Check(t, func(rt *rapid.T) {
		c := genC01(rt)
		st, err := runC01(c)
		r.ClassN("renders-checked", st.checked)
		r.ClassN("repeat-render-of-cached-template", st.repeat)
		r.ClassN("render-after-parse-of-cached", st.afterParse)
		r.ClassN("render-after-failing-render", st.afterFailure)
		r.ClassN("render-after-gc", st.afterGC)
		r.ClassN("render-after-other-engine", st.afterOther)
		r.Case(fmt.Sprint(c.Ops)+fmt.Sprint(len(c.Worlds)), st.nontrivial, c.Ops[:min(6, len(c.Ops))], fmt.Sprintf("engines:%d", len(c.Worlds)))
		if err != nil {
			r.Fail(rt, "C01.history", c, err)
		}
	})
	pristineMu.Lock()
	r.ClassN("pristine-process-runs", pristineRuns)
	pristineMu.Unlock()
}

func init() { reg("C01.history", checkC01) }
