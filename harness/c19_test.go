package vh

// C19 — built-in filters satisfy their defining equations for every input.
// Results are observed through `|json_encode` and decoded with encoding/json, so lists and
// strings are compared structurally, not by their printed form.

import (
	"encoding/json"
	"fmt"
	"math/big"
	"reflect"
	"sort"
	"strconv"
	"strings"
	"testing"
	"unicode"
	"unicode/utf8"

	"pgregory.net/rapid"
)

type C19Case struct {
	Law  string `json:"law"`
	X    *E     `json:"x"`           // the input value (zoo description), bound to x
	Y    *E     `json:"y,omitempty"` // second operand, bound to y
	Args []int  `json:"args,omitempty"`
	Sep  string `json:"sep,omitempty"`
	Omit bool   `json:"omit,omitempty"` // slice: length omitted
}

// evalJSON renders `{{ (expr)|json_encode }}` and decodes the result.
func evalJSON(expr string, ctx Ctx) (interface{}, error) {
	src := "{{ (" + expr + ")|json_encode }}"
	r := render1(src, zooCtx(ctx, 0))
	if r.Failed() {
		return nil, fmt.Errorf("%s failed: %v", q(src), r)
	}
	var v interface{}
	dec := json.NewDecoder(strings.NewReader(r.Out))
	dec.UseNumber()
	if err := dec.Decode(&v); err != nil {
		return nil, fmt.Errorf("%s printed %s, which is not JSON: %v", q(src), q(r.Out), err)
	}
	return v, nil
}

func evalText(src string, ctx Ctx) (string, error) {
	r := render1(src, zooCtx(ctx, 0))
	if r.Failed() {
		return "", fmt.Errorf("%s failed: %v", q(src), r)
	}
	return r.Out, nil
}

func jsonEq(a, b interface{}) bool {
	x, _ := json.Marshal(a)
	y, _ := json.Marshal(b)
	return string(x) == string(y)
}

func showJ(v interface{}) string { b, _ := json.Marshal(v); return string(b) }

// descElems returns the elements of a list/string description as the harness knows them.
func descElems(e *E) ([]interface{}, bool) {
	switch e.K {
	case "str":
		var out []interface{}
		for _, r := range e.S {
			out = append(out, string(r))
		}
		return out, true
	case "list":
		var out []interface{}
		for _, a := range e.A {
			switch a.K {
			case "int":
				if e.M == "[]float64" {
					out = append(out, float64(a.I)/2)
				} else {
					out = append(out, a.I)
				}
			case "str":
				out = append(out, a.S)
			default:
				return nil, false
			}
		}
		if e.M == "[3]int" {
			for len(out) < 3 {
				out = append(out, int64(0))
			}
			out = out[:3]
		}
		return out, true
	}
	return nil, false
}

func refSlice(n, start int, length int, omit bool) (int, int) {
	if start < 0 {
		start += n
		if start < 0 {
			start = 0
		}
	}
	if start > n {
		start = n
	}
	end := n
	if !omit {
		if length >= 0 {
			end = start + length
			if end > n {
				end = n
			}
		} else {
			end = n + length
			if end < start {
				end = start
			}
		}
	}
	return start, end
}

// c19Spellings: for a plain string input, the same filters applied to the string written as a
// literal in the template, and applied through an apply block around the text, give what they give
// on the context variable.
func c19Spellings(c C19Case, ctx Ctx) error {
	if c.X == nil || c.X.K != "str" || c.X.M != "" {
		return nil
	}
	text := c.X.S
	lit := "'" + strings.NewReplacer("\\", "\\\\", "'", "\\'").Replace(text) + "'"
	for _, f := range []string{"length", "upper", "lower", "reverse", "capitalize", "trim", "first", "last", "slice(1, 2)", "reverse|reverse", "upper|length", "trim|length"} {
		a, errA := evalJSON("x|"+f, ctx)
		b, errB := evalJSON(lit+"|"+f, ctx)
		if errA != nil || errB != nil {
			if (errA != nil) != (errB != nil) {
				return fmt.Errorf("x|%s and %s|%s: one fails and the other does not (%v / %v)", f, lit, f, errA, errB)
			}
			continue
		}
		if !jsonEq(a, b) {
			return fmt.Errorf("%s|%s = %s but x|%s = %s for x = %s: a literal and a variable holding the same string differ", lit, f, showJ(b), f, showJ(a), q(text))
		}
	}
	if strings.Contains(text, "{{") || strings.Contains(text, "{%") || strings.Contains(text, "{#") || strings.HasSuffix(text, "{") || strings.HasSuffix(text, "\\") {
		return nil
	}
	for _, f := range []string{"upper", "lower", "reverse", "capitalize", "trim", "length"} {
		viaFilter, err := evalText("{{ x|"+f+" }}", ctx)
		if err != nil {
			continue
		}
		viaApply, err := evalText("{% apply "+f+" %}"+text+"{% endapply %}", ctx)
		if err != nil {
			return fmt.Errorf("{%% apply %s %%} around %s fails (%v) although x|%s works", f, q(text), err, f)
		}
		if viaApply != viaFilter {
			return fmt.Errorf("{%% apply %s %%} around the text %s gives %s, x|%s on the same text gives %s", f, q(text), q(viaApply), f, q(viaFilter))
		}
	}
	return nil
}

func checkC19(c C19Case) error {
	var ctx Ctx
	ctx.Set("x", c.X)
	if c.Y != nil {
		ctx.Set("y", c.Y)
	}
	switch c.Law {
	case "idempotent":
		for _, f := range []string{"upper", "lower", "trim", "capitalize"} {
			once, err := evalJSON("x|"+f, ctx)
			if err != nil {
				return err
			}
			twice, err := evalJSON("x|"+f+"|"+f, ctx)
			if err != nil {
				return err
			}
			if !jsonEq(once, twice) {
				return fmt.Errorf("%s is not idempotent on %s: once %s, twice %s", f, PrintE2(c.X), showJ(once), showJ(twice))
			}
		}
	case "reverse":
		orig, err := evalJSON("x", ctx)
		if err != nil {
			return err
		}
		rr, err := evalJSON("x|reverse|reverse", ctx)
		if err != nil {
			return err
		}
		if !jsonEq(orig, rr) {
			return fmt.Errorf("reverse is not an involution on %s: x = %s, x|reverse|reverse = %s", PrintE2(c.X), showJ(orig), showJ(rr))
		}
		l1, err := evalText("{{ x|length }}", ctx)
		if err != nil {
			return err
		}
		l2, err := evalText("{{ x|reverse|length }}", ctx)
		if err != nil {
			return err
		}
		if l1 != l2 {
			return fmt.Errorf("reverse changes the length of %s: %s vs %s", PrintE2(c.X), l1, l2)
		}
		// and it really reverses
		if elems, ok := descElems(c.X); ok {
			r1, err := evalJSON("x|reverse", ctx)
			if err != nil {
				return err
			}
			want := make([]interface{}, len(elems))
			for i, e := range elems {
				want[len(elems)-1-i] = e
			}
			var wantV interface{} = want
			if c.X.K == "str" {
				s := ""
				for _, e := range want {
					s += e.(string)
				}
				wantV = s
			}
			if !jsonEq(r1, wantV) {
				return fmt.Errorf("x|reverse on %s gives %s, want %s", PrintE2(c.X), showJ(r1), showJ(wantV))
			}
		}
	case "sort":
		elems, _ := descElems(c.X)
		got, err := evalJSON("x|sort", ctx)
		if err != nil {
			return err
		}
		gl, ok := got.([]interface{})
		if !ok {
			return fmt.Errorf("x|sort on %s is not a list: %s", PrintE2(c.X), showJ(got))
		}
		// permutation: multiset equality
		count := map[string]int{}
		for _, e := range elems {
			count[showJ(e)]++
		}
		for _, e := range gl {
			count[showJ(normJSON(e))]--
		}
		for k, v := range count {
			if v != 0 {
				return fmt.Errorf("x|sort is not a permutation of %s: result %s (element %s off by %d)", PrintE2(c.X), showJ(got), k, -v)
			}
		}
		// ordered: numerically (all numeric) or by the printed form — either is accepted
		numOK, strOK := true, true
		for i := 1; i < len(gl); i++ {
			// exact comparison (integers beyond 2^53 are not distinguishable as float64)
			a, _, aerr := big.ParseFloat(fmt.Sprint(normJSON(gl[i-1])), 10, 256, big.ToNearestEven)
			b, _, berr := big.ParseFloat(fmt.Sprint(normJSON(gl[i])), 10, 256, big.ToNearestEven)
			if aerr != nil || berr != nil || a.Cmp(b) > 0 {
				numOK = false
			}
			if fmt.Sprint(normJSON(gl[i-1])) > fmt.Sprint(normJSON(gl[i])) {
				strOK = false
			}
		}
		allNum := len(elems) > 0
		for _, e := range elems {
			if _, isStr := e.(string); isStr {
				allNum = false
			}
		}
		if allNum && !numOK {
			// numbers are ordered by value, whatever Go type carries them
			return fmt.Errorf("x|sort on the numbers %s is not in ascending numeric order: %s", PrintE2(c.X), showJ(got))
		}
		if !numOK && !strOK {
			return fmt.Errorf("x|sort on %s is ordered neither numerically nor by printed form: %s", PrintE2(c.X), showJ(got))
		}
		// the input is untouched
		after, err := evalJSON("[x|sort, x][1]", ctx)
		if err != nil {
			return err
		}
		if !jsonEq(normList(after), elems) && len(elems) > 0 {
			return fmt.Errorf("x changed after x|sort: %s, was %s", showJ(after), showJ(elems))
		}
	case "length":
		elems, ok := descElems(c.X)
		if !ok {
			return nil
		}
		n := len(elems)
		out, err := evalText("{{ x|length }}|{% for i in x %}.{% endfor %}|{{ x|slice(0)|length }}", ctx)
		if err != nil {
			return err
		}
		want := fmt.Sprintf("%d|%s|%d", n, strings.Repeat(".", n), n)
		if out != want {
			return fmt.Errorf("length / for / slice disagree on %s: got %s, want %s", PrintE2(c.X), q(out), q(want))
		}
		if n > 0 {
			f, err := evalJSON("[x|first, x|last, x|slice(0, 1)|first, x|slice("+strconv.Itoa(n-1)+", 1)|first]", ctx)
			if err != nil {
				return err
			}
			want := []interface{}{elems[0], elems[n-1], elems[0], elems[n-1]}
			if !jsonEq(normList(f), want) {
				return fmt.Errorf("first/last/slice disagree on %s: [first,last,slice(0,1)|first,slice(n-1,1)|first] = %s, want %s", PrintE2(c.X), showJ(f), showJ(want))
			}
		}
	case "lengthself":
		// values whose unit of counting the statement does not fix ([]byte: bytes or characters):
		// whatever the unit, length, the for loop, slice, first and last must agree on it
		out, err := evalText("{{ x|length }}|{% for i in x %}.{% endfor %}|{{ x|slice(0)|length }}|{% for i in x %}{{ loop.length }};{% endfor %}", ctx)
		if err != nil {
			return err
		}
		parts := strings.Split(out, "|")
		if len(parts) != 4 || parts[0] != strconv.Itoa(len(parts[1])) || parts[0] != parts[2] || (len(parts[1]) > 0 && !strings.HasPrefix(parts[3], parts[0]+";")) {
			return fmt.Errorf("length / for / slice / loop.length disagree on %s: %s", PrintE2(c.X), q(out))
		}
		if parts[0] != "0" {
			fl, err := evalText("{{ x|first }}|{% for i in x %}{% if loop.first %}{{ i }}{% endif %}{% endfor %}|{{ x|last }}|{% for i in x %}{% if loop.last %}{{ i }}{% endif %}{% endfor %}", ctx)
			if err != nil {
				return err
			}
			q4 := strings.Split(fl, "|")
			if len(q4) != 4 || q4[0] != q4[1] || q4[2] != q4[3] {
				return fmt.Errorf("first / last and the for loop see different elements of %s: first|loop-first|last|loop-last = %s", PrintE2(c.X), q(fl))
			}
		}
	case "joinsplit":
		orig, err := evalJSON("x", ctx)
		if err != nil {
			return err
		}
		sep := quoteTwig(c.Sep, 0)
		back, err := evalJSON("x|join("+sep+")|split("+sep+")", ctx)
		if err != nil {
			return err
		}
		if !jsonEq(orig, back) {
			return fmt.Errorf("x|join(%s)|split(%s) = %s, x = %s", sep, sep, showJ(back), showJ(orig))
		}
	case "merge":
		xe, _ := descElems(c.X)
		ye, _ := descElems(c.Y)
		got, err := evalJSON("x|merge(y)", ctx)
		if err != nil {
			return err
		}
		want := append(append([]interface{}{}, xe...), ye...)
		if !jsonEq(normList(got), want) {
			return fmt.Errorf("merge of %s and %s = %s, want the concatenation %s", PrintE2(c.X), PrintE2(c.Y), showJ(got), showJ(want))
		}
		l, err := evalText("{{ x|merge(y)|length }}", ctx)
		if err != nil {
			return err
		}
		if l != strconv.Itoa(len(want)) {
			return fmt.Errorf("length of merge = %s, want %d", l, len(want))
		}
		// a second merge of the same left operand does not disturb the result of the first
		// (nor the operand): both results are concatenations
		two, err := evalText("{% set a = x|merge(y) %}{% set b = x|merge(['second', 'more']) %}{% set c = x|merge(x) %}{{ a|json_encode }}#{{ b|json_encode }}#{{ x|json_encode }}#{{ a|json_encode }}", ctx)
		if err != nil {
			return err
		}
		parts := strings.Split(two, "#")
		wantB := append(append([]interface{}{}, xe...), "second", "more")
		if len(parts) != 4 || parts[0] != showJ(want) || parts[3] != showJ(want) || parts[1] != showJ(wantB) || parts[2] != showJ(append([]interface{}{}, xe...)) {
			return fmt.Errorf("two merges of the same list: a = x|merge(y), b = x|merge(['second','more']), then x and a again print %s; want %s#%s#%s#%s", two, showJ(want), showJ(wantB), showJ(append([]interface{}{}, xe...)), showJ(want))
		}
	case "mergemap":
		got, err := evalJSON("x|merge(y)", ctx)
		if err != nil {
			return err
		}
		want := map[string]interface{}{}
		for i, k := range c.X.Ks {
			want[k] = mapVal(c.X, i)
		}
		for i, k := range c.Y.Ks {
			want[k] = mapVal(c.Y, i)
		}
		if !jsonEq(got, want) {
			return fmt.Errorf("merge of maps %s and %s = %s, want %s", PrintE2(c.X), PrintE2(c.Y), showJ(got), showJ(want))
		}
		keys, err := evalJSON("x|merge(y)|keys", ctx)
		if err != nil {
			return err
		}
		var wk []string
		for k := range want {
			wk = append(wk, k)
		}
		sort.Strings(wk)
		gk, _ := keys.([]interface{})
		gs := make([]string, len(gk))
		for i, k := range gk {
			gs[i] = fmt.Sprint(k)
		}
		sort.Strings(gs)
		if strings.Join(gs, "\x00") != strings.Join(wk, "\x00") {
			return fmt.Errorf("keys of the merged map = %s, want each of %v exactly once", showJ(keys), wk)
		}
		// keys of one map object before and after its owner replaced a key (same size): every key
		// once, each time
		data := zooCtx(ctx, 0)
		eng := newEngine(map[string]string{"main": "{{ x|keys|json_encode }}#{% for k, v in x %}.{% endfor %}#{{ x|length }}"})
		for round := 0; round < 2; round++ {
			rv := reflect.ValueOf(data["x"])
			if !rv.IsValid() || rv.Kind() != reflect.Map {
				break
			}
			var wantKeys []string
			for _, k := range rv.MapKeys() {
				wantKeys = append(wantKeys, fmt.Sprint(k.Interface()))
			}
			sort.Strings(wantKeys)
			r := render(eng, "main", data)
			if r.Failed() {
				return fmt.Errorf("keys/for/length on %s failed in round %d: %v", PrintE2(c.X), round, r)
			}
			parts := strings.Split(r.Out, "#")
			var gotKeys []interface{}
			if len(parts) != 3 || json.Unmarshal([]byte(parts[0]), &gotKeys) != nil {
				return fmt.Errorf("harness: unexpected output %s", q(r.Out))
			}
			gotS := make([]string, len(gotKeys))
			for i, k := range gotKeys {
				gotS[i] = fmt.Sprint(k)
			}
			sort.Strings(gotS)
			if strings.Join(gotS, "\x00") != strings.Join(wantKeys, "\x00") || len(parts[1]) != len(wantKeys) || parts[2] != fmt.Sprint(len(wantKeys)) {
				return fmt.Errorf("round %d (%s): keys = %s, for ran %d times, length = %s; the map holds the keys %v", round, []string{"as given", "after its owner replaced one key by another"}[round], parts[0], len(parts[1]), parts[2], wantKeys)
			}
			if !c03SwapKey(map[string]interface{}{"x": data["x"]}) {
				break
			}
		}
	case "slice":
		elems, ok := descElems(c.X)
		if !ok {
			return nil
		}
		start, length := c.Args[0], c.Args[1]
		expr := fmt.Sprintf("x|slice(%d, %d)", start, length)
		if c.Omit {
			expr = fmt.Sprintf("x|slice(%d)", start)
		}
		got, err := evalJSON(expr, ctx)
		if err != nil {
			return err
		}
		// the same arguments written as filter expressions of their own (nested chains with
		// arguments inside the arguments), evaluated twice in one template: same result
		nested := fmt.Sprintf("x|slice(nul|default(%d), nul|default(%d)|abs * %d)", start, length, sign(length))
		if c.Omit {
			nested = fmt.Sprintf("x|slice(nul|default(%d)|round(0))", start)
			// a length that is written and evaluates to null is an omitted length too
			for _, spelled := range []string{fmt.Sprintf("x|slice(%d, null)", start), fmt.Sprintf("x|slice(%d, nul)", start), fmt.Sprintf("x|slice(%d, nope)", start), fmt.Sprintf("x|slice(%d, true ? null : 2)", start)} {
				g2, err := evalJSON(spelled, ctx)
				if err != nil {
					return err
				}
				if !reflect.DeepEqual(g2, got) {
					return fmt.Errorf("%s = %v but %s = %v on %s (a null length is an omitted length)", expr, got, spelled, g2, PrintE2(c.X))
				}
			}
		}
		two, err := evalText("{{ ("+nested+")|json_encode }}#{{ ("+nested+")|json_encode }}#{{ ("+expr+")|json_encode }}", ctx)
		if err != nil {
			return err
		}
		if parts := strings.Split(two, "#"); len(parts) != 3 || parts[0] != parts[2] || parts[1] != parts[2] {
			return fmt.Errorf("%s and the same call with its arguments written as nested filter chains (%s, evaluated twice) give %s on %s", expr, nested, two, PrintE2(c.X))
		}
		from, to := refSlice(len(elems), start, length, c.Omit)
		want := append([]interface{}{}, elems[from:to]...)
		var wantV interface{} = want
		if c.X.K == "str" {
			s := ""
			for _, e := range want {
				s += e.(string)
			}
			wantV = s
			if !jsonEq(got, wantV) {
				return fmt.Errorf("%s on %s = %s, want %s", expr, PrintE2(c.X), showJ(got), showJ(wantV))
			}
			return nil
		}
		if !jsonEq(normList(got), want) {
			return fmt.Errorf("%s on %s = %s, want %s", expr, PrintE2(c.X), showJ(got), showJ(want))
		}
	default:
		return fmt.Errorf("unknown law %q", c.Law)
	}
	return c19Spellings(c, ctx)
}

func sign(n int) int {
	if n < 0 {
		return -1
	}
	return 1
}

func mapVal(e *E, i int) interface{} {
	switch e.M {
	case "map[string]string":
		return e.A[i].S
	}
	if e.A[i].K == "str" {
		return e.A[i].S
	}
	return e.A[i].I
}

// normJSON turns json.Number into int64/float64.
func normJSON(v interface{}) interface{} {
	if n, ok := v.(json.Number); ok {
		if i, err := n.Int64(); err == nil {
			return i
		}
		f, _ := n.Float64()
		return f
	}
	return v
}

func normList(v interface{}) []interface{} {
	l, ok := v.([]interface{})
	if !ok {
		return nil
	}
	out := make([]interface{}, len(l))
	for i, e := range l {
		out[i] = normJSON(e)
	}
	return out
}

// ---- generators ---------------------------------------------------------------------------------

var c19Strings = []string{"", "a", "hello", "Hello World", "  padded  ", "héllo", "éa", "日本語", "ǆemal", "straße", "İstanbul", "a\tb\nc", "MiXeD cAsE", "x", "éé", "ß", "ŉ", "ǅ", "ﬁn", "😀 smile", "tab\there", "ÀÉÎ õü", "ǰ", "ΐ",
	// combining marks (also leading, doubled, at the end), joiners, variation selectors: a character for
	// these filters is a code point
	"\nline\n", "\n  indented\n  ", "\r\nx\r\n", "x\n", "\u0301a", "e\u0301\u0301x", "noe\u0308l", "a\u0301", "\u0301", "\u0301\u0302", "x\u200dy", "\u2764\ufe0f ok", "\U0001F468\u200d\U0001F469", "a\u0300b\u0301c\u0302"}

func genStrDesc(t *rapid.T) *E {
	switch rapid.IntRange(0, 3).Draw(t, "strk") {
	case 0:
		return Str(rapid.SampledFrom(c19Strings).Draw(t, "cs"))
	case 1:
		s := rapid.StringOfN(rapid.RuneFrom(nil, unicode.Letter, unicode.Space, unicode.Mn), 0, 8, -1).Draw(t, "us")
		return Str(s)
	case 2:
		return ZT(Str(rapid.SampledFrom(c19Strings).Draw(t, "ns")), "named")
	default:
		return Str(rapid.StringMatching(`[ a-zA-Z]{0,10}`).Draw(t, "as"))
	}
}

func genListDesc(t *rapid.T, kind string) *E {
	n := rapid.IntRange(0, 7).Draw(t, "ln")
	items := make([]*E, n)
	typ := ""
	switch kind {
	case "int":
		typ = rapid.SampledFrom([]string{"", "", "[]int", "[]float64", "[3]int"}).Draw(t, "ltyp")
		for i := range items {
			items[i] = Int(int64(rapid.IntRange(-20, 120).Draw(t, "li")))
		}
	default:
		typ = rapid.SampledFrom([]string{"", "[]string", "named[]string"}).Draw(t, "ltyp")
		for i := range items {
			items[i] = Str(rapid.SampledFrom([]string{"a", "b", "ab", "B", "10", "9", "é", "zz", "", "a b"}).Draw(t, "ls"))
		}
	}
	return &E{K: "list", A: items, M: typ}
}

func c19Tricky(x *E) bool {
	switch x.K {
	case "str":
		return !isASCII(x.S) || x.S == "" || x.M != ""
	case "list":
		return x.M != "" || len(x.A) == 0
	case "hash":
		return x.M != "" || len(x.A) == 0
	}
	return false
}

const c19Rule = "per law (idempotence of upper/lower/trim/capitalize; reverse involution; sort = ordered permutation; length = for-iterations = what first/last/slice see (for []byte as mutual agreement, whatever the unit); join/split round trip (single-character separators, ASCII and multi-byte; lists with empty strings); list merge = concatenation, also for two merges of the same operand (slices with spare capacity); map merge = later wins + keys once; slice index rules) inputs of every supported type: strings (ASCII, multi-byte, special-casing letters, named string type), untyped lists (for sort also of integers beyond 2^53 that differ by less than a float64 ulp, compared exactly), []int, []string, []float64, [3]int arrays, untyped and typed maps; slice arguments in [-(n+2), n+2] and omitted, written as literals and as nested filter chains; non-trivial = multi-byte string, typed slice/map, negative/out-of-range/omitted argument or empty input; distinct by (law, input, arguments)"

func TestC19Laws(t *testing.T) {
	r := NewRec(t, "C19", c19Rule)
	defer r.Flush()
	rapid.Check(t, func(rt *rapid.T) {
		var c C19Case
		nt := false
		c.Law = rapid.SampledFrom([]string{"idempotent", "reverse", "sort", "length", "joinsplit", "merge", "mergemap", "slice", "lengthself"}).Draw(rt, "law")
		switch c.Law {
		case "idempotent":
			c.X = genStrDesc(rt)
			if !utf8.ValidString(c.X.S) {
				c.X = Str("x")
			}
		case "reverse", "length":
			if rapid.Bool().Draw(rt, "strOrList") {
				c.X = genStrDesc(rt)
			} else {
				c.X = genListDesc(rt, rapid.SampledFrom([]string{"int", "str"}).Draw(rt, "lk"))
			}
		case "lengthself":
			c.X = ZT(genStrDesc(rt), "bytes")
			c.X.M = "bytes"
			nt = true
		case "sort":
			c.X = genListDesc(rt, rapid.SampledFrom([]string{"int", "str"}).Draw(rt, "lk"))
			if rapid.IntRange(0, 5).Draw(rt, "bigints") == 0 {
				// integers that differ by less than one float64 ulp (ids, nanosecond timestamps)
				base := rapid.SampledFrom([]int64{1 << 53, 1 << 62, -(1 << 53) - 100, 1709647629000000000}).Draw(rt, "bigbase")
				n := rapid.IntRange(2, 6).Draw(rt, "nbig")
				items := make([]*E, n)
				for i := range items {
					items[i] = Int(base + int64(rapid.IntRange(0, 7).Draw(rt, "off")))
				}
				c.X = List(items...)
				if rapid.Bool().Draw(rt, "typedbig") {
					c.X = ZT(c.X, "[]int")
				}
				nt = true
			}
		case "joinsplit":
			c.X = genListDesc(rt, "str")
			c.Sep = rapid.SampledFrom([]string{",", "|", ";", "/", "-", "#", " ", "\u00b7", "\u2192", "\u2014", "\u00e9", "\U0001F600"}).Draw(rt, "sep")
			if rapid.IntRange(0, 3).Draw(rt, "withempty") == 0 && len(c.X.A) > 0 {
				// empty strings are separator-free strings too
				c.X.A[rapid.IntRange(0, len(c.X.A)-1).Draw(rt, "emptyat")] = Str("")
				c.X.A = append(c.X.A, Str(""))
			}
			// separator-free, non-empty list (join of an empty list splits into [''])
			for _, a := range c.X.A {
				a.S = strings.ReplaceAll(a.S, c.Sep, "")
			}
			if len(c.X.A) == 0 {
				c.X.A = []*E{Str("only")}
			}
		case "merge":
			k := rapid.SampledFrom([]string{"int", "str"}).Draw(rt, "lk")
			c.X = genListDesc(rt, k)
			c.Y = genListDesc(rt, rapid.SampledFrom([]string{"int", "str"}).Draw(rt, "lk2"))
		case "mergemap":
			c.X = genMapDesc(rt, 0, "X")
			c.Y = genMapDesc(rt, 0, "Y")
			if c.X.M == "map[int]string" || c.X.M == "map[iface]" || c.X.M == "map[int64]string" || c.X.M == "map[uint64]string" || c.X.M == "map[mixed]" || c.X.M == "map[mixed2]" || c.X.M == "map[structkey]" || c.X.M == "map[arraykey]" || c.X.M == "map[widths]" {
				c.X.M = ""
			}
			if c.Y.M == "map[int]string" || c.Y.M == "map[iface]" || c.Y.M == "map[int64]string" || c.Y.M == "map[uint64]string" || c.Y.M == "map[mixed]" || c.Y.M == "map[mixed2]" || c.Y.M == "map[structkey]" || c.Y.M == "map[arraykey]" || c.Y.M == "map[widths]" {
				c.Y.M = ""
			}
		case "slice":
			if rapid.Bool().Draw(rt, "strOrList") {
				c.X = genStrDesc(rt)
			} else {
				c.X = genListDesc(rt, rapid.SampledFrom([]string{"int", "str"}).Draw(rt, "lk"))
			}
			el, _ := descElems(c.X)
			n := len(el)
			c.Args = []int{rapid.IntRange(-(n+2), n+2).Draw(rt, "start"), rapid.IntRange(-(n+2), n+2).Draw(rt, "len")}
			c.Omit = rapid.IntRange(0, 3).Draw(rt, "omit") == 0
			nt = c.Omit || c.Args[0] < 0 || c.Args[1] < 0 || c.Args[0] > n || c.Args[0]+c.Args[1] > n
		}
		nt = nt || c19Tricky(c.X) || (c.Y != nil && c19Tricky(c.Y))
		key := c.Law + PrintE2(c.X) + fmt.Sprint(c.Args, c.Omit, c.Sep)
		if c.Y != nil {
			key += PrintE2(c.Y)
		}
		r.Case(key, nt, map[string]interface{}{"law": c.Law, "x": PrintE2(c.X), "args": c.Args, "omit": c.Omit}, "law:"+c.Law)
		if err := checkC19(c); err != nil {
			r.Fail(rt, "C19.law", c, err)
		}
	})
}

// TestC19SliceGrid: the slice reference on every (start, length) in [-(n+2), n+2]^2 plus
// omitted length, for n = 0..6, on five sequence types.
func TestC19SliceGrid(t *testing.T) {
	r := NewRec(t, "C19", "exhaustive: slice(start, length) and slice(start) for every start, length in [-(n+2), n+2], n = 0..6, on ASCII strings, multi-byte strings, untyped lists, []int, []string and [3]int arrays against a reference of Twig's index rules; non-trivial = negative, out-of-range or omitted argument")
	defer r.Flush()
	r.SetExhaustive()
	alphabet := []string{"a", "é", "日", "b", "ö", "c"}
	for n := 0; n <= 6; n++ {
		var ascii, multi string
		var li, ls []*E
		for i := 0; i < n; i++ {
			ascii += string(rune('a' + i))
			multi += alphabet[i]
			li = append(li, Int(int64(10+i)))
			ls = append(ls, Str(alphabet[i]))
		}
		inputs := []*E{Str(ascii), Str(multi), List(li...), ZT(List(li...), "[]int"), ZT(List(ls...), "[]string")}
		if n == 3 {
			inputs = append(inputs, ZT(List(li...), "[3]int"))
		}
		for _, x := range inputs {
			for start := -(n + 2); start <= n+2; start++ {
				for length := -(n + 2); length <= n+3; length++ {
					c := C19Case{Law: "slice", X: x, Args: []int{start, length}}
					if length == n+3 {
						c.Omit = true
						c.Args[1] = 0
					}
					nt := c.Omit || start < 0 || length < 0 || start > n || start+length > n
					r.Case(PrintE2(x)+fmt.Sprint(start, length, c.Omit), nt, fmt.Sprintf("%s|slice(%d,%d) omit=%v", PrintE2(x), start, length, c.Omit))
					if err := checkC19(c); err != nil {
						r.FailEnum(t, "C19.law", c, err)
					}
				}
			}
		}
	}
}

// ---- default -------------------------------------------------------------------------------------

type C19DefaultCase struct {
	Expr  string `json:"expr"`  // expression the filter is applied to
	Empty bool   `json:"empty"` // whether the property counts its value as empty/undefined
	Ctx   Ctx    `json:"ctx"`
}

func checkC19Default(c C19DefaultCase) error {
	got, err := evalJSON("("+c.Expr+")|default('DFLT')", c.Ctx)
	if err != nil {
		return err
	}
	// what a for loop iterates when the defaulted expression is its sequence (also written
	// without the parentheses where the expression is a plain name)
	seqs := []string{"(" + c.Expr + ")|default([7, 8])"}
	if isIdent(c.Expr) {
		seqs = append(seqs, c.Expr+"|default([7, 8])")
	}
	for _, seq := range seqs {
		loop, err := evalText("{% for q in "+seq+" %}<{{ q is iterable ? 'it' : q }}>{% else %}NONE{% endfor %}", c.Ctx)
		if err != nil {
			return err
		}
		if c.Empty && loop != "<7><8>" {
			return fmt.Errorf("for q in %s iterates %s: the value is empty/undefined, the loop must see the default [7, 8]", seq, q(loop))
		}
		if !c.Empty && loop == "<7><8>" {
			return fmt.Errorf("for q in %s iterates the default although the value is not empty", seq)
		}
	}
	if c.Empty {
		if !jsonEq(got, "DFLT") {
			return fmt.Errorf("(%s)|default('DFLT') = %s: an empty/undefined value must be replaced", c.Expr, showJ(got))
		}
		return nil
	}
	orig, err := evalJSON(c.Expr, c.Ctx)
	if err != nil {
		return err
	}
	if !jsonEq(got, orig) {
		return fmt.Errorf("(%s)|default('DFLT') = %s but the value %s is not empty", c.Expr, showJ(got), showJ(orig))
	}
	return nil
}

func isIdent(s string) bool {
	if s == "" {
		return false
	}
	for i, ch := range s {
		if !(ch == '_' || ch >= 'a' && ch <= 'z' || ch >= 'A' && ch <= 'Z' || i > 0 && ch >= '0' && ch <= '9') {
			return false
		}
	}
	return s != "null" && s != "true" && s != "false" && s != "none"
}

func TestC19Default(t *testing.T) {
	r := NewRec(t, "C19", "exhaustive: default on every empty value (undefined, null, '', false, 0, computed 0, 0.0, [], {}, typed empties, zero values of every numeric width) and on non-empty values ('0', ' ', 'a', 1, -1, true, [0], {'k':0}, typed non-empties), as literal and as context value; all cases non-trivial")
	defer r.Flush()
	r.SetExhaustive()
	var ctx Ctx
	ctx.Set("nul", Null())
	ctx.Set("es", Str(""))
	ctx.Set("fa", Bool(false))
	ctx.Set("z", Int(0))
	ctx.Set("el", List())
	ctx.Set("em", Hash(nil, nil))
	for _, w := range []string{"int8", "int16", "int32", "int64", "uint", "uint8", "uint16", "uint32", "uint64", "float32", "float64", "named"} {
		ctx.Set("z_"+w, ZT(Int(0), w))
		ctx.Set("n_"+w, ZT(Int(8), w))
	}
	ctx.Set("tel", ZT(List(), "[]int"))
	ctx.Set("tem", ZT(Hash(nil, nil), "map[string]int"))
	ctx.Set("tes", ZT(Str(""), "named"))
	ctx.Set("tl", ZT(List(Int(0)), "[]int"))
	ctx.Set("tm", ZT(Hash([]string{"k"}, []*E{Int(0)}), "map[string]int"))
	ctx.Set("one", Int(1))
	ctx.Set("s0", Str("0"))
	empties := []string{"undefined_name", "nul", "es", "fa", "z", "el", "em", "null", "''", "false", "0", "[]", "{}", "one - one", "0 * 5", "tel", "tem", "tes"}
	nonEmpties := []string{"s0", "'0'", "' '", "'a'", "1", "0 - 1", "true", "[0]", "{'k': 0}", "one", "tl", "tm", "['']"}
	for _, w := range []string{"int8", "int16", "int32", "int64", "uint", "uint8", "uint16", "uint32", "uint64", "float32", "float64", "named"} {
		empties = append(empties, "z_"+w)
		nonEmpties = append(nonEmpties, "n_"+w)
	}
	for _, e := range empties {
		c := C19DefaultCase{Expr: e, Empty: true, Ctx: ctx}
		r.Case(e, true, e+" (empty)")
		if err := checkC19Default(c); err != nil {
			r.FailEnum(t, "C19.default", c, err)
		}
	}
	for _, e := range nonEmpties {
		c := C19DefaultCase{Expr: e, Empty: false, Ctx: ctx}
		r.Case(e, true, e+" (not empty)")
		if err := checkC19Default(c); err != nil {
			r.FailEnum(t, "C19.default", c, err)
		}
	}
}

// ---- abs / round / number_format against exact decimal arithmetic ----------------------------------

type C19NumCase struct {
	Num    string `json:"num"` // decimal numeral as written, e.g. "-12.345"
	Filter string `json:"filter"`
	P      int    `json:"p"`
	Method string `json:"method,omitempty"`
	AsVar  bool   `json:"as_var,omitempty"` // the number is a float64 context value instead of a literal
}

var pow10 = []int64{1, 10, 100, 1000, 10000}

// decRound returns the admissible results of rounding x to p decimals by method.
func decRound(x *big.Rat, p int, method string) []*big.Rat {
	// 10^p as a rational, also for negative p (rounding to tens, hundreds, ...)
	scale := new(big.Rat).SetInt64(1)
	for i := 0; i < p; i++ {
		scale.Mul(scale, big.NewRat(10, 1))
	}
	for i := 0; i > p; i-- {
		scale.Mul(scale, big.NewRat(1, 10))
	}
	scaled := new(big.Rat).Mul(x, scale)
	floor := new(big.Int).Div(scaled.Num(), scaled.Denom()) // Div is Euclidean: floor for positive denominators
	fl := new(big.Rat).SetInt(floor)
	isInt := scaled.IsInt()
	ce := new(big.Rat).Set(fl)
	if !isInt {
		ce.Add(fl, big.NewRat(1, 1))
	}
	unscale := func(r *big.Rat) *big.Rat { return new(big.Rat).Quo(r, scale) }
	switch method {
	case "floor":
		return []*big.Rat{unscale(fl)}
	case "ceil":
		return []*big.Rat{unscale(ce)}
	}
	diff := new(big.Rat).Sub(scaled, fl)
	half := big.NewRat(1, 2)
	switch diff.Cmp(half) {
	case -1:
		return []*big.Rat{unscale(fl)}
	case 1:
		return []*big.Rat{unscale(ce)}
	}
	return []*big.Rat{unscale(fl), unscale(ce)} // exact tie: the statement names no tie rule
}

func checkC19Num(c C19NumCase) error {
	x, ok := new(big.Rat).SetString(c.Num)
	if !ok {
		return fmt.Errorf("bad numeral %q", c.Num)
	}
	var ctx Ctx
	operand := "(" + c.Num + ")"
	vars := map[string]interface{}{}
	if c.AsVar {
		f, _ := strconv.ParseFloat(c.Num, 64)
		vars["v"] = f
		operand = "v"
	}
	_ = ctx
	var src string
	switch c.Filter {
	case "abs":
		src = "{{ " + operand + "|abs }}"
	case "round":
		if c.Method == "" {
			src = fmt.Sprintf("{{ %s|round(%d) }}", operand, c.P)
		} else {
			src = fmt.Sprintf("{{ %s|round(%d, '%s') }}", operand, c.P, c.Method)
		}
	case "number_format":
		src = fmt.Sprintf("{{ %s|number_format(%d, '.', ',') }}", operand, c.P)
	}
	r := render1(src, vars)
	if r.Failed() {
		return fmt.Errorf("%s failed: %v", q(src), r)
	}
	out := r.Out
	switch c.Filter {
	case "abs":
		got, ok := new(big.Rat).SetString(out)
		if !ok || got.Cmp(new(big.Rat).Abs(x)) != 0 {
			return fmt.Errorf("%s = %s, want |%s|", src, q(out), c.Num)
		}
	case "round":
		got, ok := new(big.Rat).SetString(out)
		if !ok {
			return fmt.Errorf("%s = %s: not a number", src, q(out))
		}
		for _, w := range decRound(x, c.P, c.Method) {
			if got.Cmp(w) == 0 {
				return nil
			}
		}
		return fmt.Errorf("%s = %s, exact decimal arithmetic gives %v", src, q(out), ratStrings(decRound(x, c.P, c.Method), c.P))
	case "number_format":
		// structure: optional '-', digit groups of three separated by ',', '.', exactly P decimals
		plain := strings.ReplaceAll(out, ",", "")
		got, ok := new(big.Rat).SetString(plain)
		if !ok {
			return fmt.Errorf("%s = %s: not a number", src, q(out))
		}
		okVal := false
		for _, w := range decRound(x, c.P, "") {
			if got.Cmp(w) == 0 {
				okVal = true
			}
		}
		if !okVal {
			return fmt.Errorf("%s = %s, exact decimal arithmetic gives %v", src, q(out), ratStrings(decRound(x, c.P, ""), c.P))
		}
		body := strings.TrimPrefix(out, "-")
		intPart, frac := body, ""
		if i := strings.IndexByte(body, '.'); i >= 0 {
			intPart, frac = body[:i], body[i+1:]
		}
		if len(frac) != c.P {
			return fmt.Errorf("%s = %s: want exactly %d decimals", src, q(out), c.P)
		}
		groups := strings.Split(intPart, ",")
		for gi, g := range groups {
			if g == "" || (gi > 0 && len(g) != 3) || (gi == 0 && len(g) > 3) {
				return fmt.Errorf("%s = %s: thousands grouping is wrong", src, q(out))
			}
			for _, ch := range g {
				if ch < '0' || ch > '9' {
					return fmt.Errorf("%s = %s: unexpected character in the integer part", src, q(out))
				}
			}
		}
	}
	return nil
}

func ratStrings(rs []*big.Rat, p int) []string {
	var out []string
	for _, r := range rs {
		if p < 0 {
			out = append(out, r.FloatString(0))
			continue
		}
		out = append(out, r.FloatString(p))
	}
	return out
}

func genNumeral(t *rapid.T) string {
	intPart := rapid.SampledFrom([]int{0, 1, 2, 5, 9, 10, 12, 99, 100, 999, 1000, 1234, 12345, 999999, 1234567, 123456789}).Draw(t, "ip")
	if rapid.IntRange(0, 2).Draw(t, "rndint") == 0 {
		intPart = rapid.IntRange(0, 1000000000).Draw(t, "ipr")
	}
	nd := rapid.IntRange(0, 3).Draw(t, "nd")
	s := strconv.Itoa(intPart)
	if nd > 0 {
		frac := rapid.IntRange(0, int(pow10[nd])-1).Draw(t, "frac")
		if rapid.IntRange(0, 3).Draw(t, "tie") == 0 {
			frac = frac/10*10 + 5 // ends in 5: ties at the next coarser precision
			if frac >= int(pow10[nd]) {
				frac = 5
			}
		}
		s += "." + fmt.Sprintf("%0*d", nd, frac)
	}
	if rapid.Bool().Draw(t, "neg") {
		s = "-" + s
	}
	return s
}

func TestC19Numbers(t *testing.T) {
	r := NewRec(t, "C19", "abs, round(p, common|ceil|floor) and number_format(p) on decimal numerals with <= 3 fractional digits and |x| <= 10^9 (literals and float64 context values), p in 0..3 (round also -3..-1), compared with exact decimal arithmetic (math/big.Rat); on exact decimal ties either neighbour is accepted; grouping and decimals of number_format checked structurally; non-trivial = the numeral has a fractional part or needs grouping")
	defer r.Flush()
	rapid.Check(t, func(rt *rapid.T) {
		c := C19NumCase{Num: genNumeral(rt), Filter: rapid.SampledFrom([]string{"abs", "round", "round", "number_format"}).Draw(rt, "nf"), P: rapid.IntRange(0, 3).Draw(rt, "p"), AsVar: rapid.Bool().Draw(rt, "asvar")}
		if c.Filter == "round" {
			c.Method = rapid.SampledFrom([]string{"", "common", "ceil", "floor"}).Draw(rt, "method")
			// negative precision rounds to tens, hundreds, thousands (whole numbers included)
			if rapid.IntRange(0, 2).Draw(rt, "negp") == 0 {
				c.P = -rapid.IntRange(1, 3).Draw(rt, "np")
			}
		}
		nt := strings.Contains(c.Num, ".") || len(strings.TrimPrefix(c.Num, "-")) > 3
		r.Case(fmt.Sprint(c), nt, c, "filter:"+c.Filter+c.Method)
		if err := checkC19Num(c); err != nil {
			r.Fail(rt, "C19.num", c, err)
		}
	})
}

func init() {
	reg("C19.law", checkC19)
	reg("C19.default", checkC19Default)
	reg("C19.num", checkC19Num)
}

// ---- number_format with many decimals, on numbers that float64 holds exactly ----------------------------

type C19DyadicCase struct {
	K int `json:"k"` // the number is K / 2^M
	M int `json:"m"`
	P int `json:"p"` // decimals, >= M (so that nothing is rounded)
}

func checkC19Dyadic(c C19DyadicCase) error {
	x := float64(c.K) / float64(int64(1)<<uint(c.M))
	want := new(big.Rat).SetFrac64(int64(c.K), int64(1)<<uint(c.M)).FloatString(c.P)
	r := render1(fmt.Sprintf("{{ x|number_format(%d, '.', '') }}", c.P), map[string]interface{}{"x": x})
	if r.Failed() || r.Out != want {
		return fmt.Errorf("(%d / 2^%d)|number_format(%d, '.', '') = %v, the exact decimal expansion is %s", c.K, c.M, c.P, r, want)
	}
	return nil
}

func TestC19Dyadic(t *testing.T) {
	r := NewRec(t, "C19", "exhaustive: number_format(p, '.', '') of k / 2^m (exact in float64) for m in 0..24, k in {1, 3, -5, 1023}, p in {m, m+1, 14, 15, 16, 20, 30} with p >= m (no rounding involved); oracle: the exact decimal expansion (math/big); non-trivial = p > 3")
	defer r.Flush()
	r.SetExhaustive()
	for m := 0; m <= 24; m++ {
		for _, k := range []int{1, 3, -5, 1023} {
			for _, p := range []int{m, m + 1, 14, 15, 16, 20, 30} {
				if p < m {
					continue
				}
				c := C19DyadicCase{K: k, M: m, P: p}
				r.Case(fmt.Sprint(c), p > 3, c)
				if err := checkC19Dyadic(c); err != nil {
					r.FailEnumKey(t, "C19.dyadic", fmt.Sprint(p > 14), c, err)
				}
			}
		}
	}
}

func init() { reg("C19.dyadic", checkC19Dyadic) }

// ---- abs / round / number_format on integers and floats of every width --------------------------------

type C19WidthCase struct {
	Kind   string `json:"kind"` // Go type of the context value
	Num    string `json:"num"`  // its value as a decimal numeral
	Filter string `json:"filter"`
}

func c19WidthValue(kind, num string) (interface{}, bool) {
	i, ierr := strconv.ParseInt(num, 10, 64)
	u, uerr := strconv.ParseUint(num, 10, 64)
	f, _ := strconv.ParseFloat(num, 64)
	switch kind {
	case "int":
		return int(i), ierr == nil
	case "int8":
		return int8(i), ierr == nil && i >= -128 && i <= 127
	case "int16":
		return int16(i), ierr == nil && i >= -32768 && i <= 32767
	case "int32":
		return int32(i), ierr == nil && i >= -(1<<31) && i < 1<<31
	case "int64":
		return i, ierr == nil
	case "uint":
		return uint(u), uerr == nil
	case "uint8":
		return uint8(u), uerr == nil && u <= 255
	case "uint16":
		return uint16(u), uerr == nil && u <= 65535
	case "uint32":
		return uint32(u), uerr == nil && u < 1<<32
	case "uint64":
		return u, uerr == nil
	case "named":
		return zNamedInt(i), ierr == nil
	case "float32":
		return float32(f), float64(float32(f)) == f
	case "float64":
		return f, true
	}
	return nil, false
}

func checkC19Width(c C19WidthCase) error {
	v, ok := c19WidthValue(c.Kind, c.Num)
	if !ok {
		return nil
	}
	x, _ := new(big.Rat).SetString(c.Num)
	src := map[string]string{"abs": "{{ v|abs }}", "round": "{{ v|round }}", "round1": "{{ v|round(1) }}", "number_format": "{{ v|number_format(0, '.', '') }}", "number_format2": "{{ v|number_format(2, '.', '') }}"}[c.Filter]
	r := render1(src, map[string]interface{}{"v": v})
	if r.Failed() {
		return fmt.Errorf("%s with v = %s(%s) failed: %v", src, c.Kind, c.Num, r)
	}
	got, ok := new(big.Rat).SetString(r.Out)
	if !ok {
		return fmt.Errorf("%s with v = %s(%s) = %s: not a number", src, c.Kind, c.Num, q(r.Out))
	}
	var want []*big.Rat
	switch c.Filter {
	case "abs":
		want = []*big.Rat{new(big.Rat).Abs(x)}
	case "round", "number_format":
		want = decRound(x, 0, "")
	case "round1":
		want = decRound(x, 1, "")
	case "number_format2":
		want = decRound(x, 2, "")
	}
	if c.Filter == "number_format2" {
		if i := strings.IndexByte(r.Out, '.'); i < 0 || len(r.Out)-i-1 != 2 {
			return fmt.Errorf("%s with v = %s(%s) = %s: want exactly 2 decimals", src, c.Kind, c.Num, q(r.Out))
		}
	}
	for _, w := range want {
		if got.Cmp(w) == 0 {
			return nil
		}
	}
	return fmt.Errorf("%s with v = %s(%s) = %s, exact decimal arithmetic gives %v", src, c.Kind, c.Num, q(r.Out), ratStrings(want, 2))
}

func TestC19Widths(t *testing.T) {
	r := NewRec(t, "C19", "exhaustive: abs, round, round(1), number_format(0) and number_format(2) on context values of 13 Go number types (int, int8..int64, uint, uint8..uint64, a named int, float32, float64) x 24 numerals that fit the type (0, small, the bounds of each width, +-(2^53 + 1) and the int64 / uint64 bounds for abs and round, 1e20 and -1e19 as float64 for round, halves and quarters for the floats); oracle: exact decimal arithmetic (math/big); non-trivial = the type is not int or float64")
	defer r.Flush()
	r.SetExhaustive()
	nums := []string{"0", "7", "-5", "100", "-100", "127", "-128", "255", "32767", "-32768", "65535", "2147483647", "-2147483648", "4294967295", "1234567", "-1234567", "0.5", "-2.25", "1.5", "-0.75", "1024.125"}
	big53 := []string{"9007199254740993", "-9007199254740993", "9223372036854775807", "-9223372036854775807", "18446744073709551615"}
	for _, kind := range []string{"int", "int8", "int16", "int32", "int64", "uint", "uint8", "uint16", "uint32", "uint64", "named", "float32", "float64"} {
		for _, f := range []string{"abs", "round", "round1", "number_format", "number_format2"} {
			ns := nums
			if (f == "abs" || f == "round" || f == "round1") && kind != "float32" && kind != "float64" {
				// integers beyond 2^53 and at the bounds of their type: abs and round are exact
				ns = append(append([]string{}, nums...), big53...)
			}
			if f == "round" && kind == "float64" {
				// floats beyond the integer range
				ns = append(append([]string{}, nums...), "100000000000000000000", "-10000000000000000000")
			}
			for _, n := range ns {
				c := C19WidthCase{Kind: kind, Num: n, Filter: f}
				if _, ok := c19WidthValue(kind, n); !ok {
					continue
				}
				r.Case(kind+n+f, kind != "int" && kind != "float64", c)
				if err := checkC19Width(c); err != nil {
					r.FailEnumKey(t, "C19.width", kind+"/"+f, c, err)
				}
			}
		}
	}
}

func init() { reg("C19.width", checkC19Width) }

// ---- first and last of a map ---------------------------------------------------------------------------------

type C19MapEndsCase struct {
	M *E `json:"m"`
}

// checkC19MapEnds: first and last of a map are the first and the last value a for loop over it
// observes, and length is their number.
func checkC19MapEnds(c C19MapEndsCase) error {
	ctx := map[string]interface{}{"m": zooGo(c.M, 0)}
	loop := render1("{% for v in m %}{{ v }}\x1f{% endfor %}", ctx)
	if loop.Failed() {
		return fmt.Errorf("for loop over %s failed: %v", PrintE2(c.M), loop)
	}
	seq := strings.Split(strings.TrimSuffix(loop.Out, "\x1f"), "\x1f")
	if loop.Out == "" {
		seq = nil
	}
	r := render1("{{ m|first }}\x1f{{ m|last }}\x1f{{ m|length }}", ctx)
	if r.Failed() {
		return fmt.Errorf("first / last / length of %s failed: %v (a for loop observes %d values)", PrintE2(c.M), r, len(seq))
	}
	got := strings.Split(r.Out, "\x1f")
	wantFirst, wantLast := "", ""
	if len(seq) > 0 {
		wantFirst, wantLast = seq[0], seq[len(seq)-1]
	}
	if len(got) != 3 || got[0] != wantFirst || got[1] != wantLast || got[2] != fmt.Sprint(len(seq)) {
		return fmt.Errorf("m = %s: first, last, length = %q, a for loop observes %q", PrintE2(c.M), got, seq)
	}
	return nil
}

func TestC19MapEnds(t *testing.T) {
	r := NewRec(t, "C19", "exhaustive: first, last and length of 14 maps (untyped, map[string]int, map[string]string, map[int]string, map[int64]string, interface-keyed, empty, one entry, keys that sort differently as text and as numbers) against what a for loop over the same map observes; all cases non-trivial")
	defer r.Flush()
	r.SetExhaustive()
	ks := []string{"b", "a", "10", "9", "zz"}
	vs := []*E{Int(1), Int(2), Int(3), Int(4), Int(5)}
	svs := []*E{Str("v1"), Str("v2"), Str("v3"), Str("v4"), Str("v5")}
	var maps []*E
	for _, n := range []int{0, 1, 2, 5} {
		maps = append(maps, Hash(ks[:n], vs[:n]), ZT(Hash(ks[:n], vs[:n]), "map[string]int"), ZT(Hash(ks[:n], svs[:n]), "map[string]string"))
	}
	maps = append(maps, ZT(Hash(ks, svs), "map[int]string"), ZT(Hash(ks, svs), "map[int64]string"), ZT(Hash(ks, vs), "map[iface]"), ZT(Hash(ks, vs), "map[mixed]"))
	for _, m := range maps {
		c := C19MapEndsCase{M: m}
		r.Case(PrintE2(m), true, PrintE2(m))
		if err := checkC19MapEnds(c); err != nil {
			r.FailEnumKey(t, "C19.mapends", m.M, c, err)
		}
	}
}

func init() { reg("C19.mapends", checkC19MapEnds) }

// ---- filter arguments of every number width --------------------------------------------------------------------

type C19ArgWidthCase struct {
	Kind string `json:"kind"`
	Expr string `json:"expr"` // uses a (= 2) and b (= 3)
}

// checkC19ArgWidth: a filter argument that holds 2 is 2, whatever Go number type carries it.
func checkC19ArgWidth(c C19ArgWidthCase) error {
	a, ok1 := c19WidthValue(c.Kind, "2")
	b, ok2 := c19WidthValue(c.Kind, "3")
	if !ok1 || !ok2 {
		return nil
	}
	src := "{{ " + c.Expr + " }}"
	base := map[string]interface{}{"s": "abcdefgh", "xs": []interface{}{1, 2, 3, 4, 5, 6}, "f": 3.14159, "n": 1234.5678}
	typed, plain := map[string]interface{}{"a": a, "b": b}, map[string]interface{}{"a": 2, "b": 3}
	for k, v := range base {
		typed[k], plain[k] = v, v
	}
	rt, rp := render1(src, typed), render1(src, plain)
	if rp.Failed() {
		return fmt.Errorf("harness: %s fails with int arguments: %v", src, rp)
	}
	if rt.Failed() || rt.Out != rp.Out {
		return fmt.Errorf("%s with a = %s(2), b = %s(3) gives %v; with a = 2, b = 3 as int it gives %v", src, c.Kind, c.Kind, rt, rp)
	}
	return nil
}

func TestC19ArgWidths(t *testing.T) {
	r := NewRec(t, "C19", "exhaustive: 12 Go number types (int8..int64, uint..uint64, a named int, float32, float64) as the arguments of slice (start, length, both, negative), round, number_format, batch-free list filters (slice on lists) and first-of-slice, 12 expressions; oracle: the result with the same numbers as int; non-trivial = the type is not int")
	defer r.Flush()
	r.SetExhaustive()
	for _, kind := range []string{"int8", "int16", "int32", "int64", "uint", "uint8", "uint16", "uint32", "uint64", "named", "float32", "float64"} {
		for _, ex := range []string{"s|slice(a)", "s|slice(a, b)", "s|slice(0, a)", "s|slice(-b, a)", "s|slice(-a)", "xs|slice(a)|join(',')", "xs|slice(a, b)|join(',')", "f|round(a)", "f|round(b, 'floor')", "n|number_format(a)", "n|number_format(b, ',', '.')", "xs|slice(a, b)|first"} {
			c := C19ArgWidthCase{Kind: kind, Expr: ex}
			r.Case(kind+ex, true, c)
			if err := checkC19ArgWidth(c); err != nil {
				r.FailEnumKey(t, "C19.argwidth", kind, c, err)
			}
		}
	}
}

func init() { reg("C19.argwidth", checkC19ArgWidth) }
