package vh

// C08 — expressions follow the operator table and mean the same in every position.
//
// Oracle: engine(minimal spelling) == engine(fully parenthesised spelling) == reference
// model(tree), including the sequence of spy invocations (short-circuit, one conditional
// branch), in each of 11 syntactic positions.

import (
	"errors"
	"fmt"
	"github.com/semihalev/twig"
	"io"
	"regexp"
	"strconv"
	"strings"
	"testing"

	"pgregory.net/rapid"
)

type C08Case struct {
	Ctx  Ctx    `json:"ctx"`
	Expr *E     `json:"expr"`
	Typ  string `json:"typ"` // int | str | bool
	Pos  int    `json:"pos"`
	Kw   int    `json:"kw,omitempty"` // whitespace written after tag keywords (index into kwSpaces)
	// Debug: the engine runs with SetDebug(true) (log output discarded): values and the
	// invocations of the spies must be what they are without it
	Debug bool `json:"debug,omitempty"`
}

// whitespace admissible between a tag keyword and what follows it
var kwSpaces = []string{" ", "\t", "\n", "  ", " \n ", "\r\n"}

var c08PosNames = []string{"print", "if", "elseif", "set", "for-seq", "include-with", "filter-arg", "function-arg", "macro-arg", "array-elem", "hash-value",
	"for-seq-default-of-null", "for-seq-default-of-undefined", "for-seq-conditional", "for-seq-filtered-list",
	"filter-arg-evaluated-twice-in-a-loop", "include-with-only", "include-with-next-to-pairs-named-like-variables",
	"for-seq-two-filters", "for-seq-three-filters"}

// c08Wrap builds the observer templates around the expression text x (of type typ). The
// model side of each position is a fixed function of the expression's value.
func c08Wrap(pos int, x string) map[string]string { return c08WrapKw(pos, x, " ") }

func c08WrapKw(pos int, x string, k string) map[string]string {
	switch pos {
	case 1:
		return map[string]string{"main": "{% if" + k + x + " %}T{% else %}F{% endif %}"}
	case 2:
		return map[string]string{"main": "{% if false %}X{% elseif" + k + x + " %}T{% else %}F{% endif %}"}
	case 3:
		return map[string]string{"main": "{% set" + k + "v = " + x + " %}[{{ v }}]"}
	case 4:
		return map[string]string{"main": "{% for" + k + "i" + k + "in" + k + "[" + x + "] %}<{{ i }}>{% endfor %}"}
	case 5:
		return map[string]string{"main": "{% include" + k + "'inc'" + k + "with" + k + "{'v': " + x + "} %}", "inc": "({{ v }})"}
	}
	return c08Wrap0(pos, x)
}

func c08Wrap0(pos int, x string) map[string]string {
	switch pos {
	case 0:
		return map[string]string{"main": "{{ " + x + " }}"}
	case 1:
		return map[string]string{"main": "{% if " + x + " %}T{% else %}F{% endif %}"}
	case 2:
		return map[string]string{"main": "{% if false %}X{% elseif " + x + " %}T{% else %}F{% endif %}"}
	case 3:
		return map[string]string{"main": "{% set v = " + x + " %}[{{ v }}]"}
	case 4:
		return map[string]string{"main": "{% for i in [" + x + "] %}<{{ i }}>{% endfor %}"}
	case 5:
		return map[string]string{"main": "{% include 'inc' with {'v': " + x + "} %}", "inc": "({{ v }})"}
	case 6:
		return map[string]string{"main": "{{ nul|default(" + x + ") }}"}
	case 7:
		return map[string]string{"main": "{{ id(" + x + ") }}"}
	case 8:
		return map[string]string{"main": "{% macro mm(p) %}#{{ p }}#{% endmacro %}{{ mm(" + x + ") }}"}
	case 9:
		return map[string]string{"main": "{{ [0, " + x + "]|last }}"}
	case 10:
		return map[string]string{"main": "{{ {'k': " + x + "}['k'] }}"}
	// the for sequence written as a filter chain on an empty base, a conditional, a filtered list
	case 11:
		return map[string]string{"main": "{% for i in nul|default([" + x + "]) %}<{{ i }}>{% endfor %}"}
	case 12:
		return map[string]string{"main": "{% for i in c08undefined|default([" + x + "]) %}<{{ i }}>{% else %}EMPTY{% endfor %}"}
	case 13:
		return map[string]string{"main": "{% for i in t ? [" + x + "] : [] %}<{{ i }}>{% endfor %}"}
	case 14:
		return map[string]string{"main": "{% for i in [" + x + "]|merge([]) %}<{{ i }}>{% else %}EMPTY{% endfor %}"}
	case 15:
		// the same filter-argument node evaluated twice with a different loop variable
		return map[string]string{"main": "{% for c08i in [1, 2] %}<{{ nul|default((" + x + ") ~ c08i) }}>{% endfor %}"}
	case 16:
		// with-expressions belong to the including template, also under `only`
		return map[string]string{"main": "{% include 'inc' with {'v': " + x + "} only %}", "inc": "({{ v }})"}
	case 17:
		// pairs named like variables the expression may read must not be visible to it
		return map[string]string{"main": "{% include 'inc' with {'a': 'A', 'b': 'B', 's': 'S', 'v': " + x + ", 'xs': 'X', 'm': 'M', 'c': 'C'} %}", "inc": "({{ v }})"}
	// the for sequence as a chain in which every filter matters
	case 18:
		return map[string]string{"main": "{% for i in [0, " + x + "]|reverse|slice(0, 1) %}<{{ i }}>{% else %}EMPTY{% endfor %}"}
	case 19:
		return map[string]string{"main": "{% for i in [" + x + "]|merge([0])|reverse|slice(1, 1) %}<{{ i }}>{% else %}EMPTY{% endfor %}"}
	}
	panic("pos")
}

func c08Expect(pos int, v interface{}) (string, error) {
	if pos == 1 || pos == 2 {
		if truthy(v) {
			return "T", nil
		}
		return "F", nil
	}
	s, err := toText(v)
	if err != nil {
		return "", err
	}
	switch pos {
	case 3:
		return "[" + s + "]", nil
	case 4, 11, 12, 13, 14, 18, 19:
		return "<" + s + ">", nil
	case 5, 16, 17:
		return "(" + s + ")", nil
	case 15:
		return "<" + s + "1><" + s + "2>", nil
	case 6:
		// default() replaces empty values: the observer needs a non-empty value
		if !truthy(v) {
			return "", errDomain
		}
		return s, nil
	case 8:
		return "#" + s + "#", nil
	}
	return s, nil
}

// c08Tree returns the tree placed in the position: booleans are observed through ? 'T' : 'F'
// except in condition positions, where the truthiness of the value itself is observed.
func c08Tree(c C08Case) *E {
	if c.Typ == "bool" && c.Pos != 1 && c.Pos != 2 {
		return Cond(c.Expr, Str("T"), Str("F"))
	}
	return c.Expr
}

func checkC08(c C08Case) error {
	tree := c08Tree(c)
	m := &Model{}
	env := &Env{vars: c.Ctx.Model(), m: m}
	v, err := env.Eval(tree)
	if err != nil {
		if errors.Is(err, errDomain) {
			return nil // outside the modelled domain: nothing is claimed (counted by the caller)
		}
		return fmt.Errorf("model error %v (harness bug)", err)
	}
	want, err := c08Expect(c.Pos, v)
	if err != nil {
		return nil
	}
	var outs [2]string
	for i, full := range []bool{false, true} {
		x := PrintE(tree, PrintOpts{Full: full})
		tm := c08WrapKw(c.Pos, x, kwSpaces[c.Kw%len(kwSpaces)])
		sp := NewSpies()
		e := newEngine(tm)
		sp.Install(e)
		if c.Debug {
			twig.SetDebugWriter(io.Discard)
			e.SetDebug(true)
		}
		r := render(e, "main", c.Ctx.Go())
		if c.Debug {
			e.SetDebug(false)
		}
		spelling := "minimal"
		if full {
			spelling = "fully parenthesised"
		}
		if r.Failed() {
			return fmt.Errorf("position %s, %s spelling %s: %v; model value %s", c08PosNames[c.Pos], spelling, q(tm["main"]), r, showModel(v))
		}
		outs[i] = r.Out
		if r.Out != want {
			return fmt.Errorf("position %s, %s spelling %s: engine %s, model %s (value %s)", c08PosNames[c.Pos], spelling, q(tm["main"]), q(r.Out), q(want), showModel(v))
		}
		wantLog := m.SpyLog
		if c.Pos == 15 {
			// this position evaluates the expression once per loop iteration
			wantLog = append(append([]string{}, m.SpyLog...), m.SpyLog...)
		}
		if !eqLogs(sp.Log, wantLog) {
			return fmt.Errorf("position %s, %s spelling %s: spy invocations %v, model %v", c08PosNames[c.Pos], spelling, q(tm["main"]), sp.Log, wantLog)
		}
	}
	return nil
}

func c08InDomain(c C08Case) bool {
	tree := c08Tree(c)
	env := &Env{vars: c.Ctx.Model(), m: &Model{}}
	v, err := env.Eval(tree)
	if err != nil {
		return false
	}
	_, err = c08Expect(c.Pos, v)
	return err == nil
}

// c08Classify returns the non-triviality verdict and the precedence-pair classes.
func c08Classify(c C08Case) (bool, []string) {
	levels := map[int]bool{}
	nbin := 0
	mixed := false
	var classes []string
	walk(c08Tree(c), func(e, p *E, idx int) {
		if e.K == "bin" {
			nbin++
			levels[opLevel[e.S]] = true
			if p != nil && p.K == "bin" {
				side := "L"
				if idx == 1 {
					side = "R"
				}
				classes = append(classes, fmt.Sprintf("pair:%d>%d%s", opLevel[p.S], opLevel[e.S], side))
			}
		}
		if (e.K == "un" || e.K == "cond") && p != nil && p.K == "bin" {
			mixed = true
			classes = append(classes, "under-binary:"+e.K)
		}
		if e.K == "bin" && p != nil && (p.K == "un" || p.K == "cond") {
			mixed = true
		}
		if e.K == "call" && e.S == "spy" {
			classes = append(classes, "has-spy")
		}
	})
	classes = append(classes, "pos:"+c08PosNames[c.Pos], "type:"+c.Typ)
	if c.Debug {
		classes = append(classes, "engine-in-debug-mode")
	}
	if c.Kw != 0 && c.Pos >= 1 && c.Pos <= 5 {
		classes = append(classes, "keyword-spacing-other-than-one-space")
	}
	nt := (nbin >= 2 && len(levels) >= 2) || mixed || c.Pos != 0
	return nt, classes
}

const c08Rule = "type-directed random expression trees (depth<=5) over ints, strings, booleans, lists, maps, attribute/index access, unary, all binary operators of the table, ?:, filters, functions and spies, each printed minimally and fully parenthesised with random inter-token whitespace and placed in one of 20 syntactic positions (the for sequence also as a filter chain on a null / undefined base, a conditional, a filtered list and chains of two and three filters that all matter); containers of `in` include a 60-element list and range(-10, 49); variable names include pairs that collide under common string hashes (Aa/BB, x1/wP, AO/B0); one case in five runs with the engine in debug mode; non-trivial = >=2 binary operators of different precedence, or a unary/conditional operator next to a binary one, or a non-print position; distinct by (context, tree, position)"

func TestC08Expr(t *testing.T) {
	r := NewRec(t, "C08", c08Rule)
	defer r.Flush()
	rapid.Check(t, func(rt *rapid.T) {
		g := &xgen{t: rt, ctx: stdCtx(rt), spies: true, spacing: true, parens: true}
		typ := rapid.SampledFrom([]string{"int", "int", "str", "bool", "bool"}).Draw(rt, "typ")
		d := rapid.IntRange(1, scale(4, 6)).Draw(rt, "depth")
		var e *E
		switch typ {
		case "int":
			e = g.intE(d)
		case "str":
			e = g.strE(d)
		default:
			e = g.boolE(d)
		}
		c := C08Case{Ctx: g.ctx, Expr: e, Typ: typ, Pos: rapid.IntRange(0, len(c08PosNames)-1).Draw(rt, "pos")}
		if rapid.IntRange(0, 2).Draw(rt, "kwspace") == 0 {
			c.Kw = rapid.IntRange(1, len(kwSpaces)-1).Draw(rt, "kw")
		}
		c.Debug = rapid.IntRange(0, 4).Draw(rt, "debug") == 0
		if !c08InDomain(c) {
			r.Excl("value outside the modelled domain in this position (e.g. empty value under default())")
			return
		}
		nt, classes := c08Classify(c)
		r.Case(PrintE(c08Tree(c), PrintOpts{})+fmt.Sprint(c.Pos)+showModel(c.Ctx.Model()), nt, map[string]interface{}{"pos": c08PosNames[c.Pos], "src": c08Wrap(c.Pos, PrintE(c08Tree(c), PrintOpts{}))["main"]}, classes...)
		if err := checkC08(c); err != nil {
			r.Fail(rt, "C08.expr", c, err)
		}
	})
}

// ---- exhaustive operator triples --------------------------------------------------------

var c08TripleOps = []string{"or", "and", "==", "<", "in", "+", "-", "~", "*", "/", "%", "^"}

// five binary-tree shapes over four leaves
func c08Shapes(ops [3]string, leaves [4]*E) []*E {
	a, b, c, d := leaves[0], leaves[1], leaves[2], leaves[3]
	o1, o2, o3 := ops[0], ops[1], ops[2]
	cl := func(e *E) *E { cp := *e; return &cp }
	return []*E{
		Bin(o3, Bin(o2, Bin(o1, cl(a), cl(b)), cl(c)), cl(d)), // ((a b) c) d
		Bin(o3, Bin(o1, cl(a), Bin(o2, cl(b), cl(c))), cl(d)), // (a (b c)) d
		Bin(o2, Bin(o1, cl(a), cl(b)), Bin(o3, cl(c), cl(d))), // (a b) (c d)
		Bin(o1, cl(a), Bin(o3, Bin(o2, cl(b), cl(c)), cl(d))), // a ((b c) d)
		Bin(o1, cl(a), Bin(o2, cl(b), Bin(o3, cl(c), cl(d)))), // a (b (c d))
	}
}

// c08TypeLeaves gives every leaf a literal of the type its parent operator needs; returns
// false when the shape cannot be typed inside the statement's domain.
func c08TypeLeaves(e *E, want string, vals *[]int64) (string, bool) {
	if e.K != "bin" {
		switch want {
		case "int", "any":
			v := (*vals)[0]
			*vals = append((*vals)[1:], v)
			*e = *Int(v)
			return "int", true
		case "bool":
			*e = *Bool((*vals)[0]%2 == 0)
			*vals = append((*vals)[1:], (*vals)[0])
			return "bool", true
		case "str":
			*e = *Str("s" + fmt.Sprint((*vals)[0]))
			*vals = append((*vals)[1:], (*vals)[0])
			return "str", true
		case "list":
			*e = *List(Int(2), Int(6), Int(12))
			return "list", true
		}
		return "", false
	}
	var lw, rw, res string
	switch e.S {
	case "or", "and":
		lw, rw, res = "any", "any", "bool"
	case "<":
		lw, rw, res = "int", "int", "bool"
	case "+", "-", "*", "/", "%", "^":
		lw, rw, res = "int", "int", "int"
	case "~":
		lw, rw, res = "int", "int", "str"
	case "in":
		lw, rw, res = "int", "list", "bool"
	case "==":
		// both sides must have one type: decided by whichever side is compound
		lw, rw, res = "eq", "eq", "bool"
	}
	if lw == "eq" {
		lt, rt := "", ""
		ok := true
		if e.A[0].K == "bin" {
			lt, ok = c08TypeLeaves(e.A[0], "any", vals)
			if !ok {
				return "", false
			}
		}
		if e.A[1].K == "bin" {
			rt, ok = c08TypeLeaves(e.A[1], "any", vals)
			if !ok {
				return "", false
			}
		}
		switch {
		case lt == "" && rt == "":
			lt, rt = "int", "int"
			c08TypeLeaves(e.A[0], "int", vals)
			c08TypeLeaves(e.A[1], "int", vals)
		case lt == "":
			lt, ok = c08TypeLeaves(e.A[0], rt, vals)
		case rt == "":
			rt, ok = c08TypeLeaves(e.A[1], lt, vals)
		}
		if !ok || lt != rt || lt == "list" {
			return "", false
		}
		return "bool", want == "any" || want == "bool"
	}
	for i, w := range []string{lw, rw} {
		got, ok := c08TypeLeaves(e.A[i], w, vals)
		if !ok {
			return "", false
		}
		if w != "any" && got != w {
			return "", false
		}
	}
	if want != "any" && want != res {
		return "", false
	}
	return res, true
}

// c08EveryPosition: a handful of expressions whose value is a string of blanks, a large integer or
// a tiny difference, in every position (a position that normalises its operand shows here).
func c08EveryPosition(t *testing.T, r *Rec) {
	exprs := []struct {
		e   *E
		typ string
	}{{Str(" "), "str"}, {Str("  "), "str"}, {Bin("~", Str(" "), Str(" ")), "str"}, {Cond(Var("t"), Str("  "), Str("")), "str"}, {Idx(List(Str(" "), Str("x")), Int(0)), "str"},
		{Filt(Str(" x "), "upper"), "str"}, {Bin("~", Str("a  b"), Int(1)), "str"}, {Bin("+", Int(2000000000), Int(1)), "int"}, {Bin("==", Int(2000000000), Int(2000000001)), "bool"},
		{Bin("!=", Bin("+", Int(1<<40), Int(1)), Int(1<<40)), "bool"}, {Str("0"), "str"}, {Str("false"), "str"},
		// literals that need escapes, alone in the position
		{Str("it's"), "str"}, {&E{K: "str", S: "say \"hi\"", Q: 1}, "str"}, {Str("back\\slash"), "str"}, {Str("a'b\"c"), "str"}, {&E{K: "str", S: "q'q", Q: 1}, "str"}}
	var ctx Ctx
	ctx.Set("t", Bool(true))
	ctx.Set("nul", Null())
	for ei, ex := range exprs {
		for pos := range c08PosNames {
			c := C08Case{Ctx: ctx, Expr: ex.e, Typ: ex.typ, Pos: pos}
			if !c08InDomain(c) {
				continue
			}
			r.Case(fmt.Sprint("everypos", ei, pos), true, PrintE(ex.e, PrintOpts{})+" @"+c08PosNames[pos], "every-position")
			if err := checkC08(c); err != nil {
				r.FailEnumKey(t, "C08.expr", fmt.Sprint(ei), c, err)
			}
		}
	}
}

func TestC08Triples(t *testing.T) {
	r := NewRec(t, "C08", "exhaustive: 17 expressions whose value is a string of blanks, '0', 'false', a string literal that needs escapes, a large integer or a comparison of neighbouring large integers, in each of the 20 positions; every triple of the 12 representative binary operators (all 6 precedence levels) over 4 operands in all 5 tree shapes, operands typed as the operators require, 3 operand value sets; each tree printed with the fewest parentheses the table permits and fully parenthesised; non-trivial = the tree mixes two precedence levels; shapes that cannot be typed inside the property's operand domain are excluded and counted")
	defer r.Flush()
	r.SetExhaustive()
	c08EveryPosition(t, r)
	valueSets := [][]int64{{12, 3, 2, 6}, {7, 2, 5, 1}, {20, 4, 2, 3}, {0, 1, 4, 2}}
	for _, o1 := range c08TripleOps {
		for _, o2 := range c08TripleOps {
			for _, o3 := range c08TripleOps {
				ops := [3]string{o1, o2, o3}
				for si := 0; si < 5; si++ {
					done := false
					for _, vs := range valueSets {
						tree := c08Shapes(ops, [4]*E{Int(0), Int(0), Int(0), Int(0)})[si]
						vals := append([]int64(nil), vs...)
						typ, ok := c08TypeLeaves(tree, "any", &vals)
						if !ok {
							break
						}
						c := C08Case{Ctx: Ctx{}, Expr: tree, Typ: typ, Pos: 0}
						if typ == "str" {
							c.Typ = "str"
						}
						if !c08InDomain(c) {
							continue
						}
						done = true
						levels := map[int]bool{opLevel[o1]: true, opLevel[o2]: true, opLevel[o3]: true}
						src := PrintE(c08Tree(c), PrintOpts{})
						r.Case(src, len(levels) >= 2, src, fmt.Sprintf("shape:%d", si))
						if err := checkC08(c); err != nil {
							r.FailEnum(t, "C08.expr", c, err)
						}
						break
					}
					if !done {
						r.Excl("operator triple/shape not typable or not evaluable inside the stated operand domain")
					}
				}
			}
		}
	}
}

// TestC08Spacing: every binary operator with every whitespace choice on both sides, in
// print and in `if` position, plus whitespace other than a single space after tag keywords.
func TestC08Spacing(t *testing.T) {
	r := NewRec(t, "C08", "exhaustive: each binary operator of the table x each of 6 whitespace spellings before and after the operator x {print, if, set} position, operands that are literals, variables and negative/positive numbers; non-trivial = spelling other than single spaces")
	defer r.Flush()
	r.SetExhaustive()
	ctx := Ctx{}
	ctx.Set("a", Int(7))
	ctx.Set("b", Int(3))
	ctx.Set("s", Str("abc"))
	ctx.Set("xs", List(Int(3), Int(7)))
	type opnd struct {
		op   string
		l, r *E
		typ  string
	}
	var cases []opnd
	for _, op := range []string{"+", "-", "*", "/", "%", "^", "<", ">", "<=", ">=", "==", "!="} {
		typ := "int"
		if opLevel[op] == 3 {
			typ = "bool"
		}
		cases = append(cases, opnd{op, Var("a"), Var("b"), typ}, opnd{op, Int(9), Int(3), typ}, opnd{op, Var("a"), Int(3), typ}, opnd{op, Int(9), Var("b"), typ})
	}
	cases = append(cases, opnd{"~", Var("s"), Var("a"), "str"}, opnd{"~", Str("x"), Int(3), "str"}, opnd{"and", Var("a"), Var("b"), "bool"}, opnd{"or", Int(0), Var("b"), "bool"},
		opnd{"in", Var("a"), Var("xs"), "bool"}, opnd{"not in", Int(4), Var("xs"), "bool"}, opnd{"starts with", Var("s"), Str("ab"), "bool"}, opnd{"ends with", Var("s"), Str("bc"), "bool"}, opnd{"matches", Var("s"), Str("/b/"), "bool"})
	for _, oc := range cases {
		for w0 := 0; w0 < len(wsCodes); w0++ {
			for w1 := 0; w1 < len(wsCodes); w1++ {
				for _, pos := range []int{0, 1, 3} {
					e := Bin(oc.op, oc.l, oc.r)
					e.W = []int{w0, w1}
					c := C08Case{Ctx: ctx, Expr: e, Typ: oc.typ, Pos: pos}
					if !c08InDomain(c) {
						r.Excl("not in domain")
						continue
					}
					src := c08Wrap(pos, PrintE(c08Tree(c), PrintOpts{}))["main"]
					r.Case(src, w0 != 1 || w1 != 1, src, "op:"+oc.op)
					if err := checkC08(c); err != nil {
						r.FailEnum(t, "C08.expr", c, err)
					}
				}
			}
		}
	}
}

// ---- spacing around signs (raw spellings the tree printer never produces) ------------------------

type C08RawCase struct {
	Pattern string `json:"pattern"` // U+00B7 marks the places where whitespace may stand
	Pos     int    `json:"pos"`
	Variant []int  `json:"variant"` // whitespace code per mark, compared with single spaces everywhere
}

var c08RawWs = []string{"", " ", "\n", "  "}

func c08RawSrc(pattern string, variant []int, pos int) map[string]string {
	parts := strings.Split(pattern, "\u00b7")
	var b strings.Builder
	for i, p := range parts {
		b.WriteString(p)
		if i < len(parts)-1 {
			w := 1
			if i < len(variant) {
				w = variant[i]
			}
			b.WriteString(c08RawWs[w%len(c08RawWs)])
		}
	}
	return c08Wrap(pos, b.String())
}

func checkC08Raw(c C08RawCase) error {
	ctx := map[string]interface{}{"a": 7, "b": 3, "s": "abc", "xs": []interface{}{3, 7}, "m": map[string]interface{}{"k": 4}, "t": true}
	n := strings.Count(c.Pattern, "\u00b7")
	base := make([]int, n)
	for i := range base {
		base[i] = 1
	}
	tb := c08RawSrc(c.Pattern, base, c.Pos)
	tv := c08RawSrc(c.Pattern, c.Variant, c.Pos)
	rb := render(newEngine(tb), "main", ctx)
	rv := render(newEngine(tv), "main", ctx)
	if rb.Panic != "" || rv.Panic != "" {
		return fmt.Errorf("panic: %v / %v", rb, rv)
	}
	if rb.Failed() != rv.Failed() || rb.Out != rv.Out {
		return fmt.Errorf("%s gives %v but %s gives %v: the spacing changed the value", q(tb["main"]), rb, q(tv["main"]), rv)
	}
	// the same spelling with every number literal replaced by a variable that holds the number: the
	// tree is the same, so the value is
	lp, lits := c08LiteralsToVars(c.Pattern)
	if len(lits) > 0 {
		ctx2 := map[string]interface{}{}
		for k, v := range ctx {
			ctx2[k] = v
		}
		for k, v := range lits {
			ctx2[k] = v
		}
		tl := c08RawSrc(lp, c.Variant, c.Pos)
		rl := render(newEngine(tl), "main", ctx2)
		if rl.Panic != "" {
			return fmt.Errorf("panic: %v", rl)
		}
		if rl.Failed() != rv.Failed() || rl.Out != rv.Out {
			return fmt.Errorf("%s gives %v but %s with %v gives %v: a literal and a variable holding the same number differ", q(tv["main"]), rv, q(tl["main"]), lits, rl)
		}
	}
	return nil
}

// c08LiteralsToVars replaces the decimal literals of a pattern (outside quotes, not part of a name)
// by variables L0, L1, ... and returns their values.
func c08LiteralsToVars(p string) (string, map[string]int) {
	var b strings.Builder
	lits := map[string]int{}
	var quote byte
	for i := 0; i < len(p); {
		ch := p[i]
		if quote != 0 {
			if ch == quote {
				quote = 0
			}
			b.WriteByte(ch)
			i++
			continue
		}
		if ch == '\'' || ch == '"' {
			quote = ch
			b.WriteByte(ch)
			i++
			continue
		}
		prevName := i > 0 && (p[i-1] == '_' || p[i-1] >= 'a' && p[i-1] <= 'z' || p[i-1] >= 'A' && p[i-1] <= 'Z' || p[i-1] >= '0' && p[i-1] <= '9')
		if ch >= '0' && ch <= '9' && !prevName {
			j := i
			n := 0
			for j < len(p) && p[j] >= '0' && p[j] <= '9' {
				n = n*10 + int(p[j]-'0')
				j++
			}
			name := fmt.Sprintf("L%d", len(lits))
			lits[name] = n
			b.WriteString(name)
			i = j
			continue
		}
		b.WriteByte(ch)
		i++
	}
	return b.String(), lits
}

var c08RawPatterns = []string{"-\u00b75|abs", "-\u00b7a|abs", "+\u00b75|abs", "-\u00b75\u00b7|\u00b7abs", "-\u00b75\u00b7+\u00b73", "3\u00b7-\u00b7-\u00b75", "3\u00b7+\u00b7-\u00b75|abs", "-\u00b7a\u00b7*\u00b7-\u00b7b",
	"[-\u00b71,\u00b7-\u00b72]|join(',')", "t\u00b7?\u00b7-\u00b71\u00b7:\u00b7-\u00b72", "max(-\u00b71,\u00b7-\u00b7a)", "-\u00b75|abs\u00b7+\u00b7-\u00b75|abs", "(-\u00b75)|abs", "-\u00b7xs[0]", "-\u00b7m.k", "-\u00b7(5)|abs",
	"-\u00b72\u00b7^\u00b72", "2\u00b7^\u00b7-\u00b71|abs", "a\u00b7-\u00b71", "a\u00b7-1", "a -\u00b71", "-\u00b75|abs|abs", "-\u00b7a|default(1)", "xs|length\u00b7-\u00b71", "{'k':\u00b7-\u00b71}['k']", "-\u00b71\u00b7..\u00b7-\u00b73"}

// TestC08RawSpacing: whitespace between a sign and its operand, and around postfix filters,
// never changes the value (no claim about which value it is).
func TestC08RawSpacing(t *testing.T) {
	r := NewRec(t, "C08", "exhaustive: 26 spellings with signs next to literals, variables, postfix filters, indexes and other operators; at every marked place each of {nothing, space, newline, two spaces} (all places alike, and each place alone), in print / if / set position; oracle: same result as with single spaces everywhere, and the same result when every number literal is replaced by a variable holding that number; non-trivial = always")
	defer r.Flush()
	r.SetExhaustive()
	for _, p := range c08RawPatterns {
		n := strings.Count(p, "\u00b7")
		var variants [][]int
		for w := range c08RawWs {
			all := make([]int, n)
			for i := range all {
				all[i] = w
			}
			variants = append(variants, all)
			for k := 0; k < n; k++ {
				one := make([]int, n)
				for i := range one {
					one[i] = 1
				}
				one[k] = w
				variants = append(variants, one)
			}
		}
		for _, v := range variants {
			for _, pos := range []int{0, 1, 3} {
				c := C08RawCase{Pattern: p, Pos: pos, Variant: v}
				src := c08RawSrc(p, v, pos)["main"]
				r.Case(src, true, src)
				if err := checkC08Raw(c); err != nil {
					r.FailEnum(t, "C08.raw", c, err)
				}
			}
		}
	}
}

// ---- many expressions in one template, deep and long expressions ----------------------------------

type C08ScaleCase struct {
	Kind string `json:"kind"`
	N    int    `json:"n"`
}

// c08ScaleSrc returns source and expected output; a = 7, b = 3, t = true.
func c08ScaleSrc(c C08ScaleCase) (string, string) {
	var src, want strings.Builder
	switch c.Kind {
	case "many-conditionals":
		for i := 0; i < c.N; i++ {
			fmt.Fprintf(&src, "{{ a > %d ? 'y' : 'n' }}{%% if b < %d ? t : false %%}+{%% endif %%}{%% set v = t ? %d : 0 %%}{{ [t ? 1 : 2, {'k': t ? 3 : 4}['k']]|join('') }}", i%10, i%5, i)
			y := "n"
			if 7 > i%10 {
				y = "y"
			}
			want.WriteString(y)
			if 3 < i%5 {
				want.WriteString("+")
			}
			want.WriteString("13")
		}
	case "many-binaries":
		for i := 0; i < c.N; i++ {
			fmt.Fprintf(&src, "{{ a + %d * b - 1 }},{{ (a ~ '%d')|length }},", i, i)
			fmt.Fprintf(&want, "%d,%d,", 7+i*3-1, 1+len(fmt.Sprint(i)))
		}
	case "nested-parentheses":
		src.WriteString("{{ " + strings.Repeat("(", c.N) + "a + 1" + strings.Repeat(")", c.N) + " * 2 }}")
		want.WriteString("16")
	case "nested-conditionals":
		src.WriteString("{{ ")
		for i := 0; i < c.N; i++ {
			fmt.Fprintf(&src, "(a == %d ? 'hit%d' : ", 100+i, i)
		}
		src.WriteString("'end'" + strings.Repeat(")", c.N) + " }}")
		want.WriteString("end")
	case "long-sum":
		src.WriteString("{{ 0" + strings.Repeat(" + 1", c.N) + " }}|{{ ''" + strings.Repeat(" ~ 'x'", c.N) + " }}|{{ true" + strings.Repeat(" and t", c.N) + " ? 'T' : 'F' }}")
		fmt.Fprintf(&want, "%d|%s|T", c.N, strings.Repeat("x", c.N))
	case "nested-lists":
		src.WriteString("{{ " + strings.Repeat("[", c.N) + "a" + strings.Repeat("][0]", c.N) + " }}")
		want.WriteString("7")
	case "filter-chain":
		src.WriteString("{{ a" + strings.Repeat("|abs", c.N) + " }}|{{ 'x'" + strings.Repeat("|upper|lower", c.N) + " }}")
		want.WriteString("7|x")
	}
	return src.String(), want.String()
}

func checkC08Scale(c C08ScaleCase) error {
	src, want := c08ScaleSrc(c)
	r := render1(src, map[string]interface{}{"a": 7, "b": 3, "t": true})
	if r.Failed() || r.Out != want {
		got := r.Out
		d := 0
		for d < len(got) && d < len(want) && got[d] == want[d] {
			d++
		}
		return fmt.Errorf("%s with n = %d: %s; output differs at byte %d (got …%s, want …%s); source begins %s", c.Kind, c.N, firstLine(r.Err), d, q(trunc(got[minInt(d, len(got)):])), q(trunc(want[minInt(d, len(want)):])), q(trunc(src)))
	}
	return nil
}

// TestC08Scale: the value of an expression does not depend on how many other expressions the
// template holds, nor on how deep or long it is written.
func TestC08Scale(t *testing.T) {
	r := NewRec(t, "C08", "exhaustive over sizes: templates with 1..300 groups of conditional / binary expressions in print, if, set, list and hash positions; one expression nested in 1..120 pairs of parentheses, 1..120 nested conditionals, 1..120 nested list literals; sums, concatenations and conjunctions of 1..400 operands; filter chains of 1..200 filters; oracle: the value computed by the harness; all cases non-trivial")
	defer r.Flush()
	r.SetExhaustive()
	sizes := map[string][]int{"many-conditionals": {1, 2, 10, 20, 21, 22, 30, 40, 63, 64, 65, 66, 100, 128, 129, 200, 300}, "many-binaries": {1, 64, 65, 100, 300}}
	for n := 1; n <= 120; n++ {
		sizes["nested-parentheses"] = append(sizes["nested-parentheses"], n)
		sizes["nested-conditionals"] = append(sizes["nested-conditionals"], n)
		sizes["nested-lists"] = append(sizes["nested-lists"], n)
	}
	for _, n := range []int{1, 2, 10, 31, 32, 33, 63, 64, 65, 100, 127, 128, 129, 200, 255, 256, 257, 400} {
		sizes["long-sum"] = append(sizes["long-sum"], n)
		if n <= 200 {
			sizes["filter-chain"] = append(sizes["filter-chain"], n)
		}
	}
	var kinds []string
	for k := range sizes {
		kinds = append(kinds, k)
	}
	sortStrings(kinds)
	for _, k := range kinds {
		for _, n := range sizes[k] {
			c := C08ScaleCase{Kind: k, N: n}
			r.Case(fmt.Sprint(k, n), true, c, "kind:"+k)
			if err := checkC08Scale(c); err != nil {
				r.FailEnumKey(t, "C08.scale", k, c, err)
			}
		}
	}
}

func init() {
	reg("C08.scale", checkC08Scale)
	reg("C08.raw", checkC08Raw)
	reg("C08.expr", checkC08)
	_ = strings.Join
}

// ---- in / not in with typed Go slices and arrays on the right ----------------------------------------------------

type C08TypedInCase struct {
	Expr string `json:"expr"` // uses L
	Typ  string `json:"typ"`
}

func c08TypedList(typ string) (typed interface{}, untyped []interface{}) {
	switch typ {
	case "[]int":
		return []int{1, 2, 3, 40}, []interface{}{1, 2, 3, 40}
	case "[]int64":
		return []int64{1, 2, 3, 40}, []interface{}{1, 2, 3, 40}
	case "[]int32":
		return []int32{1, 2, 3, 40}, []interface{}{1, 2, 3, 40}
	case "[]uint8":
		return []uint8{1, 2, 3, 40}, []interface{}{1, 2, 3, 40}
	case "[]float64":
		return []float64{1, 2, 3, 40, 2.5}, []interface{}{1, 2, 3, 40, 2.5}
	case "[]named":
		return []zNamedInt{1, 2, 3, 40}, []interface{}{1, 2, 3, 40}
	case "[4]int":
		return [4]int{1, 2, 3, 40}, []interface{}{1, 2, 3, 40}
	case "[]string":
		return []string{"1", "2", "ab", "40"}, []interface{}{"1", "2", "ab", "40"}
	}
	return nil, nil
}

// checkC08TypedIn: `in` and `not in` ask whether the value is among the elements; the answer for a
// typed Go slice or array is the answer for an untyped list of the same elements.
func checkC08TypedIn(c C08TypedInCase) error {
	typed, untyped := c08TypedList(c.Typ)
	src := "{{ " + c.Expr + " ? 'yes' : 'no' }}"
	rt := render1(src, map[string]interface{}{"L": typed, "a": 1, "s": "a"})
	ru := render1(src, map[string]interface{}{"L": untyped, "a": 1, "s": "a"})
	if rt.Failed() != ru.Failed() || rt.Out != ru.Out {
		return fmt.Errorf("%s with L a %s gives %v, with L an untyped list of the same elements %v", src, c.Typ, rt, ru)
	}
	return nil
}

func TestC08TypedIn(t *testing.T) {
	r := NewRec(t, "C08", "exhaustive: 8 typed Go slices and arrays ([]int, []int64, []int32, []uint8, []float64, a slice of a named int, [4]int, []string) x 16 membership tests whose left operand is a literal, a variable, a sum, a quotient, a concatenation or a float; oracle: the answer for an untyped list of the same elements; all cases non-trivial")
	defer r.Flush()
	r.SetExhaustive()
	for _, typ := range []string{"[]int", "[]int64", "[]int32", "[]uint8", "[]float64", "[]named", "[4]int", "[]string"} {
		for _, ex := range []string{"2 in L", "5 in L", "(1 + 1) in L", "a + 1 in L", "4 / 2 in L", "a * 40 in L", "2.5 in L", "2.0 in L", "a in L", "5 not in L", "a + 2 not in L", "(a + 1) not in L", "'2' in L", "(s ~ 'b') in L", "'ab' not in L", "(41 - a) in L"} {
			c := C08TypedInCase{Expr: ex, Typ: typ}
			r.Case(typ+ex, true, c)
			if err := checkC08TypedIn(c); err != nil {
				r.FailEnumKey(t, "C08.typedin", typ, c, err)
			}
		}
	}
}

func init() { reg("C08.typedin", checkC08TypedIn) }

// ---- matches against Go's regexp package; strings that spell float specials -------------------------------------

type C08MatchCase struct {
	Subject string `json:"subject"`
	Pattern string `json:"pattern"` // regular expression between the slashes
	Flag    string `json:"flag"`    // "" or "i"
}

// checkC08Match: `s matches '/re/'` is whether the regular expression matches; the reference is the
// regexp package itself, given the same expression.
func checkC08Match(c C08MatchCase) error {
	re := c.Pattern
	if c.Flag == "i" {
		re = "(?i)" + re
	}
	rx, err := regexp.Compile(re)
	if err != nil {
		return nil
	}
	want := map[bool]string{true: "yes", false: "no"}[rx.MatchString(c.Subject)]
	lit := "/" + c.Pattern + "/" + c.Flag
	// as a string literal (backslashes doubled for the template's string syntax) and as a variable
	srcLit := "{{ s matches '" + strings.ReplaceAll(strings.ReplaceAll(lit, "\\", "\\\\"), "'", "\\'") + "' ? 'yes' : 'no' }}"
	srcVar := "{{ s matches p ? 'yes' : 'no' }}|{% if s matches p %}yes{% else %}no{% endif %}"
	ctx := map[string]interface{}{"s": c.Subject, "p": lit}
	if r := render1(srcLit, ctx); r.Failed() || r.Out != want {
		return fmt.Errorf("%s with s = %s renders %v; the regular expression %s %s", srcLit, q(c.Subject), r, q(re), map[string]string{"yes": "matches", "no": "does not match"}[want])
	}
	if r := render1(srcVar, ctx); r.Failed() || r.Out != want+"|"+want {
		return fmt.Errorf("%s with s = %s, p = %s renders %v; the regular expression %s", srcVar, q(c.Subject), q(lit), r, map[string]string{"yes": "matches", "no": "does not match"}[want])
	}
	return nil
}

func TestC08Matches(t *testing.T) {
	r := NewRec(t, "C08", "exhaustive: 22 regular expressions (classes \\\\d \\\\w \\\\s inside and outside brackets, negated classes, escaped dot and backslash, anchors, alternation, patterns that end in the letter i, quantifiers) x {no flag, i} x 12 subjects, written as string literal and passed as variable, in a ternary and in an if; oracle: Go's regexp package on the same expression; non-trivial = the pattern has a class or ends in i")
	defer r.Flush()
	r.SetExhaustive()
	pats := []string{`^[\d\.]+$`, `^[\w\s]+$`, `^[^\d]$`, `^[\w-]+$`, `\d+`, `^\w+$`, `\s`, `hi`, `^taxi`, `ski`, `^h`, `a|b`, `^\d{3}-\d{2}$`, `\\`, `^C:\\`, `\.`, `^$`, `[a-c]x?`, `(ab)+`, `i`, `^[A-Z][a-z]+$`, `\bfoo\b`}
	subjects := []string{"123.456", "a b", "x", "foo-bar", "h", "Hello", "HI", "tax", "Ski", "taxi", `C:\dir`, ""}
	for _, p := range pats {
		for _, f := range []string{"", "i"} {
			for _, s := range subjects {
				c := C08MatchCase{Subject: s, Pattern: p, Flag: f}
				r.Case(p+f+s, strings.ContainsAny(p, `\[`) || strings.HasSuffix(p, "i"), c)
				if err := checkC08Match(c); err != nil {
					r.FailEnumKey(t, "C08.match", p+f, c, err)
				}
			}
		}
	}
}

type C08WordCase struct {
	A string `json:"a"`
	B string `json:"b"`
}

// checkC08Words: two strings are equal exactly when they are the same text or spell the same decimal
// number; words like nan, inf, infinity, 1_0 and 0x1p4 are words.
func checkC08Words(c C08WordCase) error {
	want := c.A == c.B
	if fa, ea := strconv.ParseFloat(c.A, 64); ea == nil && c08Decimal.MatchString(c.A) {
		if fb, eb := strconv.ParseFloat(c.B, 64); eb == nil && c08Decimal.MatchString(c.B) {
			want = fa == fb
		}
	}
	w := map[bool]string{true: "eq", false: "ne"}[want]
	src := "{{ a == b ? 'eq' : 'ne' }}|{{ a != b ? 'ne' : 'eq' }}|{{ a in [b] ? 'eq' : 'ne' }}|{% if a == b %}eq{% else %}ne{% endif %}"
	r := render1(src, map[string]interface{}{"a": c.A, "b": c.B})
	if r.Failed() || r.Out != w+"|"+w+"|"+w+"|"+w {
		return fmt.Errorf("a = %s, b = %s: %s renders %v, want %s four times", q(c.A), q(c.B), src, r, w)
	}
	return nil
}

var c08Decimal = regexp.MustCompile(`^[+-]?(\d+\.?\d*|\.\d+)([eE][+-]?\d+)?$`)

func TestC08Words(t *testing.T) {
	r := NewRec(t, "C08", "exhaustive: all ordered pairs of 16 strings (nan, NaN, Nan, inf, Inf, infinity, +Inf, 1_0, 10, 0x1p4, 16, 1e1, abc, '', 10.0, -0) under ==, !=, in and an if condition; oracle: equal when they are the same text or spell the same decimal number; non-trivial = one of the strings spells a float special, an underscore or hex form")
	defer r.Flush()
	r.SetExhaustive()
	words := []string{"nan", "NaN", "Nan", "inf", "Inf", "infinity", "+Inf", "1_0", "10", "0x1p4", "16", "1e1", "abc", "", "10.0", "-0"}
	for _, a := range words {
		for _, b := range words {
			c := C08WordCase{A: a, B: b}
			r.Case(a+"/"+b, !c08Decimal.MatchString(a) || !c08Decimal.MatchString(b), c)
			if err := checkC08Words(c); err != nil {
				r.FailEnumKey(t, "C08.words", a, c, err)
			}
		}
	}
}

func init() {
	reg("C08.match", checkC08Match)
	reg("C08.words", checkC08Words)
}
