package vh

// C13 — whitespace-control dashes trim adjacent whitespace and change nothing else.
//
// Oracle (metamorphic): render(T with dashes D) == render(T'), where T' is T with every dash
// removed and the whitespace of the text segment adjacent to each dashed delimiter deleted on
// the facing side by the harness; and T parses iff T' parses.

import (
	"fmt"
	"github.com/semihalev/twig"
	"strings"
	"testing"

	"pgregory.net/rapid"
)

type lin struct {
	text   *S // non-nil for a text segment (pointer into the copied tree)
	dl, dr bool
	verb   *S // verbatim body acts as text for trimming
}

func dashAt(s *S, i int) (bool, bool) {
	if i < len(s.D) {
		return s.D[i]&1 != 0, s.D[i]&2 != 0
	}
	return false, false
}

// linearize lists texts and tags of a body in source order (mirrors PrintS).
func linearize(body []*S, out *[]lin) {
	tag := func(s *S, i int) {
		l, r := dashAt(s, i)
		*out = append(*out, lin{dl: l, dr: r})
	}
	for _, s := range body {
		switch s.K {
		case "text":
			*out = append(*out, lin{text: s})
		case "comment":
			*out = append(*out, lin{})
		case "print", "parent", "set", "do", "include", "import", "from":
			tag(s, 0)
		case "verbatim":
			tag(s, 0)
			*out = append(*out, lin{text: s})
			tag(s, 1)
		case "if":
			ti := 0
			for i := range s.Conds {
				tag(s, ti)
				ti++
				linearize(s.Bodies[i], out)
			}
			if s.HasElse {
				tag(s, ti)
				ti++
				linearize(s.Else, out)
			}
			tag(s, ti)
		case "for":
			tag(s, 0)
			linearize(s.Body, out)
			ti := 1
			if s.HasElse {
				tag(s, ti)
				ti++
				linearize(s.Else, out)
			}
			tag(s, ti)
		case "block", "macro", "apply", "spaceless":
			tag(s, 0)
			linearize(s.Body, out)
			tag(s, 1)
		default:
			panic("linearize: " + s.K)
		}
	}
}

// cloneBody copies a body, merging adjacent text segments (the engine sees them as one).
func cloneBody(b []*S) []*S {
	out := make([]*S, 0, len(b))
	for _, s := range b {
		if s.K == "text" && len(out) > 0 && out[len(out)-1].K == "text" {
			out[len(out)-1].T += s.T
			continue
		}
		cp := *s
		cp.Body = cloneBody(s.Body)
		cp.Else = cloneBody(s.Else)
		if s.Bodies != nil {
			cp.Bodies = make([][]*S, len(s.Bodies))
			for j, bb := range s.Bodies {
				cp.Bodies[j] = cloneBody(bb)
			}
		}
		out = append(out, &cp)
	}
	return out
}

// handTrim returns T': dashes dropped, adjacent whitespace deleted; and how many dashed
// delimiters had whitespace to remove.
func handTrim(t *Tmpl) (*Tmpl, int, int) {
	cp := &Tmpl{Name: t.Name, Extends: t.Extends, Body: cloneBody(t.Body)}
	var ls []lin
	if t.Extends != nil {
		ls = append(ls, lin{dl: t.XD&1 != 0, dr: t.XD&2 != 0})
	}
	linearize(cp.Body, &ls)
	effective, dashes := 0, 0
	const cut = " \t\r\n"
	for i, l := range ls {
		if l.text != nil {
			continue
		}
		if l.dl {
			dashes++
			if i > 0 && ls[i-1].text != nil {
				old := string(ls[i-1].text.T)
				nw := strings.TrimRight(old, cut)
				if nw != old {
					effective++
				}
				ls[i-1].text.T = BStr(nw)
			}
		}
		if l.dr {
			dashes++
			if i+1 < len(ls) && ls[i+1].text != nil {
				old := string(ls[i+1].text.T)
				nw := strings.TrimLeft(old, cut)
				if nw != old {
					effective++
				}
				ls[i+1].text.T = BStr(nw)
			}
		}
	}
	return cp, effective, dashes
}

type C13Case struct {
	Ctx Ctx  `json:"ctx"`
	Set TSet `json:"set"`
}

func checkC13(c C13Case) error {
	var trimmed TSet
	for _, t := range c.Set {
		tt, _, _ := handTrim(t)
		trimmed = append(trimmed, tt)
	}
	srcD := c.Set.Sources(SPrint{})
	srcT := trimmed.Sources(SPrint{NoDash: true})
	run := func(srcs map[string]string) Res {
		e := newEngine(srcs)
		NewSpies().Install(e)
		return render(e, "main", c.Ctx.Go())
	}
	rd, rt := run(srcD), run(srcT)
	if rd.Panic != "" || rt.Panic != "" {
		return fmt.Errorf("panic: dashed %v / hand-trimmed %v; dashed templates:%s", rd, rt, showSources(srcD))
	}
	if (rd.Err != "") != (rt.Err != "") {
		return fmt.Errorf("the dashes change whether the template renders: dashed %v, hand-trimmed %v; dashed templates:%s\nhand-trimmed:%s", rd, rt, showSources(srcD), showSources(srcT))
	}
	if rd.Err == "" && rd.Out != rt.Out {
		return fmt.Errorf("dashed output %s, hand-trimmed output %s; dashed templates:%s\nhand-trimmed:%s", q(rd.Out), q(rt.Out), showSources(srcD), showSources(srcT))
	}
	// the dashed template written out through RenderTo (texts trimmed to nothing are written too)
	mk := func() *twig.Engine { e := newEngine(srcD); NewSpies().Install(e); return e }
	if err := writersAgree(mk, "main", c.Ctx.Go(), rd); err != nil {
		return fmt.Errorf("%v; dashed templates:%s", err, showSources(srcD))
	}
	return nil
}

const c13Rule = "control-flow programs (C09 grammar) whose text segments are ws* core ws* (ws from space, tab, CR, LF; core possibly empty) with a random subset of tag delimiters dashed, comments placed directly against delimiters, and (1 in 4) more than 4096 bytes of text before or after the program; non-trivial = at least one dashed delimiter has whitespace to remove on its side; distinct by (context, source)"

func TestC13Dashes(t *testing.T) {
	r := NewRec(t, "C13", c13Rule)
	defer r.Flush()
	rapid.Check(t, func(rt *rapid.T) {
		g := newSgen(rt, flowCtx(rt))
		g.dashes, g.wstext = true, true
		g.x.spacing = false
		body := g.program(rapid.IntRange(1, 3).Draw(rt, "depth"))
		// text between statements so that most delimiters have a text neighbour
		var spaced []*S
		ncomments := 0
		for _, s := range body {
			spaced = append(spaced, g.text())
			// a comment directly against a (possibly dashed) delimiter: the whitespace beyond the
			// comment is not adjacent to the delimiter and stays
			if rapid.IntRange(0, 5).Draw(rt, "commentbefore") == 0 {
				spaced = append(spaced, &S{K: "comment", T: " c "})
				ncomments++
			}
			spaced = append(spaced, s)
			if rapid.IntRange(0, 5).Draw(rt, "commentafter") == 0 {
				spaced = append(spaced, &S{K: "comment", T: "c"})
				ncomments++
			}
		}
		spaced = append(spaced, g.text())
		switch rapid.IntRange(0, 7).Draw(rt, "large") {
		case 0:
			// beyond 4096 bytes the second tokenizer reads the template: dashes must behave alike
			spaced = append(spaced, Text("<"+strings.Repeat("p", 4200)+">"))
		case 1:
			// the long text first: the template then ends with whatever the program ends with
			// (possibly a dashed delimiter followed by nothing but whitespace)
			spaced = append([]*S{Text("<" + strings.Repeat("p", 4200) + ">")}, spaced...)
		}
		c := C13Case{Ctx: g.x.ctx, Set: TSet{{Name: "main", Body: spaced}}}
		_, eff, nd := handTrim(c.Set[0])
		src := PrintTmpl(c.Set[0], SPrint{})
		cls := []string{fmt.Sprintf("dashes:%d", min(nd, 9))}
		if ncomments > 0 {
			cls = append(cls, "comment-next-to-a-delimiter")
		}
		if len(src) > 4096 {
			cls = append(cls, "template>4096")
			src = src[:200] + "…"
		}
		r.Case(src+showModel(c.Ctx.Model()), eff > 0, q(src), cls...)
		if err := checkC13(c); err != nil {
			r.Fail(rt, "C13.dash", c, err)
		}
	})
}

func min(a, b int) int {
	if a < b {
		return a
	}
	return b
}

// c13Singles builds, for every tag kind, a template set exercising that tag with whitespace
// text on both sides of each of its delimiters.
func c13Kinds() map[string]func() TSet {
	w := func(core string) *S { return Text(" \n\t" + core + " \r\n ") }
	wrap := func(s *S) []*S { return []*S{w("a"), s, w("b")} }
	main := func(body ...*S) TSet {
		return TSet{{Name: "main", Body: body}, {Name: "inc", Body: []*S{Text("[inc]")}},
			{Name: "lib", Body: []*S{{K: "macro", Name: "mm", Body: []*S{Text("[mm]")}}}}}
	}
	return map[string]func() TSet{
		"print": func() TSet { return main(wrap(Print(Var("a")))...) },
		"if": func() TSet {
			return main(wrap(&S{K: "if", Conds: []*E{Var("f"), Var("t")}, Bodies: [][]*S{{w("x")}, {w("y")}}, HasElse: true, Else: []*S{w("z")}})...)
		},
		"if-else-taken": func() TSet {
			return main(wrap(&S{K: "if", Conds: []*E{Var("f")}, Bodies: [][]*S{{w("x")}}, HasElse: true, Else: []*S{w("z")}})...)
		},
		"for": func() TSet {
			return main(wrap(&S{K: "for", Name: "i", E: Var("xs"), Body: []*S{w("x"), Print(Var("i")), w("y")}, HasElse: true, Else: []*S{w("e")}})...)
		},
		"for-empty": func() TSet {
			return main(wrap(&S{K: "for", Name: "i", E: Var("es"), Body: []*S{w("x")}, HasElse: true, Else: []*S{w("e")}})...)
		},
		"set":       func() TSet { return main(append(wrap(SetS("v", Int(5))), Print(Var("v")))...) },
		"do":        func() TSet { return main(wrap(&S{K: "do", E: Bin("+", Int(1), Int(2))})...) },
		"block":     func() TSet { return main(wrap(&S{K: "block", Name: "bb", Body: []*S{w("x")}})...) },
		"apply":     func() TSet { return main(wrap(&S{K: "apply", Filter: "upper", Body: []*S{w("x")}})...) },
		"spaceless": func() TSet { return main(wrap(&S{K: "spaceless", Body: []*S{Text(" <a> \n <b> ")}})...) },
		"verbatim":  func() TSet { return main(wrap(&S{K: "verbatim", T: " \n raw text \n "})...) },
		"include":   func() TSet { return main(wrap(&S{K: "include", E: Str("inc")})...) },
		"macro": func() TSet {
			return main(append(wrap(&S{K: "macro", Name: "m1", Body: []*S{w("x")}}), Print(&E{K: "mcall", S: "m1", M: "local"}), w("c"))...)
		},
		"import": func() TSet {
			return main(append(wrap(&S{K: "import", E: Str("lib"), Name: "lib"}), Print(&E{K: "mcall", S: "mm", M: "import"}), w("c"))...)
		},
		"from": func() TSet {
			return main(append(wrap(&S{K: "from", E: Str("lib"), Imports: []Import{{Name: "mm"}}}), Print(&E{K: "mcall", S: "mm", M: "from"}), w("c"))...)
		},
		"extends": func() TSet {
			return TSet{{Name: "main", Extends: Str("base"), Body: []*S{w(""), {K: "block", Name: "bb", Body: []*S{w("child")}}, w("")}},
				{Name: "base", Body: []*S{w("p"), {K: "block", Name: "bb", Body: []*S{w("base")}}, w("q")}}}
		},
	}
}

func countTags(t *Tmpl) int {
	var ls []lin
	linearize(t.Body, &ls)
	n := 0
	for _, l := range ls {
		if l.text == nil {
			n++
		}
	}
	return n
}

// setDash puts exactly the given dash bits on the k-th tag (source order) of the template.
func setDashK(body []*S, k *int, bits int) bool {
	put := func(s *S, i, n int) bool {
		if *k == 0 {
			s.D = make([]int, n)
			s.D[i] = bits
			*k = -1
			return true
		}
		*k--
		return false
	}
	for _, s := range body {
		switch s.K {
		case "text":
		case "comment":
			if *k == 0 {
				*k = -1
				return false
			}
			*k--
		case "print", "parent", "set", "do", "include", "import", "from":
			if put(s, 0, 1) {
				return true
			}
		case "verbatim":
			if put(s, 0, 2) || put(s, 1, 2) {
				return true
			}
		case "if":
			n := len(s.Conds) + 1
			if s.HasElse {
				n++
			}
			ti := 0
			for i := range s.Conds {
				if put(s, ti, n) {
					return true
				}
				ti++
				if setDashK(s.Bodies[i], k, bits) {
					return true
				}
			}
			if s.HasElse {
				if put(s, ti, n) {
					return true
				}
				ti++
				if setDashK(s.Else, k, bits) {
					return true
				}
			}
			if put(s, ti, n) {
				return true
			}
		case "for":
			n := 2
			if s.HasElse {
				n = 3
			}
			if put(s, 0, n) {
				return true
			}
			if setDashK(s.Body, k, bits) {
				return true
			}
			ti := 1
			if s.HasElse {
				if put(s, ti, n) {
					return true
				}
				ti++
				if setDashK(s.Else, k, bits) {
					return true
				}
			}
			if put(s, ti, n) {
				return true
			}
		case "block", "macro", "apply", "spaceless":
			if put(s, 0, 2) {
				return true
			}
			if setDashK(s.Body, k, bits) {
				return true
			}
			if put(s, 1, 2) {
				return true
			}
		}
	}
	return false
}

func TestC13Singles(t *testing.T) {
	r := NewRec(t, "C13", "exhaustive: for each tag kind (print, if/elseif/else/endif, for/else/endfor, set, do, block, apply, spaceless, verbatim, include, macro, import, from, extends) a template with whitespace on both sides of every delimiter, and a dash on exactly one delimiter side (left, right) or on both sides of exactly one tag; all cases non-trivial")
	defer r.Flush()
	r.SetExhaustive()
	ctx := Ctx{}
	ctx.Set("a", Int(7))
	ctx.Set("t", Bool(true))
	ctx.Set("f", Bool(false))
	ctx.Set("xs", List(Int(1), Int(2)))
	ctx.Set("es", List())
	kinds := c13Kinds()
	var names []string
	for k := range kinds {
		names = append(names, k)
	}
	sortStrings(names)
	for _, kn := range names {
		ntags := countTags(kinds[kn]()[0])
		for k := 0; k < ntags; k++ {
			for bits := 1; bits <= 3; bits++ {
				set := kinds[kn]()
				kk := k
				if !setDashK(set[0].Body, &kk, bits) {
					continue
				}
				c := C13Case{Ctx: ctx, Set: set}
				src := PrintTmpl(set[0], SPrint{})
				r.Case(src, true, q(src), "kind:"+kn)
				if err := checkC13(c); err != nil {
					r.FailEnum(t, "C13.dash", c, err)
				}
			}
		}
		if kn == "extends" {
			for bits := 1; bits <= 3; bits++ {
				set := kinds[kn]()
				set[0].XD = bits
				c := C13Case{Ctx: ctx, Set: set}
				src := PrintTmpl(set[0], SPrint{})
				r.Case(src, true, q(src), "kind:extends-tag")
				if err := checkC13(c); err != nil {
					r.FailEnum(t, "C13.dash", c, err)
				}
			}
		}
	}
}

// TestC13TokenSweep: one dashed print tag followed by filler tags, for every total token count
// from 8 to 1300 in ascending order. Buffers that grow with the number of tokens (and are
// pooled) pass through each of their capacities exactly once on the way.
func TestC13TokenSweep(t *testing.T) {
	r := NewRec(t, "C13", "exhaustive: a dashed print tag between whitespace-padded texts, followed by filler print tags and texts so that the template has exactly T tokens, for every T in 8..1300 ascending (below 4096 bytes) and the same with a 4200-byte tail; oracle as in TestC13Dashes; all cases non-trivial")
	defer r.Flush()
	r.SetExhaustive()
	ctx := Ctx{}
	ctx.Set("a", Int(7))
	for _, tail := range []int{0, 4200} {
		for T := 8; T <= 1300; T++ {
			extra := T - 5
			k, rem := extra/3, extra%3
			if len("A  {{- a -}}  B")+k*7+rem > 4000 && tail == 0 {
				break
			}
			body := []*S{Text("A \n "), {K: "print", E: Var("a"), D: []int{3}}, Text(" \t B")}
			for i := 0; i < k; i++ {
				if i < rem {
					body = append(body, Text("t"))
				}
				body = append(body, Print(Var("a")))
			}
			if tail > 0 {
				body = append(body, Text("<"+strings.Repeat("p", tail)+">"))
			}
			c := C13Case{Ctx: ctx, Set: TSet{{Name: "main", Body: body}}}
			r.Case(fmt.Sprint(T, tail), true, fmt.Sprintf("%d tokens, tail %d", T, tail))
			if err := checkC13(c); err != nil {
				r.FailEnum(t, "C13.dash", c, err)
			}
		}
	}
}

// TestC13ManyDashes: the same dashed unit repeated 1..80 times: bookkeeping per dashed delimiter
// (index tables, work lists) must not run out after some number of them.
func TestC13ManyDashes(t *testing.T) {
	r := NewRec(t, "C13", "exhaustive: a unit of padded text and one dashed tag ({{- a -}}, {{- a }}, {{ a -}}, {%- if t -%}..{%- endif -%}) repeated n = 1..80 times, as written and with a 4200-byte tail; oracle as in TestC13Dashes; non-trivial = n > 1")
	defer r.Flush()
	r.SetExhaustive()
	ctx := Ctx{}
	ctx.Set("a", Int(7))
	ctx.Set("t", Bool(true))
	for _, tail := range []int{0, 4200} {
		for kind := 0; kind < 4; kind++ {
			for n := 1; n <= 80; n++ {
				var body []*S
				for i := 0; i < n; i++ {
					body = append(body, Text(fmt.Sprintf(" \n w%d \t ", i)))
					switch kind {
					case 0, 1, 2:
						body = append(body, &S{K: "print", E: Var("a"), D: []int{3 - kind}})
					default:
						body = append(body, &S{K: "if", Conds: []*E{Var("t")}, Bodies: [][]*S{{Text(" \r\n in \n ")}}, D: []int{3, 3}})
					}
				}
				body = append(body, Text(" \n end"))
				if tail > 0 {
					body = append(body, Text("<"+strings.Repeat("p", tail)+">"))
				}
				c := C13Case{Ctx: ctx, Set: TSet{{Name: "main", Body: body}}}
				r.Case(fmt.Sprint(kind, n, tail), n > 1, fmt.Sprintf("kind %d x %d, tail %d", kind, n, tail))
				if err := checkC13(c); err != nil {
					r.FailEnumKey(t, "C13.dash", fmt.Sprint(kind, tail), c, err)
				}
			}
		}
	}
}

// TestC13LongTags: dashed delimiters around tags whose inside is long (a dash must be found however
// far its delimiter is from the opening one).
func TestC13LongTags(t *testing.T) {
	r := NewRec(t, "C13", "exhaustive: print, if, elseif, set and for tags whose inside holds a string literal of 10..3500 bytes (30 sizes around 240..270, 500..520, 1020..1030 and 4090 total), with each combination of dashes on the tag, between blank-edged texts; oracle as in TestC13Dashes; non-trivial = inside >= 200 bytes")
	defer r.Flush()
	r.SetExhaustive()
	ctx := Ctx{}
	ctx.Set("a", Int(7))
	ctx.Set("t", Bool(true))
	sizes := []int{10, 100, 200, 230, 236, 240, 244, 248, 250, 252, 254, 255, 256, 257, 258, 260, 264, 270, 300, 500, 510, 512, 520, 1000, 1020, 1024, 1030, 2000, 3000, 3500}
	for _, n := range sizes {
		long := Str(strings.Repeat("w", n))
		for kind := 0; kind < 5; kind++ {
			for bits := 1; bits <= 3; bits++ {
				var st *S
				switch kind {
				case 0:
					st = &S{K: "print", E: Bin("~", long, Var("a")), D: []int{bits}}
				case 1:
					st = &S{K: "if", Conds: []*E{Bin("!=", long, Str("x"))}, Bodies: [][]*S{{Text(" \n in \t ")}}, D: []int{bits, 0}}
				case 2:
					st = &S{K: "if", Conds: []*E{Bool(false), Bin("!=", long, Str("x"))}, Bodies: [][]*S{{Text(" n ")}, {Text(" \n in \t ")}}, D: []int{0, bits, 0}}
				case 3:
					st = &S{K: "set", Name: "v", E: Bin("~", long, Str("!")), D: []int{bits}}
				default:
					st = &S{K: "for", Name: "i", E: List(long, Int(2)), Body: []*S{Text(" \r\n x \n ")}, D: []int{bits, 0}}
				}
				body := []*S{Text("A \n "), st, Text(" \t B")}
				c := C13Case{Ctx: ctx, Set: TSet{{Name: "main", Body: body}}}
				r.Case(fmt.Sprint(n, kind, bits), n >= 200, fmt.Sprintf("kind %d, inside ~%d bytes, dashes %d", kind, n, bits))
				if err := checkC13(c); err != nil {
					r.FailEnumKey(t, "C13.dash", fmt.Sprint(kind, bits), c, err)
				}
			}
		}
	}
}

func init() { reg("C13.dash", checkC13) }
