package vh

// Case AST owned by the harness (DESIGN.md 3.1). Generators produce values of these types,
// the printer turns them into Twig source (with explicit spelling choices), the reference
// model evaluates them directly. Engine and model never share code.

import (
	"fmt"
	"sort"
	"strconv"
	"strings"
)

// E is an expression node. One struct for all kinds keeps JSON (replay files) trivial.
//
//	int  I            str  S            bool I(0/1)      null
//	var  S            attr A0 .S        idx  A0[A1]      un   S(op) A0
//	bin  S(op) A0 A1  cond A0?A1:A2     filt A0|S(A1..)  call S(A...)
//	list [A...]       hash {Ks[i]:A[i]} test A0 is [not] S(A1..)   (N = negated)
//	mcall macro call: S = macro name, M = form (local,self,import,from,alias), A = args
type E struct {
	K  string   `json:"k"`
	I  int64    `json:"i,omitempty"`
	S  string   `json:"s,omitempty"`
	A  []*E     `json:"a,omitempty"`
	Ks []string `json:"ks,omitempty"`
	N  bool     `json:"n,omitempty"`
	M  string   `json:"m,omitempty"`
	// spelling choices (part of the case, shrink with it)
	P bool  `json:"p,omitempty"` // redundant parentheses around this node
	Q int   `json:"q,omitempty"` // quote style for str: 0 single, 1 double
	W []int `json:"w,omitempty"` // whitespace codes around operators / separators
}

func Int(i int64) *E            { return &E{K: "int", I: i} }
func Str(s string) *E           { return &E{K: "str", S: s} }
func Bool(b bool) *E            { return &E{K: "bool", I: b2i(b)} }
func Null() *E                  { return &E{K: "null"} }
func Var(n string) *E           { return &E{K: "var", S: n} }
func Attr(e *E, n string) *E    { return &E{K: "attr", S: n, A: []*E{e}} }
func Idx(e, i *E) *E            { return &E{K: "idx", A: []*E{e, i}} }
func Un(op string, e *E) *E     { return &E{K: "un", S: op, A: []*E{e}} }
func Bin(op string, a, b *E) *E { return &E{K: "bin", S: op, A: []*E{a, b}} }
func Cond(c, a, b *E) *E        { return &E{K: "cond", A: []*E{c, a, b}} }
func Filt(e *E, name string, args ...*E) *E {
	return &E{K: "filt", S: name, A: append([]*E{e}, args...)}
}
func Call(name string, args ...*E) *E  { return &E{K: "call", S: name, A: args} }
func List(items ...*E) *E              { return &E{K: "list", A: items} }
func Hash(keys []string, vals []*E) *E { return &E{K: "hash", Ks: keys, A: vals} }
func Test(e *E, name string, neg bool, args ...*E) *E {
	return &E{K: "test", S: name, N: neg, A: append([]*E{e}, args...)}
}

func b2i(b bool) int64 {
	if b {
		return 1
	}
	return 0
}

// ---- operator table (from the text of property C08) -------------------------------------

var opLevel = map[string]int{
	"or": 1, "and": 2,
	"==": 3, "!=": 3, "<": 3, ">": 3, "<=": 3, ">=": 3, "in": 3, "not in": 3, "matches": 3, "starts with": 3, "ends with": 3,
	"+": 4, "-": 4, "~": 4,
	"*": 5, "/": 5, "%": 5,
	"^": 6,
}

func isWordOp(op string) bool { c := op[0]; return c >= 'a' && c <= 'z' }

// ---- printer ------------------------------------------------------------------------------

// PrintOpts selects a spelling.
type PrintOpts struct {
	Full    bool // parenthesise every compound node
	NoSpace bool // ignore whitespace codes, use single spaces
}

var wsCodes = []string{"", " ", "  ", "\t", "\n", " \n "}

func ws(e *E, i int, word bool, o PrintOpts) string {
	if o.NoSpace || i >= len(e.W) {
		return " "
	}
	s := wsCodes[e.W[i]%len(wsCodes)]
	if s == "" && word {
		return " "
	}
	return s
}

// wsOpt is for separators where "no space" is the default when no code was generated.
func wsOpt(e *E, i int, o PrintOpts) string {
	if o.NoSpace || i >= len(e.W) {
		return ""
	}
	return wsCodes[e.W[i]%len(wsCodes)]
}

func quoteTwig(s string, style int) string {
	qc := byte('\'')
	if style == 1 {
		qc = '"'
	}
	var b strings.Builder
	b.WriteByte(qc)
	for i := 0; i < len(s); i++ {
		c := s[i]
		switch {
		case c == qc || c == '\\':
			b.WriteByte('\\')
			b.WriteByte(c)
		case c == '\n':
			b.WriteString("\\n")
		case c == '\t':
			b.WriteString("\\t")
		case c == '\r':
			b.WriteString("\\r")
		default:
			b.WriteByte(c)
		}
	}
	b.WriteByte(qc)
	return b.String()
}

// isAtom: nodes that can carry a postfix ([i], .k, |f) or stand as operand without parentheses.
func (e *E) isAtom() bool {
	switch e.K {
	case "str", "bool", "null", "var", "attr", "idx", "call", "list", "hash", "mcall":
		return true
	case "int":
		return e.I >= 0
	}
	return false
}

// PrintE renders e. ctxLevel: precedence demanded by the parent (0 = none); right: e is the
// right operand of a left-grouping binary operator.
func PrintE(e *E, o PrintOpts) string { return printE(e, o, 0, false, true) }

func paren(s string) string { return "(" + s + ")" }

// printE: lvl = level of the enclosing binary operator (0 none), right = right operand,
// first = e is the first token of the enclosing delimiter-free context (a leading minus is
// unambiguous there).
func printE(e *E, o PrintOpts, lvl int, right bool, first bool) string {
	s, compound := printE0(e, o, first)
	need := false
	switch e.K {
	case "bin":
		l := opLevel[e.S]
		need = lvl > 0 && (l < lvl || (l == lvl && right))
	case "cond":
		need = lvl > 0
	case "un":
		// spelled without parentheses only where every reading agrees (DESIGN C08 W):
		// `not x` under and/or; a sign as left operand of + - * / % ~ and comparisons
		if lvl > 0 {
			if e.S == "not" {
				need = lvl > 2
			} else {
				need = right || lvl >= 6
			}
		}
	case "test":
		need = lvl > 0
	case "int":
		need = e.I < 0 && (lvl > 0 && (right || lvl >= 6))
	}
	if need || e.P || (o.Full && compound) {
		return paren(s)
	}
	return s
}

// printOperand prints the subject of a postfix or the operand of a unary operator.
func printPostfixSubject(e *E, o PrintOpts) string {
	s, _ := printE0(e, o, false)
	if e.isAtom() && !e.P {
		return s
	}
	if e.K == "filt" && !e.P {
		return s
	}
	return paren(s)
}

func printArgs(e *E, args []*E, o PrintOpts, w0 int) string {
	var b strings.Builder
	for i, a := range args {
		if i > 0 {
			b.WriteString(",")
			b.WriteString(ws(e, w0+i, false, o))
		}
		b.WriteString(printE(a, o, 0, false, true))
	}
	return b.String()
}

// printE0 returns the text and whether the node is "compound" (gets parentheses in Full mode).
func printE0(e *E, o PrintOpts, first bool) (string, bool) {
	switch e.K {
	case "int":
		return strconv.FormatInt(e.I, 10), false
	case "str":
		return quoteTwig(e.S, e.Q), false
	case "bool":
		if e.I != 0 {
			return "true", false
		}
		return "false", false
	case "null":
		return "null", false
	case "var":
		return e.S, false
	case "attr":
		return printPostfixSubject(e.A[0], o) + "." + e.S, false
	case "idx":
		return printPostfixSubject(e.A[0], o) + "[" + wsOpt(e, 0, o) + printE(e.A[1], o, 0, false, true) + wsOpt(e, 1, o) + "]", false
	case "un":
		sp := ""
		if e.S == "not" {
			sp = ws(e, 0, true, o)
		}
		a := e.A[0]
		var as string
		switch {
		case a.K == "un" && a.S == "not" && e.S == "not":
			as, _ = printE0(a, o, false)
			if a.P || o.Full {
				as = paren(as)
			}
		case a.isAtom() && !a.P:
			as, _ = printE0(a, o, false)
		default:
			as0, _ := printE0(a, o, true)
			as = paren(as0)
		}
		return e.S + sp + as, true
	case "bin":
		l := opLevel[e.S]
		word := isWordOp(e.S)
		left := printE(e.A[0], o, l, false, first)
		rightS := printE(e.A[1], o, l, true, false)
		return left + ws(e, 0, word, o) + e.S + ws(e, 1, word, o) + rightS, true
	case "cond":
		c := printE(e.A[0], o, 0, false, first)
		if e.A[0].K == "cond" {
			c = paren(c)
		}
		a := printE(e.A[1], o, 0, false, true)
		if e.A[1].K == "cond" {
			a = paren(a)
		}
		b := printE(e.A[2], o, 0, false, true)
		return c + ws(e, 0, false, o) + "?" + ws(e, 1, false, o) + a + ws(e, 2, false, o) + ":" + ws(e, 3, false, o) + b, true
	case "filt":
		s := printPostfixSubject(e.A[0], o) + wsOpt(e, 0, o) + "|" + wsOpt(e, 1, o) + e.S
		if len(e.A) > 1 {
			s += "(" + printArgs(e, e.A[1:], o, 2) + ")"
		}
		return s, true
	case "call":
		return e.S + "(" + printArgs(e, e.A, o, 0) + ")", false
	case "mcall":
		name := e.S
		switch e.M {
		case "self":
			name = "_self." + e.S
		case "import":
			name = "lib." + e.S
		case "alias":
			name = "al_" + e.S
		}
		return name + "(" + printArgs(e, e.A, o, 0) + ")", false
	case "list":
		return "[" + printArgs(e, e.A, o, 0) + "]", false
	case "hash":
		var b strings.Builder
		b.WriteString("{")
		for i := range e.A {
			if i > 0 {
				b.WriteString(",")
				b.WriteString(ws(e, i, false, o))
			}
			b.WriteString(quoteTwig(e.Ks[i], 0))
			b.WriteString(":")
			b.WriteString(ws(e, 8+i, false, o))
			b.WriteString(printE(e.A[i], o, 0, false, true))
		}
		b.WriteString("}")
		return b.String(), false
	case "test":
		s := printE(e.A[0], o, 7, false, first) + " is "
		if e.N {
			s += "not "
		}
		s += e.S
		if len(e.A) > 1 {
			s += "(" + printArgs(e, e.A[1:], o, 0) + ")"
		}
		return s, true
	}
	panic("printE0: unknown kind " + e.K)
}

// ---- values ---------------------------------------------------------------------------------

// Model values: nil, bool, int64, string, []interface{}, map[string]interface{}.

// toGo converts a literal-only expression (context description) to the Go value handed to
// the engine: untyped maps and slices of interface{}, ints as int.
func litToGo(e *E) interface{} {
	switch e.K {
	case "int":
		return int(e.I)
	case "str":
		return e.S
	case "bool":
		return e.I != 0
	case "null":
		return nil
	case "list":
		out := make([]interface{}, len(e.A))
		for i, a := range e.A {
			out[i] = litToGo(a)
		}
		return out
	case "hash":
		out := make(map[string]interface{}, len(e.A))
		for i, a := range e.A {
			out[e.Ks[i]] = litToGo(a)
		}
		return out
	}
	panic("litToGo: " + e.K)
}

func litToModel(e *E) interface{} {
	switch e.K {
	case "int":
		return e.I
	case "str":
		return e.S
	case "bool":
		return e.I != 0
	case "null":
		return nil
	case "list":
		out := make([]interface{}, len(e.A))
		for i, a := range e.A {
			out[i] = litToModel(a)
		}
		return out
	case "hash":
		out := make(map[string]interface{}, len(e.A))
		for i, a := range e.A {
			out[e.Ks[i]] = litToModel(a)
		}
		return out
	}
	panic("litToModel: " + e.K)
}

// Ctx is a context description: ordered (name, literal) pairs.
type Ctx struct {
	Names []string `json:"names"`
	Vals  []*E     `json:"vals"`
}

func (c Ctx) Go() map[string]interface{} {
	m := make(map[string]interface{}, len(c.Names))
	for i, n := range c.Names {
		m[n] = litToGo(c.Vals[i])
	}
	return m
}

func (c Ctx) Model() map[string]interface{} {
	m := make(map[string]interface{}, len(c.Names))
	for i, n := range c.Names {
		m[n] = litToModel(c.Vals[i])
	}
	return m
}

func (c *Ctx) Set(n string, v *E) {
	for i := range c.Names {
		if c.Names[i] == n {
			c.Vals[i] = v
			return
		}
	}
	c.Names = append(c.Names, n)
	c.Vals = append(c.Vals, v)
}

func showModel(v interface{}) string {
	switch x := v.(type) {
	case nil:
		return "null"
	case bool:
		return strconv.FormatBool(x)
	case int64:
		return strconv.FormatInt(x, 10)
	case string:
		return strconv.Quote(x)
	case []interface{}:
		parts := make([]string, len(x))
		for i, a := range x {
			parts[i] = showModel(a)
		}
		return "[" + strings.Join(parts, ",") + "]"
	case map[string]interface{}:
		ks := make([]string, 0, len(x))
		for k := range x {
			ks = append(ks, k)
		}
		sort.Strings(ks)
		parts := make([]string, len(ks))
		for i, k := range ks {
			parts[i] = strconv.Quote(k) + ":" + showModel(x[k])
		}
		return "{" + strings.Join(parts, ",") + "}"
	}
	return fmt.Sprintf("?%T", v)
}
