package vh

// C15 — template cache and loaders always serve the source the configuration calls for.
//
// Oracle: an explicit state-machine model (cache flags, cache content with origin loader and
// timestamp, loader contents). For each Load/Render it yields the admissible set of versions
// (a singleton except where the statement is silent) and constraints on loader read counts.

import (
	"errors"
	"fmt"
	"io"
	"os"
	"path/filepath"
	"strings"
	"testing"
	"time"

	"github.com/semihalev/twig"
	"pgregory.net/rapid"
)

type C15Op struct {
	Op     string `json:"op"` // cache | autoreload | devmode | register | set | remove | load | render | renderTo | loadAbsent
	On     bool   `json:"on,omitempty"`
	Loader int    `json:"loader,omitempty"`
	Name   int    `json:"name,omitempty"`
}

type C15Case struct {
	Ops []C15Op `json:"ops"`
	// Nested: 0 = the three loaders are registered on the engine one by one; 1 = the engine has one
	// ChainLoader of the three; 2 = a ChainLoader of loader 0 and an inner ChainLoader of loaders 1, 2
	Nested int `json:"nested,omitempty"`
}

type c15Entry struct {
	version int
	ts      int64
}

// c15Loader is an in-memory loader with read counters; with timestamps when tsAware.
type c15Loader struct {
	items map[string]c15Entry
	loads map[string]int
	stats int
}

func (l *c15Loader) Load(name string) (string, error) {
	l.loads[name]++
	if it, ok := l.items[name]; ok {
		return fmt.Sprintf("v%d", it.version), nil
	}
	return "", fmt.Errorf("%w: %s", twig.ErrTemplateNotFound, name)
}
func (l *c15Loader) Exists(name string) bool { _, ok := l.items[name]; return ok }

type c15TSLoader struct{ *c15Loader }

func (l c15TSLoader) GetModifiedTime(name string) (int64, error) {
	l.stats++
	if it, ok := l.items[name]; ok {
		return it.ts, nil
	}
	return 0, fmt.Errorf("%w: %s", twig.ErrTemplateNotFound, name)
}

type c15Cached struct {
	version int
	loader  int // -1 = registered
	ts      int64
}

var c15Names = []string{"n0", "n1", "n2", "n3"}

// loaders: 0 timestamp-aware, 1 plain, 2 timestamp-aware
func checkC15(c C15Case) error {
	_, err := runC15(c)
	return err
}

type c15Stats struct {
	reads, staleReads, changesAfterCache int
	nontrivial                           bool
	excluded                             map[string]int
}

func runC15(c C15Case) (c15Stats, error) {
	st := c15Stats{excluded: map[string]int{}}
	twig.SetDebugWriter(io.Discard)
	e := twig.New()
	raw := []*c15Loader{newC15Loader(), newC15Loader(), newC15Loader()}
	tsAware := []bool{true, false, true}
	switch c.Nested {
	case 1:
		// a ChainLoader has no timestamps: first loader that has the name wins, no reload claims
		tsAware = []bool{false, false, false}
		e.RegisterLoader(twig.NewChainLoader([]twig.Loader{c15TSLoader{raw[0]}, raw[1], c15TSLoader{raw[2]}}))
	case 2:
		tsAware = []bool{false, false, false}
		e.RegisterLoader(twig.NewChainLoader([]twig.Loader{c15TSLoader{raw[0]}, twig.NewChainLoader([]twig.Loader{raw[1], c15TSLoader{raw[2]}})}))
	default:
		e.RegisterLoader(c15TSLoader{raw[0]})
		e.RegisterLoader(raw[1])
		e.RegisterLoader(c15TSLoader{raw[2]})
	}
	cacheOn, autoReload := true, false
	cache := map[string]c15Cached{}
	registered := map[string]bool{} // names whose cache entry came from RegisterString at some point
	changed := map[string]bool{}    // a change/registration happened after the name was cached
	version := 0
	var clock int64 = 1000
	type heldT struct {
		t       *twig.Template
		name    string
		version int
	}
	var held []heldT
	firstWins := func(name string) (c15Cached, bool) {
		for i, l := range raw {
			if it, ok := l.items[name]; ok {
				ent := c15Cached{version: it.version, loader: i}
				if tsAware[i] {
					ent.ts = it.ts
				}
				return ent, true
			}
		}
		return c15Cached{}, false
	}
	for i, op := range c.Ops {
		name := c15Names[op.Name%len(c15Names)]
		switch op.Op {
		case "cache":
			e.SetCache(op.On)
			cacheOn = op.On
		case "autoreload":
			e.SetAutoReload(op.On)
			autoReload = op.On
		case "devmode":
			e.SetDevelopmentMode(op.On)
			autoReload = op.On
			cacheOn = !op.On
		case "register":
			if !cacheOn {
				// the engine drops registrations while caching is off and the statement's first
				// two clauses conflict there: excluded by construction
				st.excluded["register while the cache is off"]++
				continue
			}
			version++
			if op.Loader%3 == 1 {
				// a parsed template (which carries no name of its own) registered under the name
				tp, err := e.ParseTemplate(fmt.Sprintf("v%d", version))
				if err != nil {
					return st, fmt.Errorf("op %d: ParseTemplate failed: %v", i, err)
				}
				e.RegisterTemplate(name, tp)
			} else if err := e.RegisterString(name, fmt.Sprintf("v%d", version)); err != nil {
				return st, fmt.Errorf("op %d: RegisterString failed: %v", i, err)
			}
			if _, ok := cache[name]; ok {
				changed[name] = true
			}
			cache[name] = c15Cached{version: version, loader: -1}
			registered[name] = true
		case "set":
			l := op.Loader % 3
			version++
			clock += 10
			raw[l].items[name] = c15Entry{version: version, ts: clock}
			if _, ok := cache[name]; ok {
				changed[name] = true
			}
		case "registerSame":
			// the source that is cached from a loader is registered again, unchanged: from then
			// on the name holds a registration (it no longer follows the loader)
			ent, ok := cache[name]
			if !cacheOn || !ok || ent.loader < 0 {
				continue
			}
			if err := e.RegisterString(name, fmt.Sprintf("v%d", ent.version)); err != nil {
				return st, fmt.Errorf("op %d: RegisterString failed: %v", i, err)
			}
			cache[name] = c15Cached{version: ent.version, loader: -1}
			registered[name] = true
		case "renderHeld":
			// a template handle obtained earlier from Load keeps rendering what it rendered then,
			// whatever the cache settings are now, and rendering it changes nothing for later reads
			if len(held) == 0 {
				continue
			}
			h := held[op.Loader%len(held)]
			r := guard(func() (string, error) { return h.t.Render(nil) })
			if r.Failed() || r.Out != fmt.Sprintf("v%d", h.version) {
				return st, fmt.Errorf("op %d: the handle obtained from Load(%s) when it served version %d now renders %v (cache=%v autoReload=%v)", i, h.name, h.version, r, cacheOn, autoReload)
			}
		case "touch":
			// the timestamp advances, the content stays: visible as "changed" once, then unchanged again
			l := op.Loader % 3
			if it, ok := raw[l].items[name]; ok {
				clock += 10
				it.ts = clock
				raw[l].items[name] = it
			}
		case "remove":
			l := op.Loader % 3
			if _, ok := raw[l].items[name]; ok {
				delete(raw[l].items, name)
				if _, ok := cache[name]; ok {
					changed[name] = true
				}
			}
		case "load", "render", "renderTo", "loadAbsent":
			if op.Op == "loadAbsent" {
				name = "absent"
			}
			if registered[name] && !cacheOn {
				st.excluded["read of a registered name while the cache is off"]++
				continue
			}
			// admissible outcomes
			admissible := map[int]bool{}
			notFoundOK := false
			mustNotRead := false // an unchanged cached template is not re-read
			cur, has := firstWins(name)
			ent, cached := cache[name]
			switch {
			case !cacheOn:
				if has {
					admissible[cur.version] = true
				} else {
					notFoundOK = true
				}
			case cached && !autoReload:
				admissible[ent.version] = true
				mustNotRead = true
			case cached && autoReload:
				switch {
				case ent.loader == -1:
					admissible[ent.version] = true
					mustNotRead = true
				case !tsAware[ent.loader]:
					// no claim for loaders without timestamps: cached or re-resolved
					admissible[ent.version] = true
					if has {
						admissible[cur.version] = true
					}
				default:
					it, still := raw[ent.loader].items[name]
					if still && it.ts <= ent.ts {
						// origin unchanged: not re-read. An earlier loader may have gained the
						// name meanwhile: the statement is silent on which clause wins
						admissible[ent.version] = true
						if has && cur.loader < ent.loader {
							admissible[cur.version] = true
						} else {
							mustNotRead = true
						}
					} else if has {
						admissible[cur.version] = true
					} else {
						notFoundOK = true
					}
				}
			default: // cache on, not cached
				if has {
					admissible[cur.version] = true
				} else {
					notFoundOK = true
				}
			}
			before := raw[0].loads[name] + raw[1].loads[name] + raw[2].loads[name]
			cachedNamesBefore := e.GetCachedTemplateCount()
			var r Res
			switch op.Op {
			case "render":
				r = render(e, name, nil)
			case "renderTo":
				r = renderTo(e, name, nil)
			default:
				var tp *twig.Template
				r = guard(func() (string, error) {
					t, err := e.Load(name)
					if err != nil {
						return "", err
					}
					tp = t
					return t.Render(nil)
				})
				var hv int
				if _, err := fmt.Sscanf(r.Out, "v%d", &hv); err == nil && tp != nil && !r.Failed() && len(held) < 8 {
					held = append(held, heldT{tp, name, hv})
				}
			}
			after := raw[0].loads[name] + raw[1].loads[name] + raw[2].loads[name]
			st.reads++
			if changed[name] {
				st.nontrivial = true
				st.changesAfterCache++
			}
			desc := fmt.Sprintf("op %d (%s %s; cache=%v autoReload=%v cached=%v)", i, op.Op, name, cacheOn, autoReload, cached)
			if r.Panic != "" {
				return st, fmt.Errorf("%s panicked: %s", desc, r.Panic)
			}
			if r.Err != "" {
				if !notFoundOK {
					return st, fmt.Errorf("%s failed (%s) but a loader or the cache has the template (admissible versions %v)", desc, firstLine(r.Err), keysOf(admissible))
				}
				if !errors.Is(r.Error(), twig.ErrTemplateNotFound) {
					return st, fmt.Errorf("%s: the error for a name no loader has does not match ErrTemplateNotFound: %s", desc, firstLine(r.Err))
				}
				if e.GetCachedTemplateCount() != cachedNamesBefore {
					return st, fmt.Errorf("%s: a failed lookup changed the number of cached templates from %d to %d", desc, cachedNamesBefore, e.GetCachedTemplateCount())
				}
				continue
			}
			var got int
			if _, err := fmt.Sscanf(r.Out, "v%d", &got); err != nil {
				return st, fmt.Errorf("%s returned %s", desc, q(r.Out))
			}
			if len(admissible) == 0 {
				return st, fmt.Errorf("%s returned version %d although no loader has the name and nothing is cached", desc, got)
			}
			if !admissible[got] {
				return st, fmt.Errorf("%s served version %d, the configuration calls for %v", desc, got, keysOf(admissible))
			}
			if mustNotRead && after != before {
				return st, fmt.Errorf("%s re-read the loaders (%d loads) although the cached template is unchanged", desc, after-before)
			}
			if !cacheOn && after == before {
				return st, fmt.Errorf("%s did not read any loader although caching is disabled", desc)
			}
			// update the model's cache
			if cacheOn {
				reloaded := cached && autoReload && ent.loader >= 0 && tsAware[ent.loader] && has && cur.loader == ent.loader && cur.version == ent.version && cur.ts > ent.ts
				switch {
				case reloaded:
					// same content under a newer timestamp: the reload refreshes what the cache
					// remembers, so that the next call finds the template unchanged
					cache[name] = cur
				case cached && got == ent.version:
					// kept
				default:
					nc := cur
					cache[name] = nc
					delete(changed, name)
				}
			}
			if !changed[name] {
				// once the current content has been served the history starts afresh
			}
		}
	}
	return st, nil
}

func newC15Loader() *c15Loader {
	return &c15Loader{items: map[string]c15Entry{}, loads: map[string]int{}}
}

func keysOf(m map[int]bool) []int {
	var out []int
	for k := range m {
		out = append(out, k)
	}
	for i := 0; i < len(out); i++ {
		for j := i + 1; j < len(out); j++ {
			if out[j] < out[i] {
				out[i], out[j] = out[j], out[i]
			}
		}
	}
	return out
}

func genC15Op(t *rapid.T) C15Op {
	if rapid.IntRange(0, 14).Draw(t, "registersame") == 0 {
		return C15Op{Op: "registerSame", Name: rapid.IntRange(0, 2).Draw(t, "name")}
	}
	if rapid.IntRange(0, 9).Draw(t, "renderheld") == 0 {
		return C15Op{Op: "renderHeld", Loader: rapid.IntRange(0, 7).Draw(t, "which")}
	}
	if rapid.IntRange(0, 11).Draw(t, "touch") == 0 {
		return C15Op{Op: "touch", Name: rapid.IntRange(0, 2).Draw(t, "name"), Loader: rapid.IntRange(0, 2).Draw(t, "loader")}
	}
	k := rapid.IntRange(0, 19).Draw(t, "opkind")
	op := C15Op{Name: rapid.IntRange(0, 2).Draw(t, "name"), Loader: rapid.IntRange(0, 2).Draw(t, "loader"), On: rapid.Bool().Draw(t, "on")}
	switch {
	case k == 0:
		op.Op = "cache"
		op.On = rapid.IntRange(0, 3).Draw(t, "cacheon") != 0
	case k == 1 || k == 2:
		op.Op = "autoreload"
	case k == 3:
		op.Op = "devmode"
		op.On = rapid.IntRange(0, 2).Draw(t, "devon") == 0
	case k == 4 || k == 5:
		op.Op = "register"
	case k <= 9:
		op.Op = "set"
	case k == 10:
		op.Op = "remove"
	case k <= 13:
		op.Op = "load"
	case k <= 16:
		op.Op = "render"
	case k <= 18:
		op.Op = "renderTo"
	default:
		op.Op = "loadAbsent"
	}
	return op
}

const c15Rule = "histories of 10-40 (thorough 200) operations on one engine with three loaders in registration order (timestamp-aware, plain, timestamp-aware; in-memory with read counters): SetCache, SetAutoReload, SetDevelopmentMode, RegisterString (new sources, and the unchanged source of a template cached from a loader), source changes with strictly increasing timestamps, timestamp changes without a content change, removals, Load / Render / RenderTo of 3 names and of an absent name, renders of template handles kept from earlier Loads; sources are version markers so the served version is read off the output; non-trivial = a read of a name whose source changed or was re-registered after it had been cached; distinct by operation list"

func TestC15Cache(t *testing.T) {
	r := NewRec(t, "C15", c15Rule)
	defer r.Flush()
	rapid.Check(t, func(rt *rapid.T) {
		n := rapid.IntRange(20, scale(50, 200)).Draw(rt, "nops")
		var c C15Case
		// prelude: two names are served and cached, so later changes meet a cached entry
		c.Ops = append(c.Ops, C15Op{Op: "set", Loader: rapid.IntRange(0, 2).Draw(rt, "pl0"), Name: 0}, C15Op{Op: "set", Loader: rapid.IntRange(0, 2).Draw(rt, "pl1"), Name: 1},
			C15Op{Op: "load", Name: 0}, C15Op{Op: "render", Name: 1})
		for i := 0; i < n; i++ {
			c.Ops = append(c.Ops, genC15Op(rt))
		}
		c.Nested = []int{0, 0, 0, 1, 2, 2}[rapid.IntRange(0, 5).Draw(rt, "nested")]
		st, err := runC15(c)
		for k, v := range st.excluded {
			r.ClassN("excluded:"+k, v)
		}
		r.ClassN("reads", st.reads)
		r.ClassN("reads-after-change-of-a-cached-name", st.changesAfterCache)
		r.Case(fmt.Sprint(c.Nested, c.Ops), st.nontrivial, c.Ops[:min(8, len(c.Ops))], fmt.Sprintf("loaders:%s", []string{"registered one by one", "one ChainLoader", "nested ChainLoaders"}[c.Nested]))
		if err != nil {
			r.Fail(rt, "C15.cache", c, err)
		}
	})
}

// TestC15Short enumerates all operation sequences of length <= 4 over a reduced alphabet,
// each followed by a read.
func TestC15Short(t *testing.T) {
	r := NewRec(t, "C15", "exhaustive: every sequence of length 1..4 over the reduced alphabet {cache off, cache on, autoreload on, autoreload off, register n0, set n0 in loader 0, set n0 in loader 2, remove n0 from loader 0, load n0, render n0} followed by a final load; non-trivial = the sequence changes n0 after a read")
	defer r.Flush()
	r.SetExhaustive()
	alpha := []C15Op{{Op: "cache", On: false}, {Op: "cache", On: true}, {Op: "autoreload", On: true}, {Op: "autoreload", On: false}, {Op: "register"},
		{Op: "set", Loader: 0}, {Op: "set", Loader: 2}, {Op: "remove", Loader: 0}, {Op: "load"}, {Op: "render"}}
	var rec func(prefix []C15Op, depth int)
	rec = func(prefix []C15Op, depth int) {
		if len(prefix) > 0 {
			c := C15Case{Ops: append(append([]C15Op{}, prefix...), C15Op{Op: "load"})}
			st, err := runC15(c)
			r.Case(fmt.Sprint(c.Ops), st.nontrivial, c.Ops)
			if err != nil {
				r.FailEnum(t, "C15.cache", c, err)
			}
		}
		if depth == 0 {
			return
		}
		for _, a := range alpha {
			rec(append(append([]C15Op{}, prefix...), a), depth-1)
		}
	}
	rec(nil, 4)
}

// ---- the library's own loaders, every source including the empty one ---------------------------------

type C15LibCase struct {
	Kind   int  `json:"kind"` // 0 ArrayLoader, 1 ArrayLoader filled with SetTemplate, 2 ChainLoader of two ArrayLoaders, 3 FileSystemLoader
	Src    BStr `json:"src"`
	Second bool `json:"second"` // a later loader has another template under the same name
}

// checkC15Lib: a loader that has the name serves its source, whatever the source is (the empty
// template is a template), and the first loader that has the name wins.
func checkC15Lib(c C15LibCase) error {
	src := string(c.Src)
	e := twig.New()
	switch c.Kind {
	case 0:
		e.RegisterLoader(twig.NewArrayLoader(map[string]string{"t": src}))
	case 1:
		al := twig.NewArrayLoader(map[string]string{})
		al.SetTemplate("t", src)
		e.RegisterLoader(al)
	case 2:
		inner := []twig.Loader{twig.NewArrayLoader(map[string]string{"t": src})}
		if c.Second {
			inner = append(inner, twig.NewArrayLoader(map[string]string{"t": "SECOND"}))
		}
		e.RegisterLoader(twig.NewChainLoader(inner))
	default:
		root, err := os.MkdirTemp(workDir(), "c15lib-")
		if err != nil {
			return fmt.Errorf("harness: %v", err)
		}
		defer os.RemoveAll(root)
		if err := os.WriteFile(filepath.Join(root, "t.twig"), []byte(src), 0o644); err != nil {
			return fmt.Errorf("harness: %v", err)
		}
		e.RegisterLoader(twig.NewFileSystemLoader([]string{root}))
	}
	if c.Second && c.Kind != 2 {
		e.RegisterLoader(twig.NewArrayLoader(map[string]string{"t": "SECOND"}))
	}
	want, ok := c15LibSources[src]
	if !ok {
		return fmt.Errorf("harness: no expectation for source %s", q(src))
	}
	for round := 1; round <= 2; round++ {
		r := render(e, "t", nil)
		if r.Panic != "" {
			return fmt.Errorf("panic: %s", r.Panic)
		}
		if want == "\x00error" {
			if r.Err == "" || errors.Is(r.Error(), twig.ErrTemplateNotFound) {
				return fmt.Errorf("render %d of the name the first loader holds with the unparsable source %s gives %v, want a parse error", round, q(src), r)
			}
			continue
		}
		if r.Failed() || r.Out != want {
			return fmt.Errorf("render %d of the name the first loader holds with source %s gives %v, want %s", round, q(src), r, q(want))
		}
	}
	return nil
}

// sources of TestC15Library and what they render as ("\x00error": does not parse)
var c15LibSources = map[string]string{"": "", " ": " ", "\n": "\n", "x": "x", "{{ 1 + 1 }}": "2", "{# c #}": "", "{% if %}": "\x00error"}

func TestC15Library(t *testing.T) {
	r := NewRec(t, "C15", "exhaustive: ArrayLoader (constructed / filled with SetTemplate), ChainLoader of ArrayLoaders and FileSystemLoader x sources {empty, blank, text, print tag, comment only, a source that does not parse} x {alone, a later loader has the same name}; oracle: the first loader's source is what renders, twice; non-trivial = empty source or a second loader")
	defer r.Flush()
	r.SetExhaustive()
	for kind := 0; kind < 4; kind++ {
		for _, src := range []string{"", " ", "\n", "x", "{{ 1 + 1 }}", "{# c #}", "{% if %}"} {
			for _, second := range []bool{false, true} {
				c := C15LibCase{Kind: kind, Src: BStr(src), Second: second}
				r.Case(fmt.Sprint(kind, q(src), second), src == "" || second, c)
				if err := checkC15Lib(c); err != nil {
					r.FailEnum(t, "C15.lib", c, err)
				}
			}
		}
	}
}

func init() {
	reg("C15.cache", checkC15)
	reg("C15.lib", checkC15Lib)
}

// ---- file-system loader arm ---------------------------------------------------------------------

type C15FSOp struct {
	Op   string `json:"op"` // write | touch | remove | load | render | cache | autoreload
	Name int    `json:"name"`
	Root int    `json:"root,omitempty"` // which of the two search paths a write/touch/remove addresses
	On   bool   `json:"on,omitempty"`
}

type C15FSCase struct {
	Ops []C15FSOp `json:"ops"`
	// Compiled: the loader is a CompiledLoader over one directory of .twig.compiled files
	// instead of a FileSystemLoader over two search paths
	Compiled bool `json:"compiled,omitempty"`
}

// names that differ only after the last dot, in the directory part, or by one character
var c15FSNames = []string{"a", "a.b", "a.c", "mail.html", "mail.txt", "dir/a", "dir/a.b", "ab"}

func checkC15FS(c C15FSCase) error {
	_, err := runC15FS(c)
	return err
}

func runC15FS(c C15FSCase) (bool, error) {
	root, err := os.MkdirTemp(workDir(), "c15-")
	if err != nil {
		return false, fmt.Errorf("harness: %v", err)
	}
	defer os.RemoveAll(root)
	// two search paths: the first that has the file wins
	roots := []string{filepath.Join(root, "first"), filepath.Join(root, "second")}
	for _, d := range roots {
		os.MkdirAll(d, 0o755)
	}
	e := twig.New()
	if c.Compiled {
		e.RegisterLoader(twig.NewCompiledLoader(roots[0]))
	} else {
		e.RegisterLoader(twig.NewFileSystemLoader(roots))
	}
	writeFile := func(path, name, content string) error {
		if !c.Compiled {
			return os.WriteFile(path, []byte(content), 0o644)
		}
		data, err := twig.SerializeCompiledTemplate(&twig.CompiledTemplate{Name: name, Source: content, LastModified: 1, CompileTime: 2})
		if err != nil {
			return err
		}
		return os.WriteFile(path, data, 0o644)
	}
	type ent struct {
		version int
		ts      int64
		root    int
	}
	files := []map[string]ent{{}, {}}
	cache := map[string]ent{}
	cacheOn, autoReload := true, false
	version := 0
	clock := time.Now().Unix() - 100000
	nontrivial := false
	first := func(name string) (ent, bool) {
		for _, m := range files {
			if it, ok := m[name]; ok {
				return it, true
			}
		}
		return ent{}, false
	}
	// the loader remembers in which search path it found a name and keeps reading that copy
	// while it exists (documented in its source: "Save the path for future lookups"); the
	// statement fixes the order of loaders, not of one loader's search paths, so where two
	// copies exist the remembered one and the first one are both admissible
	known := map[string]int{}
	candidates := func(name string, into map[int]bool) bool {
		cur, has := first(name)
		if has {
			into[cur.version] = true
		}
		if r, ok := known[name]; ok {
			if it, ok := files[r][name]; ok {
				into[it.version] = true
			}
		}
		return has
	}
	for i, op := range c.Ops {
		name := c15FSNames[op.Name%len(c15FSNames)]
		rt := op.Root % 2
		path := filepath.Join(roots[rt], name+".twig")
		if c.Compiled {
			rt = 0
			path = filepath.Join(roots[0], name+".twig.compiled")
		}
		switch op.Op {
		case "cache":
			e.SetCache(op.On)
			cacheOn = op.On
		case "autoreload":
			e.SetAutoReload(op.On)
			autoReload = op.On
		case "write":
			version++
			clock += 10
			os.MkdirAll(filepath.Dir(path), 0o755)
			if err := writeFile(path, name, fmt.Sprintf("v%d", version)); err != nil {
				return false, fmt.Errorf("harness: %v", err)
			}
			os.Chtimes(path, time.Unix(clock, 0), time.Unix(clock, 0))
			files[rt][name] = ent{version, clock, rt}
		case "writeSame":
			// the other search path gets a copy with different content and the same modification time
			// (files deployed together)
			other := 1 - rt
			if it, ok := files[other][name]; ok && !c.Compiled {
				version++
				os.MkdirAll(filepath.Dir(path), 0o755)
				if err := writeFile(path, name, fmt.Sprintf("v%d", version)); err != nil {
					return false, fmt.Errorf("harness: %v", err)
				}
				os.Chtimes(path, time.Unix(it.ts, 0), time.Unix(it.ts, 0))
				files[rt][name] = ent{version, it.ts, rt}
			}
		case "loadall":
			// CompiledLoader.LoadAll on the running engine: whatever it preloads, later reads follow
			// the same rules (the loader is timestamp-aware)
			// (LoadAll registers every compiled file that lies directly in the directory: with the
			// cache on, those names are cached from then on, in the version on disk now)
			if c.Compiled {
				guard(func() (string, error) { return "", twig.NewCompiledLoader(roots[0]).LoadAll(e) })
				if cacheOn {
					for n, it := range files[0] {
						if !strings.Contains(n, "/") {
							cache[n] = it
						}
					}
				}
			}
		case "rewrite":
			// new content, old modification time (a change the timestamp does not show)
			if it, ok := files[rt][name]; ok {
				version++
				if err := writeFile(path, name, fmt.Sprintf("v%d", version)); err != nil {
					return false, fmt.Errorf("harness: %v", err)
				}
				os.Chtimes(path, time.Unix(it.ts, 0), time.Unix(it.ts, 0))
				it.version = version
				files[rt][name] = it
			}
		case "touch":
			if it, ok := files[rt][name]; ok {
				clock += 10
				os.Chtimes(path, time.Unix(clock, 0), time.Unix(clock, 0))
				it.ts = clock
				files[rt][name] = it
			}
		case "remove":
			os.Remove(path)
			delete(files[rt], name)
		case "load", "render":
			cur, has := first(name)
			cached, isCached := cache[name]
			admissible := map[int]bool{}
			notFound := false
			switch {
			case !cacheOn || !isCached:
				if !candidates(name, admissible) {
					notFound = true
				}
			case !autoReload:
				admissible[cached.version] = true
			default:
				origin, still := files[cached.root][name]
				if still && origin.ts <= cached.ts {
					// the file the cached copy came from is unchanged as far as its timestamp tells
					// (a rewrite that kept the timestamp may or may not be noticed); an earlier
					// search path may have gained the name meanwhile: the statement is silent on
					// which clause wins
					admissible[cached.version] = true
					admissible[origin.version] = true
					candidates(name, admissible) // the loader may have re-resolved the name meanwhile
					if has && cur.root < cached.root {
						admissible[cur.version] = true
					}
				} else {
					found := candidates(name, admissible)
					// the file the cached copy came from is gone; a copy in another search path that
					// carries the very time of the cached copy is a change the timestamp does not show
					for _, m := range files {
						if it, ok := m[name]; ok && it.ts == cached.ts {
							admissible[cached.version] = true
							found = true
						}
					}
					if !found {
						notFound = true
					}
				}
			}
			var r Res
			if op.Op == "render" {
				r = render(e, name, nil)
			} else {
				r = guard(func() (string, error) {
					t, err := e.Load(name)
					if err != nil {
						return "", err
					}
					return t.Render(nil)
				})
			}
			desc := fmt.Sprintf("op %d (%s %q; cache=%v autoReload=%v cached=%v on-disk=%v)", i, op.Op, name, cacheOn, autoReload, isCached, has)
			if r.Panic != "" {
				return nontrivial, fmt.Errorf("%s panicked: %s", desc, r.Panic)
			}
			if len(files[0])+len(files[1]) >= 2 {
				nontrivial = true
			}
			if r.Err != "" {
				if !notFound {
					return nontrivial, fmt.Errorf("%s failed (%s) but versions %v are what the configuration calls for", desc, firstLine(r.Err), keysOf(admissible))
				}
				if !errors.Is(r.Error(), twig.ErrTemplateNotFound) {
					return nontrivial, fmt.Errorf("%s: error does not match ErrTemplateNotFound: %s", desc, firstLine(r.Err))
				}
				continue
			}
			if notFound {
				return nontrivial, fmt.Errorf("%s returned %s although the file does not exist and nothing valid is cached", desc, q(r.Out))
			}
			var got int
			if _, err := fmt.Sscanf(r.Out, "v%d", &got); err != nil || !admissible[got] {
				return nontrivial, fmt.Errorf("%s served %s, the configuration calls for versions %v (files in the two search paths: %v)", desc, q(r.Out), keysOf(admissible), files)
			}
			for r, m := range files {
				if it, ok := m[name]; ok && it.version == got {
					known[name] = r
				}
			}
			if cacheOn {
				switch {
				case isCached && got == cached.version && autoReload && files[cached.root][name].version == cached.version && files[cached.root][name].ts > cached.ts:
					// touched: the reload re-read the same content from the file the cached copy
					// came from (whatever other search paths hold) and remembers the new timestamp
					cache[name] = files[cached.root][name]
				case !isCached || got != cached.version:
					for _, m := range files {
						if it, ok := m[name]; ok && it.version == got {
							cache[name] = it
						}
					}
				}
			}
		}
	}
	return nontrivial, nil
}

func TestC15Files(t *testing.T) {
	r := NewRec(t, "C15", "histories of 10-40 operations on an engine with a FileSystemLoader over two search paths in a temp directory: writes (distinct version markers, strictly increasing mtimes set with os.Chtimes), mtime changes without a content change, content changes that keep the mtime, removals (also of the earlier of two copies, also when both copies carry the same mtime); one history in four runs against a CompiledLoader over .twig.compiled files instead; Load/Render, SetCache, SetAutoReload over 8 names that differ only after the last dot, in the directory part or by one character (a, a.b, a.c, mail.html, mail.txt, dir/a, dir/a.b, ab); oracle: the same cache model; non-trivial = at least two files exist when a name is read; distinct by operation list")
	defer r.Flush()
	rapid.Check(t, func(rt *rapid.T) {
		n := rapid.IntRange(10, 40).Draw(rt, "nops")
		var c C15FSCase
		if rapid.IntRange(0, 3).Draw(rt, "twocopies") == 0 {
			// both search paths hold the name (written in either order), it is cached, then one
			// copy goes away or changes; random operations follow
			nm := rapid.IntRange(0, len(c15FSNames)-1).Draw(rt, "tcname")
			firstWritten := rapid.IntRange(0, 1).Draw(rt, "tcorder")
			c.Ops = append(c.Ops, C15FSOp{Op: "write", Name: nm, Root: firstWritten}, C15FSOp{Op: "write", Name: nm, Root: 1 - firstWritten},
				C15FSOp{Op: "autoreload", On: rapid.IntRange(0, 3).Draw(rt, "tcar") != 0}, C15FSOp{Op: "load", Name: nm},
				C15FSOp{Op: rapid.SampledFrom([]string{"remove", "remove", "touch", "write"}).Draw(rt, "tcchange"), Name: nm, Root: rapid.IntRange(0, 1).Draw(rt, "tcroot")},
				C15FSOp{Op: "load", Name: nm}, C15FSOp{Op: "render", Name: nm})
		}
		if rapid.IntRange(0, 3).Draw(rt, "sametime") == 0 {
			// two copies with equal modification times; the one that was served goes away
			nm := rapid.IntRange(0, len(c15FSNames)-1).Draw(rt, "stname")
			firstRoot := rapid.IntRange(0, 1).Draw(rt, "stroot")
			c.Ops = append(c.Ops, C15FSOp{Op: "write", Name: nm, Root: firstRoot}, C15FSOp{Op: "writeSame", Name: nm, Root: 1 - firstRoot},
				C15FSOp{Op: "autoreload", On: rapid.IntRange(0, 3).Draw(rt, "star") != 0}, C15FSOp{Op: "load", Name: nm}, C15FSOp{Op: "render", Name: nm},
				C15FSOp{Op: "remove", Name: nm, Root: rapid.IntRange(0, 1).Draw(rt, "strm")}, C15FSOp{Op: "load", Name: nm}, C15FSOp{Op: "render", Name: nm})
		}
		if rapid.IntRange(0, 3).Draw(rt, "recreate") == 0 {
			// a cached file disappears, is asked for while it is gone, and comes back
			nm := rapid.IntRange(0, len(c15FSNames)-1).Draw(rt, "rcname")
			rt0 := rapid.IntRange(0, 1).Draw(rt, "rcroot")
			c.Ops = append(c.Ops, C15FSOp{Op: "autoreload", On: rapid.IntRange(0, 3).Draw(rt, "rcar") != 0}, C15FSOp{Op: "write", Name: nm, Root: rt0}, C15FSOp{Op: "load", Name: nm},
				C15FSOp{Op: "remove", Name: nm, Root: rt0}, C15FSOp{Op: rapid.SampledFrom([]string{"load", "render"}).Draw(rt, "rcread"), Name: nm},
				C15FSOp{Op: "write", Name: nm, Root: rapid.IntRange(0, 1).Draw(rt, "rcroot2")}, C15FSOp{Op: "load", Name: nm}, C15FSOp{Op: "render", Name: nm})
		}
		if rapid.IntRange(0, 3).Draw(rt, "samemtime") == 0 {
			// a file is read, then rewritten (same length) under its old modification time; with
			// the cache off (or for a name not cached yet) the next read goes to the file
			nm := rapid.IntRange(0, len(c15FSNames)-1).Draw(rt, "smname")
			c.Ops = append(c.Ops, C15FSOp{Op: "write", Name: nm}, C15FSOp{Op: "cache", On: rapid.Bool().Draw(rt, "smcache1")}, C15FSOp{Op: "load", Name: nm},
				C15FSOp{Op: "cache", On: false}, C15FSOp{Op: "rewrite", Name: nm}, C15FSOp{Op: "load", Name: nm}, C15FSOp{Op: "render", Name: nm},
				C15FSOp{Op: "rewrite", Name: nm}, C15FSOp{Op: "render", Name: nm}, C15FSOp{Op: "cache", On: true})
		}
		for i := 0; i < n; i++ {
			op := C15FSOp{Name: rapid.IntRange(0, len(c15FSNames)-1).Draw(rt, "name"), On: rapid.IntRange(0, 3).Draw(rt, "on") != 0, Root: rapid.IntRange(0, 1).Draw(rt, "root")}
			if rapid.IntRange(0, 2).Draw(rt, "fewnames") == 0 {
				op.Name = op.Name % 2 // concentrate on two names so that both search paths hold the same name
			}
			switch k := rapid.IntRange(0, 14).Draw(rt, "kind"); {
			case k == 14:
				op.Op = "loadall"
			case k == 13:
				op.Op = "rewrite"
			case k == 12:
				op.Op = "touch"
			case k <= 3:
				op.Op = "write"
			case k == 4:
				op.Op = "remove"
			case k <= 7:
				op.Op = "load"
			case k <= 9:
				op.Op = "render"
			case k == 10:
				op.Op = "cache"
			default:
				op.Op = "autoreload"
			}
			c.Ops = append(c.Ops, op)
		}
		c.Compiled = rapid.IntRange(0, 3).Draw(rt, "compiledloader") == 0
		nt, err := runC15FS(c)
		r.Case(fmt.Sprint(c.Ops), nt, c.Ops[:min(8, len(c.Ops))])
		if err != nil {
			r.Fail(rt, "C15.fs", c, err)
		}
	})
}

func init() { reg("C15.fs", checkC15FS) }

// ---- many names; names that are not there ---------------------------------------------------------------

type C15ManyCase struct {
	Names int `json:"names"`
}

// checkC15Many: N registered names and N loader-served names on one engine (cache on, auto-reload
// off). Every registered name keeps rendering what was registered; every cached loader name keeps
// its first version although the loader's content changes afterwards.
func checkC15Many(c C15ManyCase) error {
	e := twig.New()
	l := newC15Loader()
	e.RegisterLoader(l)
	for i := 0; i < c.Names; i++ {
		if err := e.RegisterString(fmt.Sprintf("reg%d", i), fmt.Sprintf("R%d", i)); err != nil {
			return fmt.Errorf("RegisterString failed: %v", err)
		}
		l.items[fmt.Sprintf("ld%d", i)] = c15Entry{version: i, ts: 1}
	}
	for i := 0; i < c.Names; i++ {
		if r := render(e, fmt.Sprintf("ld%d", i), nil); r.Failed() || r.Out != fmt.Sprintf("v%d", i) {
			return fmt.Errorf("first read of loader name %d of %d: %v", i, c.Names, r)
		}
	}
	for i := 0; i < c.Names; i++ {
		l.items[fmt.Sprintf("ld%d", i)] = c15Entry{version: 1000000 + i, ts: 2}
	}
	for i := 0; i < c.Names; i++ {
		if r := render(e, fmt.Sprintf("reg%d", i), nil); r.Failed() || r.Out != fmt.Sprintf("R%d", i) {
			return fmt.Errorf("with %d registered and %d cached names on the engine, registered name reg%d renders %v, want %q", c.Names, c.Names, i, r, fmt.Sprintf("R%d", i))
		}
		if r := render(e, fmt.Sprintf("ld%d", i), nil); r.Failed() || r.Out != fmt.Sprintf("v%d", i) {
			return fmt.Errorf("with %d registered and %d cached names on the engine (auto-reload off), cached name ld%d renders %v after its loader changed, want the cached %q", c.Names, c.Names, i, r, fmt.Sprintf("v%d", i))
		}
	}
	return nil
}

type C15AbsentCase struct {
	Name BStr `json:"name"`
}

// checkC15Absent: a file-system loader over a directory that holds a.twig and sub/b.twig; names that
// no file answers to (blanks around a name, paths that leave the directory) are not found, and the
// failed lookup leaves the cache as it was.
func checkC15Absent(c C15AbsentCase) error {
	base, err := os.MkdirTemp(workDir(), "c15abs-")
	if err != nil {
		return fmt.Errorf("harness: %v", err)
	}
	defer os.RemoveAll(base)
	root := filepath.Join(base, "outer", "root")
	os.MkdirAll(filepath.Join(root, "sub"), 0o755)
	os.WriteFile(filepath.Join(root, "a.twig"), []byte("A"), 0o644)
	os.WriteFile(filepath.Join(root, "sub", "b.twig"), []byte("B"), 0o644)
	e := twig.New()
	e.RegisterLoader(twig.NewFileSystemLoader([]string{root}))
	if r := render(e, "a", nil); r.Failed() || r.Out != "A" {
		return fmt.Errorf("harness: %v", r)
	}
	before := e.GetCachedTemplateCount()
	for round := 0; round < 2; round++ {
		r := render(e, string(c.Name), nil)
		if r.Panic != "" {
			return fmt.Errorf("panic: %s", r.Panic)
		}
		if r.Err == "" {
			return fmt.Errorf("the name %s has no file under the search path but renders %s", q(string(c.Name)), q(r.Out))
		}
		if !errors.Is(r.Error(), twig.ErrTemplateNotFound) {
			return fmt.Errorf("the name %s has no file under the search path: the error does not match ErrTemplateNotFound: %s", q(string(c.Name)), firstLine(r.Err))
		}
		if n := e.GetCachedTemplateCount(); n != before {
			return fmt.Errorf("the failed lookup of %s changed the number of cached templates from %d to %d", q(string(c.Name)), before, n)
		}
	}
	return nil
}

func TestC15Scale(t *testing.T) {
	r := NewRec(t, "C15", "exhaustive: engines holding 100 / 1000 / 1100 / 2500 registered plus as many cached loader names (every one re-read after the loaders changed); 16 names a file-system loader has no file for (blanks around a name, paths leaving the search path, doubled suffix, empty segments), each looked up twice; non-trivial = more than 1000 names or an absent name")
	defer r.Flush()
	r.SetExhaustive()
	for _, n := range []int{100, 1000, 1100, 2500} {
		c := C15ManyCase{Names: n}
		r.Case(fmt.Sprint("many", n), n > 1000, c)
		if err := checkC15Many(c); err != nil {
			r.FailEnum(t, "C15.many", c, err)
		}
	}
	for _, name := range []string{"../a", "../../a", "../root2/a", "sub/../../a", "sub/../../../a", " a", "a ", "a\t", "\na", " sub/b", "sub/b ", "sub/ b", "a.twig.twig", "sub//../../a", "../outer/a", "nope"} {
		c := C15AbsentCase{Name: BStr(name)}
		r.Case("absent"+name, true, q(name))
		if err := checkC15Absent(c); err != nil {
			r.FailEnum(t, "C15.absent", c, err)
		}
	}
}

func init() {
	reg("C15.many", checkC15Many)
	reg("C15.absent", checkC15Absent)
}

// ---- compiled data registered over a name that is registered already ------------------------------------------

type C15CompiledCase struct {
	Route int `json:"route"` // 0 LoadFromCompiledData, 1 RegisterCompiledTemplate
	Where int `json:"where"` // 0 the same engine, 1 a second engine that has the name already
}

// checkC15Compiled: registering compiled data is a registration: Load and Render use its source
// from then on, whatever was registered under the name before and however recently.
func checkC15Compiled(c C15CompiledCase) error {
	a := twig.New()
	if err := a.RegisterString("n", "first {{ 1 + 1 }}"); err != nil {
		return fmt.Errorf("harness: %v", err)
	}
	comp, err := a.CompileTemplate("n")
	if err != nil {
		return fmt.Errorf("harness: CompileTemplate: %v", err)
	}
	data, err := twig.SerializeCompiledTemplate(comp)
	if err != nil {
		return fmt.Errorf("harness: %v", err)
	}
	target := a
	if c.Where%2 == 1 {
		target = twig.New()
	}
	if err := target.RegisterString("n", "second {{ 2 + 2 }}"); err != nil {
		return fmt.Errorf("harness: %v", err)
	}
	if r := render(target, "n", nil); r.Failed() || r.Out != "second 4" {
		return fmt.Errorf("after RegisterString: %v", r)
	}
	if c.Route%2 == 0 {
		err = target.LoadFromCompiledData(data)
	} else {
		err = target.RegisterCompiledTemplate(comp)
	}
	if err != nil {
		return fmt.Errorf("registering the compiled template failed: %v", err)
	}
	for i := 0; i < 2; i++ {
		if r := render(target, "n", nil); r.Failed() || r.Out != "first 2" {
			return fmt.Errorf("the name was registered from source (\"second ..\"), then from compiled data of \"first {{ 1 + 1 }}\" (%s, %s): Render gives %v, want \"first 2\"", []string{"LoadFromCompiledData", "RegisterCompiledTemplate"}[c.Route%2], []string{"same engine", "another engine"}[c.Where%2], r)
		}
	}
	// and a source registration after it wins again
	if err := target.RegisterString("n", "third"); err != nil {
		return fmt.Errorf("harness: %v", err)
	}
	if r := render(target, "n", nil); r.Failed() || r.Out != "third" {
		return fmt.Errorf("after a further RegisterString: %v, want \"third\"", r)
	}
	return nil
}

func TestC15Compiled(t *testing.T) {
	r := NewRec(t, "C15", "exhaustive: {LoadFromCompiledData, RegisterCompiledTemplate} x {same engine, another engine}: a name registered from source, then from compiled data made earlier, then from source again; oracle: Render uses the most recent registration each time; all cases non-trivial")
	defer r.Flush()
	r.SetExhaustive()
	for route := 0; route < 2; route++ {
		for where := 0; where < 2; where++ {
			c := C15CompiledCase{Route: route, Where: where}
			r.Case(fmt.Sprint(route, where), true, c)
			if err := checkC15Compiled(c); err != nil {
				r.FailEnum(t, "C15.compiled", c, err)
			}
		}
	}
}

func init() { reg("C15.compiled", checkC15Compiled) }
