package vh

// C17 — failures during rendering always surface as errors that wrap their cause.
//
// Fault enumeration: a template set is rendered once with every spy succeeding, counting
// the spy invocations N; then once per k <= N with exactly the k-th invocation returning the
// sentinel error. Each of those renders must return ("", err) with errors.Is(err, sentinel),
// through Render, RenderTo and debug mode. A second arm injects one unresolvable
// filter/function/test/template name at an evaluated position.

import (
	"errors"
	"fmt"
	"io"
	"io/fs"
	"os"
	"path/filepath"
	"strings"
	"testing"

	"github.com/semihalev/twig"
	"pgregory.net/rapid"
)

// exprSites visits every expression position of a body; f may return a replacement.
func mapBodyExprs(body []*S, f func(e *E, where string) *E) []*S {
	out := cloneBodyNoMerge(body)
	var rec func(b []*S)
	rec = func(b []*S) {
		for _, s := range b {
			switch s.K {
			case "print":
				if s.E.K == "mcall" {
					cp := *s.E
					cp.A = make([]*E, len(s.E.A))
					for i, a := range s.E.A {
						cp.A[i] = f(a, "macro-arg")
					}
					s.E = &cp
				} else {
					s.E = f(s.E, "print")
				}
			case "if":
				for i, c := range s.Conds {
					s.Conds[i] = f(c, "cond")
				}
			case "for":
				s.E = f(s.E, "for-seq")
			case "set":
				s.E = f(s.E, "set")
			case "do":
				s.E = f(s.E, "do")
			case "include":
				s.E = f(s.E, "include-name")
				if s.With != nil {
					cp := *s.With
					cp.A = make([]*E, len(s.With.A))
					for i, a := range s.With.A {
						cp.A[i] = f(a, "with-value")
					}
					s.With = &cp
				}
			case "macro":
				for i, p := range s.Params {
					if p.Def != nil {
						s.Params[i].Def = f(p.Def, "macro-default")
					}
				}
			case "import", "from":
				s.E = f(s.E, "import-name")
			case "apply":
				for i, a := range s.Args {
					s.Args[i] = f(a, "apply-arg")
				}
			}
			rec(s.Body)
			rec(s.Else)
			for _, bb := range s.Bodies {
				rec(bb)
			}
		}
	}
	rec(out)
	return out
}

func mapSetExprs(set TSet, f func(e *E, where string) *E) TSet {
	var out TSet
	for _, t := range set {
		cp := &Tmpl{Name: t.Name, XD: t.XD, Body: mapBodyExprs(t.Body, f)}
		if t.Extends != nil {
			cp.Extends = f(t.Extends, "extends-name")
		}
		out = append(out, cp)
	}
	return out
}

// genStructured draws a template set from one of the structural generators.
func genStructured(t *rapid.T) (SetCase, string) {
	switch rapid.IntRange(0, 4).Draw(t, "structure") {
	case 0:
		g := newSgen(t, flowCtx(t))
		g.x.spies = false
		return SetCase{Ctx: g.x.ctx, Set: TSet{{Name: "main", Body: g.program(rapid.IntRange(1, 3).Draw(t, "depth"))}}, Main: "main"}, "flow"
	case 1:
		c, _ := genInheritance(t)
		return c, "inheritance"
	case 2:
		c, _ := genC11(t)
		return c, "include"
	case 3:
		c, _ := genC12(t)
		form := rapid.SampledFrom(c12Forms).Draw(t, "form")
		return SetCase{Ctx: c.Ctx, Set: c12Set(c, form), Main: "main"}, "macros-" + form
	default:
		// apply / spaceless around a flow body
		g := newSgen(t, flowCtx(t))
		g.x.spies = false
		inner := g.program(rapid.IntRange(1, 2).Draw(t, "depth"))
		var wrap *S
		if rapid.Bool().Draw(t, "applyorspaceless") {
			wrap = &S{K: "apply", Filter: "upper", Body: inner}
		} else {
			wrap = &S{K: "spaceless", Body: inner}
		}
		return SetCase{Ctx: g.x.ctx, Set: TSet{{Name: "main", Body: []*S{Text("a"), wrap, Text("b")}}}, Main: "main"}, "apply/spaceless"
	}
}

// injectSpies wraps random expression positions in spies.
func injectSpies(t *rapid.T, set TSet) (TSet, map[string]int) {
	sites := map[string]int{}
	out := mapSetExprs(set, func(e *E, where string) *E {
		if rapid.IntRange(0, 2).Draw(t, "inject") != 0 {
			return e
		}
		sites[where]++
		switch absorb := rapid.IntRange(0, 11).Draw(t, "absorbing"); {
		// the callback sits where a lenient construct evaluates it: the operand of `is defined`,
		// the subject of default(). Its failure is still a failure of the render. (Both arms of
		// the conditional are e, so the value of the site is unchanged.)
		case absorb == 0:
			sites["operand-of-is-defined"]++
			return Cond(Test(Call("spy", e), "defined", false), e, e)
		case absorb == 1:
			sites["operand-of-is-defined"]++
			return Cond(Test(Filt(e, "spyf"), "defined", false), e, e)
		case absorb == 2:
			sites["subject-of-default"]++
			return Filt(Call("spy", e), "default", e)
		case absorb == 3:
			// a subscript piped through default(): the container expression fails
			sites["subscript-under-default"]++
			return Filt(Idx(List(Call("spy", e)), Int(0)), "default", e)
		case absorb == 4:
			// ... or the index expression does
			sites["subscript-under-default"]++
			return Filt(Idx(List(e, e), Call("spy", Int(1))), "default", e)
		case where == "cond" && rapid.IntRange(0, 2).Draw(t, "astest") == 0:
			return Test(e, "spyt", false)
		case rapid.Bool().Draw(t, "asfilter"):
			return Filt(e, "spyf")
		default:
			return Call("spy", e)
		}
	})
	return out, sites
}

type C17Case struct {
	Ctx  Ctx    `json:"ctx"`
	Set  TSet   `json:"set"`
	Main string `json:"main"`
}

// c17Typed is a cause with a type of its own (errors.As) around the sentinel (errors.Is)
type c17Typed struct{ msg string }

func (e *c17Typed) Error() string { return e.msg }
func (e *c17Typed) Unwrap() error { return errSentinel }

// causes whose text is awkward for whoever formats errors: several lines, tabs and control
// characters, invalid UTF-8, more than 512 characters. All of them wrap errSentinel.
var c17Causes = []error{nil, fmt.Errorf("backend said:\n  line 2\tcolumn 3\r\n%w\nlast line", errSentinel), &c17Typed{"typed cause \x00\x1b[31m\xff\ufffd end"},
	fmt.Errorf("%s: %w", strings.Repeat("a long explanation ", 40), errSentinel), &c17Typed{strings.Repeat("x", 2000) + "\n" + strings.Repeat("y", 2000)}}

func c17Engine(srcs map[string]string, failAt int) (*twig.Engine, *Spies) {
	e := newEngine(srcs)
	e.EnableSandbox(allowAll{})
	sp := NewSpies()
	sp.FailAt = failAt
	sp.FailErr = c17Causes[failAt%len(c17Causes)]
	sp.Install(e)
	return e, sp
}

func checkC17(c C17Case) error {
	_, err := checkC17N(c)
	return err
}

// checkC17N returns the number of fault positions enumerated.
func checkC17N(c C17Case) (int, error) {
	srcs := c.Set.Sources(SPrint{})
	e0, sp0 := c17Engine(srcs, 0)
	base := render(e0, c.Main, c.Ctx.Go())
	if base.Panic != "" {
		return 0, fmt.Errorf("baseline panicked: %s; templates:%s", base.Panic, showSources(srcs))
	}
	if base.Err != "" {
		return 0, nil // the fault-free render itself fails: nothing to enumerate
	}
	want := runModel(c.Set, c.Main, c.Ctx, 0)
	if !want.domain && !want.failed && want.out != base.Out {
		return 0, fmt.Errorf("fault-free render: engine %s, model %s; templates:%s", q(base.Out), q(want.out), showSources(srcs))
	}
	n := sp0.Count()
	limit := n
	if limit > 64 {
		limit = 64
	}
	for k := 1; k <= limit; k++ {
		kk := k
		if n > 64 {
			kk = 1 + (k-1)*n/64 // an evenly spaced sample of the invocations
		}
		for mode := 0; mode < 3; mode++ {
			e, sp := c17Engine(srcs, kk)
			var r Res
			what := ""
			switch mode {
			case 0:
				what = "Render"
				r = render(e, c.Main, c.Ctx.Go())
			case 1:
				what = "RenderTo"
				r = renderTo(e, c.Main, c.Ctx.Go())
			case 2:
				what = "Render (debug mode)"
				twig.SetDebugWriter(io.Discard)
				e.SetDebug(true)
				r = render(e, c.Main, c.Ctx.Go())
				e.SetDebug(false)
			}
			if r.Panic != "" {
				return k, fmt.Errorf("%s panicked when spy invocation %d of %d failed: %s; templates:%s", what, kk, n, r.Panic, showSources(srcs))
			}
			if sp.Count() < kk {
				return k, fmt.Errorf("%s: run with a fault planned at invocation %d made only %d invocations (non-deterministic evaluation); templates:%s", what, kk, sp.Count(), showSources(srcs))
			}
			if r.Err == "" {
				return k, fmt.Errorf("%s returned no error although spy invocation %d of %d (%s) failed; output %s; templates:%s", what, kk, n, sp.Log[kk-1], q(r.Out), showSources(srcs))
			}
			if !errors.Is(r.Error(), errSentinel) {
				return k, fmt.Errorf("%s: the returned error does not wrap the cause (errors.Is fails) when invocation %d (%s) failed with %s: %s; templates:%s", what, kk, sp.Log[kk-1], q(trunc(fmt.Sprint(sp.FailErr))), firstLine(r.Err), showSources(srcs))
			}
			var typed *c17Typed
			if _, isTyped := sp.FailErr.(*c17Typed); isTyped && !errors.As(r.Error(), &typed) {
				return k, fmt.Errorf("%s: the cause's own type cannot be found with errors.As when invocation %d (%s) failed with a *c17Typed: %s; templates:%s", what, kk, sp.Log[kk-1], firstLine(r.Err), showSources(srcs))
			}
			if mode != 1 && r.Out != "" {
				return k, fmt.Errorf("%s returned partial output %s together with the error; templates:%s", what, q(r.Out), showSources(srcs))
			}
		}
	}
	return limit, nil
}

const c17Rule = "template sets from five structural generators (control flow, inheritance chains with parent(), include chains with all options, macro libraries through all five call forms, apply/spaceless bodies) with spies (function, filter, test; also as the operand of `is defined`, as the subject of default() and inside a subscript piped through default()) injected at random expression positions: print, if/elseif conditions, for sequences, set values, include names and with-values, macro arguments and defaults, extends/import names, apply arguments; for every spy invocation k of the fault-free render (all when N <= 64, else 64 evenly spaced) the render is repeated with invocation k failing, through Render, RenderTo and debug mode, the cause being the bare sentinel or an error around it whose text has several lines, control characters, invalid UTF-8 or thousands of characters (found again with errors.Is and, for the typed ones, errors.As); non-trivial = the failing invocation lies below at least one structural node (loop, condition, block, include, macro, parent template); distinct by (source set, context)"

func TestC17Faults(t *testing.T) {
	r := NewRec(t, "C17", c17Rule)
	defer r.Flush()
	rapid.Check(t, func(rt *rapid.T) {
		sc, kind := genStructured(rt)
		set, sites := injectSpies(rt, sc.Set)
		c := C17Case{Ctx: sc.Ctx, Set: set, Main: sc.Main}
		var cl []string
		for k, v := range sites {
			if v > 0 {
				cl = append(cl, "site:"+k)
			}
		}
		sortStrings(cl)
		cl = append(cl, "structure:"+kind)
		srcs := set.Sources(SPrint{})
		n, err := checkC17N(c)
		r.ClassN("fault-positions-enumerated", n)
		structural := kind != "flow" || strings.Contains(srcs["main"], "{% for") || strings.Contains(srcs["main"], "{% if")
		r.Case(showSources(srcs)+showModel(c.Ctx.Model()), n > 0 && structural, srcs, cl...)
		if err != nil {
			r.Fail(rt, "C17.fault", c, err)
		}
	})
}

// ---- unresolvable names -----------------------------------------------------------------------

type C17NameCase struct {
	Ctx  Ctx    `json:"ctx"`
	Set  TSet   `json:"set"` // contains exactly one unresolvable name guarded by spy2 / spyf2
	Main string `json:"main"`
	Kind string `json:"kind"`
}

func checkC17Name(c C17NameCase) error {
	srcs := c.Set.Sources(SPrint{})
	e, sp := c17Engine(srcs, 0)
	// the guard spies
	hit := 0
	e.AddFunction("spy2", func(args ...interface{}) (interface{}, error) {
		hit++
		if len(args) > 0 {
			return args[0], nil
		}
		return nil, nil
	})
	e.AddFilter("spyf2", func(v interface{}, args ...interface{}) (interface{}, error) { hit++; return v, nil })
	_ = sp
	r := render(e, c.Main, c.Ctx.Go())
	if r.Panic != "" {
		return fmt.Errorf("panic: %s; templates:%s", r.Panic, showSources(srcs))
	}
	if hit == 0 {
		return nil // the position was not evaluated in this render: nothing is claimed
	}
	if r.Err == "" {
		return fmt.Errorf("an unresolvable %s name was evaluated but Render returned no error; output %s; templates:%s", c.Kind, q(r.Out), showSources(srcs))
	}
	if r.Out != "" {
		return fmt.Errorf("Render returned output %s together with the error; templates:%s", q(r.Out), showSources(srcs))
	}
	if c.Kind == "template" && !errors.Is(r.Error(), twig.ErrTemplateNotFound) {
		return fmt.Errorf("missing template: error does not match ErrTemplateNotFound: %s; templates:%s", firstLine(r.Err), showSources(srcs))
	}
	return nil
}

func clearIgnoreMissing(b []*S) {
	for _, s := range b {
		if s.K == "include" && s.E != nil && s.E.K == "call" && s.E.S == "spy2" {
			s.IgnMiss = false
		}
		clearIgnoreMissing(s.Body)
		clearIgnoreMissing(s.Else)
		for _, bb := range s.Bodies {
			clearIgnoreMissing(bb)
		}
	}
}

func TestC17Names(t *testing.T) {
	r := NewRec(t, "C17", "the same structures with exactly one unresolvable filter / function / test / template name (template names also relative: ./x, ../x) injected at a random expression position behind a guard spy that tells whether the position was evaluated; non-trivial = the position was evaluated (the guard was hit); distinct by source set")
	defer r.Flush()
	rapid.Check(t, func(rt *rapid.T) {
		sc, kind := genStructured(rt)
		// count positions, then pick one
		total := 0
		mapSetExprs(sc.Set, func(e *E, where string) *E { total++; return e })
		if total == 0 {
			r.Excl("no expression position")
			return
		}
		target := rapid.IntRange(0, total-1).Draw(rt, "target")
		nameKind := rapid.SampledFrom([]string{"filter", "function", "test", "template"}).Draw(rt, "namekind")
		i := 0
		placed := ""
		set := mapSetExprs(sc.Set, func(e *E, where string) *E {
			defer func() { i++ }()
			if i != target {
				return e
			}
			placed = where
			switch nameKind {
			case "filter":
				return Filt(Filt(e, "spyf2"), "no_such_filter")
			case "function":
				return Call("no_such_function", Call("spy2", e))
			case "test":
				return Cond(Test(Call("spy2", e), "no_such_test", false), e, e)
			default:
				if where == "include-name" || where == "extends-name" || where == "import-name" {
					return Call("spy2", Str(rapid.SampledFrom([]string{"no/such/template", "./nosuch", "../nosuch", "./no/such.twig", "../shared/nosuch"}).Draw(rt, "missingname")))
				}
				nameKind = "filter"
				return Filt(Filt(e, "spyf2"), "no_such_filter")
			}
		})
		// `ignore missing` is a documented tolerance: the injected missing name must not sit under it
		for _, tm := range set {
			clearIgnoreMissing(tm.Body)
		}
		c := C17NameCase{Ctx: sc.Ctx, Set: set, Main: sc.Main, Kind: nameKind}
		srcs := set.Sources(SPrint{})
		// was it evaluated? (re-run cheaply inside the check; here only for accounting)
		err := checkC17Name(c)
		r.Case(showSources(srcs), true, srcs, "structure:"+kind, "name:"+nameKind, "site:"+placed)
		if err != nil {
			r.Fail(rt, "C17.name", c, err)
		}
	})
}

func init() {
	reg("C17.fault", checkC17)
	reg("C17.name", checkC17Name)
}

// ---- callbacks registered under built-in names ---------------------------------------------

type C17OverrideCase struct {
	Filter string `json:"filter"`         // name re-registered with a failing callback
	Kind   string `json:"kind,omitempty"` // "" = filter, "function", "test"
	Src    string `json:"src"`
}

func checkC17Override(c C17OverrideCase) error {
	_, err := checkC17OverrideN(c)
	return err
}

func checkC17OverrideN(c C17OverrideCase) (calls int, err error) {
	e := newEngine(map[string]string{"main": c.Src, "leaf": "({{ v }})"})
	switch c.Kind {
	case "function":
		e.AddFunction(c.Filter, func(args ...interface{}) (interface{}, error) {
			calls++
			return nil, errSentinel
		})
	case "test":
		e.AddTest(c.Filter, func(v interface{}, args ...interface{}) (bool, error) {
			calls++
			return false, errSentinel
		})
	default:
		e.AddFilter(c.Filter, func(v interface{}, args ...interface{}) (interface{}, error) {
			calls++
			return nil, errSentinel
		})
	}
	kind := c.Kind
	if kind == "" {
		kind = "filter"
	}
	r := render(e, "main", map[string]interface{}{"xs": []interface{}{3, 1, 2}, "s": " a  b ", "n": 4})
	if r.Panic != "" {
		return calls, fmt.Errorf("panic: %s", r.Panic)
	}
	if calls == 0 {
		return 0, nil
	}
	if r.Err == "" {
		return calls, fmt.Errorf("%s %q failed (called %d times) but Render returned %s with a nil error; source %s", kind, c.Filter, calls, q(r.Out), q(c.Src))
	}
	if !errors.Is(r.Error(), errSentinel) {
		return calls, fmt.Errorf("%s %q failed but the error does not wrap the cause: %s; source %s", kind, c.Filter, firstLine(r.Err), q(c.Src))
	}
	if r.Out != "" {
		return calls, fmt.Errorf("partial output %s with the error; source %s", q(r.Out), q(c.Src))
	}
	return calls, nil
}

var c17BuiltinFilters = []string{"default", "escape", "e", "upper", "lower", "trim", "raw", "length", "count", "join", "split", "date", "url_encode", "capitalize", "title", "first", "last", "slice", "reverse", "sort", "keys", "merge", "replace",
	"striptags", "number_format", "abs", "round", "nl2br", "format", "json_encode", "spaceless"}
var c17BuiltinFunctions = []string{"range", "date", "random", "max", "min", "dump", "constant", "cycle", "include", "json_encode", "length", "merge", "parent"}
var c17BuiltinTests = []string{"defined", "empty", "null", "none", "even", "odd", "iterable", "same_as", "divisible_by", "constant", "equalto", "sameas", "starts_with", "ends_with", "matches"}

// positions for a name N: F stands for the filter application, G(..) for the function call, T for the test
var c17FilterSites = []string{"{{ xs|N }}", "{{ xs|N|length }}", "{{ xs|reverse|N }}", "{% set v = xs|N %}[{{ v }}]", "{% if xs|N %}y{% else %}n{% endif %}", "{% for i in xs|N %}{{ i }}{% else %}none{% endfor %}",
	"{% for i in xs|N|reverse %}{{ i }}{% else %}none{% endfor %}", "{% for i in xs|reverse|N %}{{ i }}{% else %}none{% endfor %}", "a{% apply N %}x{% endapply %}c", "{{ max(1, n|N) }}", "{{ nope|default(xs|N) }}",
	"{% include 'leaf' with {'v': xs|N} %}", "{% macro m(x) %}{{ x|N }}{% endmacro %}{{ m(s) }}", "{{ (xs|N) ? 'a' : 'b' }}", "{{ [xs|N]|length }}", "a{% do xs|N %}b", "a{% do 1 + (n|N) %}b",
	// an apply block whose body renders nothing
	"a{% apply N %}{% endapply %}c", "a{% apply N %} {% endapply %}c", "a{% apply N %}{% if false %}x{% endif %}{% endapply %}c", "a{% apply N %}{{ nope }}{% for i in [] %}x{% endfor %}{% endapply %}c", "a{% apply upper|N %}{% endapply %}c",
	// constructs whose body renders nothing: the condition or sequence is evaluated all the same
	"a{% if xs|N %}{% endif %}b", "a{% if false %}x{% elseif xs|N %}{% endif %}b", "a{% if xs|N %}{# note #}{% endif %}b", "a{% for i in xs|N %}{% endfor %}b", "a{% if xs|N %}{% else %}{% endif %}b"}
var c17FunctionSites = []string{"{{ N(xs) }}", "{{ N(1, 3) }}", "{{ N(xs)|length }}", "{% set v = N(xs) %}[{{ v }}]", "{% if N(xs) %}y{% else %}n{% endif %}", "{% for i in N(xs) %}{{ i }}{% else %}none{% endfor %}",
	"{% for i in N(1, 3) %}{{ i }}{% else %}none{% endfor %}", "{% for i in N(xs)|reverse %}{{ i }}{% else %}none{% endfor %}", "{{ nope|default(N(xs)) }}", "{% include 'leaf' with {'v': N(xs)} %}",
	"{% macro m(x) %}{{ x }}{% endmacro %}{{ m(N(xs)) }}", "{{ N(xs) ? 'a' : 'b' }}", "{{ [N(xs)]|length }}", "{% for i in xs %}{{ N(i, 2) }}{% endfor %}", "{% apply upper %}{{ N(xs) }}{% endapply %}", "a{% do N(xs) %}b", "a{% if N(xs) %}{% endif %}b", "a{% if false %}x{% elseif N(xs) %}{# c #}{% endif %}b", "a{% for i in N(xs) %}{% endfor %}b"}
var c17TestSites = []string{"{{ n is N ? 'a' : 'b' }}", "{{ n is N(2) ? 'a' : 'b' }}", "{{ n is not N ? 'a' : 'b' }}", "{% if n is N %}y{% else %}n{% endif %}", "{% if n is N(2) %}y{% else %}n{% endif %}", "{% set v = n is N %}[{{ v }}]",
	"{% for i in xs %}{% if i is N %}y{% endif %}{% endfor %}", "{% for i in (n is N) ? xs : [] %}{{ i }}{% else %}none{% endfor %}", "a{% do n is N %}b", "a{% do n is not N(2) %}b", "a{% if n is N %}{% endif %}b", "a{% if false %}x{% elseif n is N %}{% endif %}b"}

func TestC17Overrides(t *testing.T) {
	r := NewRec(t, "C17", "exhaustive: every built-in filter (31), function (13) and test (15) name re-registered by the user with a failing callback and used in 27 / 19 / 12 positions (print, chain positions, set, if, for sequence bare and in chains, apply tag, do tag, arguments, include-with, macro, conditional, list element), plus the tags that apply a filter on their own; non-trivial = the failing callback was invoked")
	defer r.Flush()
	r.SetExhaustive()
	cases := []C17OverrideCase{
		{Filter: "spaceless", Src: "a{% spaceless %} <b> x </b> {% endspaceless %}c"},
		{Filter: "spaceless", Src: "{{ s|spaceless }}"},
		{Filter: "upper", Src: "{% for i in xs %}{% apply upper %}{{ i }}{% endapply %}{% endfor %}"},
		{Filter: "sort", Src: "{% for i in xs|reverse|sort %}{{ i }}{% else %}none{% endfor %}"},
		{Filter: "join", Src: "{{ xs|sort|join(',') }}"},
		{Filter: "trim", Src: "{% if s|trim %}y{% endif %}"},
		{Filter: "default", Src: "{{ nope|default('d') }}"},
		{Filter: "length", Src: "{{ xs|length > 2 ? 'a' : 'b' }}"},
		{Filter: "e", Src: "{% include 'main2' ignore missing %}{{ s|e }}"},
	}
	for _, n := range c17BuiltinFilters {
		for _, site := range c17FilterSites {
			cases = append(cases, C17OverrideCase{Filter: n, Src: strings.ReplaceAll(site, "N", n)})
		}
	}
	for _, n := range c17BuiltinFunctions {
		for _, site := range c17FunctionSites {
			cases = append(cases, C17OverrideCase{Filter: n, Kind: "function", Src: strings.ReplaceAll(site, "N", n)})
		}
	}
	for _, n := range c17BuiltinTests {
		for _, site := range c17TestSites {
			cases = append(cases, C17OverrideCase{Filter: n, Kind: "test", Src: strings.ReplaceAll(site, "N", n)})
		}
	}
	for _, c := range cases {
		calls, err := checkC17OverrideN(c)
		r.Case(c.Kind+c.Filter+c.Src, calls > 0, c, "kind:"+map[string]string{"": "filter", "function": "function", "test": "test"}[c.Kind])
		if err != nil {
			r.FailEnumKey(t, "C17.override", c.Kind+"/"+c.Filter, c, err)
		}
	}
}

// TestC17Unknown: the same sites with a name nothing is registered under.
func TestC17Unknown(t *testing.T) {
	r := NewRec(t, "C17", "exhaustive: an unregistered filter / function / test name in each of the 27 / 19 / 12 sites of TestC17Overrides; oracle: Render returns an error and no output; all cases non-trivial")
	defer r.Flush()
	r.SetExhaustive()
	for kind, sites := range map[string][]string{"filter": c17FilterSites, "function": c17FunctionSites, "test": c17TestSites} {
		for _, site := range sites {
			src := strings.ReplaceAll(site, "N", "no_such_"+kind)
			c := C17OverrideCase{Filter: "no_such_" + kind, Kind: "unknown-" + kind, Src: src}
			r.Case(src, true, c, "kind:"+kind)
			if err := checkC17Unknown(c); err != nil {
				r.FailEnumKey(t, "C17.unknown", kind, c, err)
			}
		}
	}
}

func checkC17Unknown(c C17OverrideCase) error {
	e := newEngine(map[string]string{"main": c.Src, "leaf": "({{ v }})"})
	r := render(e, "main", map[string]interface{}{"xs": []interface{}{3, 1, 2}, "s": " a  b ", "n": 4})
	if r.Panic != "" {
		return fmt.Errorf("panic: %s", r.Panic)
	}
	if r.Err == "" {
		return fmt.Errorf("the name %q cannot be resolved but Render returned %s with a nil error; source %s", c.Filter, q(r.Out), q(c.Src))
	}
	if r.Out != "" {
		return fmt.Errorf("partial output %s with the error; source %s", q(r.Out), q(c.Src))
	}
	return nil
}

func init() {
	reg("C17.override", checkC17Override)
	reg("C17.unknown", checkC17Unknown)
}

// ---- failing loaders ---------------------------------------------------------------------------

// spyLoader serves templates from a map and fails its k-th Load with the sentinel.
type spyLoader struct {
	tmpls  map[string]string
	loads  int
	failAt int
}

func (l *spyLoader) Load(name string) (string, error) {
	l.loads++
	if l.loads == l.failAt {
		return "", fmt.Errorf("backend unavailable: %w", errSentinel)
	}
	if s, ok := l.tmpls[name]; ok {
		return s, nil
	}
	return "", fmt.Errorf("%w: %s", twig.ErrTemplateNotFound, name)
}

func (l *spyLoader) Exists(name string) bool { _, ok := l.tmpls[name]; return ok }

// spyTSLoader additionally reports one timestamp for everything it has (bumped by the check)
type spyTSLoader struct {
	*spyLoader
	ts *int64
}

func (l spyTSLoader) GetModifiedTime(name string) (int64, error) {
	if _, ok := l.tmpls[name]; !ok {
		return 0, fmt.Errorf("%w: %s", twig.ErrTemplateNotFound, name)
	}
	return *l.ts, nil
}

type C17LoaderCase struct {
	Ctx  Ctx    `json:"ctx"`
	Set  TSet   `json:"set"`
	Main string `json:"main"`
	// Chain: the two loaders are handed to the engine as one ChainLoader instead of one by one
	Chain bool `json:"chain,omitempty"`
}

func checkC17Loader(c C17LoaderCase) error {
	srcs := c.Set.Sources(SPrint{})
	mk := func(failAt int) (*twig.Engine, *spyLoader) {
		e := twig.New()
		l := &spyLoader{tmpls: srcs, failAt: failAt}
		if c.Chain {
			e.RegisterLoader(twig.NewChainLoader([]twig.Loader{l, twig.NewArrayLoader(map[string]string{"unrelated": "u"})}))
			e.EnableSandbox(allowAll{})
			NewSpies().Install(e)
			return e, l
		}
		e.RegisterLoader(l)
		// a second loader that simply does not have the templates: its "not found" must
		// not mask the first loader's failure
		e.RegisterLoader(twig.NewArrayLoader(map[string]string{"unrelated": "u"}))
		e.EnableSandbox(allowAll{})
		NewSpies().Install(e)
		return e, l
	}
	e0, l0 := mk(0)
	base := render(e0, c.Main, c.Ctx.Go())
	if base.Failed() {
		return nil
	}
	for k := 1; k <= l0.loads; k++ {
		e, _ := mk(k)
		r := render(e, c.Main, c.Ctx.Go())
		if r.Panic != "" {
			return fmt.Errorf("panic when loader call %d failed: %s", k, r.Panic)
		}
		if r.Err == "" {
			return fmt.Errorf("loader call %d of %d failed but Render returned %s with a nil error; templates:%s", k, l0.loads, q(r.Out), showSources(srcs))
		}
		if !errors.Is(r.Error(), errSentinel) {
			return fmt.Errorf("loader call %d of %d failed but the returned error does not wrap the cause: %s; templates:%s", k, l0.loads, firstLine(r.Err), showSources(srcs))
		}
		if r.Out != "" {
			return fmt.Errorf("partial output %s with the error", q(r.Out))
		}
	}
	// a loader that keeps failing for one name: the second render on the same engine must
	// report the cause like the first (nothing may be remembered as "missing" meanwhile)
	for _, name := range sortedTemplateNames(srcs) {
		e := twig.New()
		e.RegisterLoader(c11MapLoader{srcs, map[string]bool{name: true}})
		e.RegisterLoader(twig.NewArrayLoader(map[string]string{"unrelated": "u"}))
		e.EnableSandbox(allowAll{})
		NewSpies().Install(e)
		for round := 1; round <= 3; round++ {
			r := render(e, c.Main, c.Ctx.Go())
			if r.Panic != "" {
				return fmt.Errorf("panic: %s", r.Panic)
			}
			if r.Err == "" {
				if round == 1 {
					break // this render does not need that template
				}
				return fmt.Errorf("the loader keeps failing for %q: render %d on the same engine returned %s with a nil error (render 1 reported the failure); templates:%s", name, round, q(r.Out), showSources(srcs))
			}
			if !errors.Is(r.Error(), errSentinel) {
				return fmt.Errorf("the loader keeps failing for %q: the error of render %d does not wrap the cause: %s; templates:%s", name, round, firstLine(r.Err), showSources(srcs))
			}
		}
	}
	// the same with a reload: everything is cached by a first render, the loader's timestamps
	// advance (auto-reload on), and the k-th loader call of the second render fails
	mkTS := func() (*twig.Engine, *spyLoader, *int64) {
		e := twig.New()
		ts := int64(1000)
		l := &spyLoader{tmpls: srcs}
		e.RegisterLoader(spyTSLoader{l, &ts})
		e.RegisterLoader(twig.NewArrayLoader(map[string]string{"unrelated": "u"}))
		e.EnableSandbox(allowAll{})
		e.SetAutoReload(true)
		NewSpies().Install(e)
		return e, l, &ts
	}
	e1, l1, ts1 := mkTS()
	if r := render(e1, c.Main, c.Ctx.Go()); r.Failed() || r.Out != base.Out {
		return nil
	}
	*ts1 += 100
	l1.loads = 0
	if r := render(e1, c.Main, c.Ctx.Go()); r.Failed() || r.Out != base.Out {
		return fmt.Errorf("render after the timestamps advanced gives %v, before %s", r, q(base.Out))
	}
	reloads := l1.loads
	for k := 1; k <= reloads; k++ {
		e, l, ts := mkTS()
		render(e, c.Main, c.Ctx.Go())
		*ts += 100
		l.loads = 0
		l.failAt = k
		r := render(e, c.Main, c.Ctx.Go())
		if r.Panic != "" {
			return fmt.Errorf("panic when reload call %d failed: %s", k, r.Panic)
		}
		if r.Err == "" {
			return fmt.Errorf("reload: loader call %d of %d failed (after the templates had been cached and their timestamps advanced) but Render returned %s with a nil error; templates:%s", k, reloads, q(r.Out), showSources(srcs))
		}
		if !errors.Is(r.Error(), errSentinel) {
			return fmt.Errorf("reload: loader call %d of %d failed but the returned error does not wrap the cause: %s; templates:%s", k, reloads, firstLine(r.Err), showSources(srcs))
		}
	}
	// the same set on a real FileSystemLoader; one template after the other is replaced by a
	// directory of its name (present, unreadable): the render must fail with the read error
	// reachable through errors.As and must not claim that the template does not exist
	root, err := os.MkdirTemp(workDir(), "c17-")
	if err != nil {
		return fmt.Errorf("harness: %v", err)
	}
	defer os.RemoveAll(root)
	fsSrcs := map[string]string{}
	for k, v := range srcs {
		fsSrcs[k+".twig"] = v
	}
	mkFS := func() *twig.Engine {
		e := twig.New()
		e.RegisterLoader(twig.NewFileSystemLoader([]string{root}))
		e.EnableSandbox(allowAll{})
		NewSpies().Install(e)
		return e
	}
	if err := writeTree(root, fsSrcs); err != nil {
		return fmt.Errorf("harness: %v", err)
	}
	if r := render(mkFS(), c.Main, c.Ctx.Go()); r.Failed() || r.Out != base.Out {
		return nil // the set does not render alike from disk (names the loader treats differently)
	}
	for _, name := range sortedTemplateNames(srcs) {
		p := filepath.Join(root, name+".twig")
		os.Remove(p)
		os.MkdirAll(p, 0o755)
		r := render(mkFS(), c.Main, c.Ctx.Go())
		os.Remove(p)
		os.WriteFile(p, []byte(srcs[name]), 0o644)
		if r.Panic != "" {
			return fmt.Errorf("panic when %s is unreadable: %s", name, r.Panic)
		}
		if r.Err == "" {
			if r.Out == base.Out {
				continue // the render does not need that template
			}
			return fmt.Errorf("%s.twig is present but unreadable (a directory): Render returned %s with a nil error, the intact set renders %s; templates:%s", name, q(r.Out), q(base.Out), showSources(srcs))
		}
		var pe *fs.PathError
		if errors.Is(r.Error(), twig.ErrTemplateNotFound) || !errors.As(r.Error(), &pe) {
			return fmt.Errorf("%s.twig is present but unreadable: the error %s does not wrap the read failure / claims the template does not exist; templates:%s", name, firstLine(r.Err), showSources(srcs))
		}
	}
	return nil
}

func TestC17Loaders(t *testing.T) {
	r := NewRec(t, "C17", "inheritance, include and import structures served by a spy loader; for every loader call k of the fault-free render the render is repeated on a fresh engine with call k failing with a wrapped sentinel (an I/O style failure, not 'not found'); a loader that keeps failing for one name over three renders of one engine; then again with everything cached, auto-reload on and advanced timestamps, failing every loader call of the reloading render; and on a real FileSystemLoader with each template in turn replaced by a directory of its name; non-trivial = the render loads at least two templates; distinct by source set")
	defer r.Flush()
	rapid.Check(t, func(rt *rapid.T) {
		var sc SetCase
		kind := ""
		switch rapid.IntRange(0, 2).Draw(rt, "structure") {
		case 0:
			sc, _ = genInheritance(rt)
			kind = "inheritance"
		case 1:
			sc, _ = genC11(rt)
			kind = "include"
		default:
			c, _ := genC12(rt)
			sc = SetCase{Ctx: c.Ctx, Set: c12Set(c, rapid.SampledFrom([]string{"import", "from", "alias"}).Draw(rt, "form")), Main: "main"}
			kind = "import"
		}
		c := C17LoaderCase{Ctx: sc.Ctx, Set: sc.Set, Main: sc.Main, Chain: rapid.IntRange(0, 2).Draw(rt, "chainloader") == 0}
		srcs := c.Set.Sources(SPrint{})
		r.Case(showSources(srcs), len(sc.Set) >= 2, srcs, "structure:"+kind)
		if err := checkC17Loader(c); err != nil {
			r.Fail(rt, "C17.loader", c, err)
		}
	})
}

func init() { reg("C17.loader", checkC17Loader) }

// ---- a failing macro body (or parent block) whose call is not the whole of a print tag -------------------

type C17MacroPosCase struct {
	Which int `json:"which"`
}

var c17MacroPosSrcs = []string{
	"{% macro m() %}{{ 'x'|no_such_filter }}{% endmacro %}a{% do m() %}z",
	"{% macro m() %}{{ 'x'|no_such_filter }}{% endmacro %}a{% set v = m() %}z",
	"{% macro m() %}{{ 'x'|no_such_filter }}{% endmacro %}a{% if m() %}y{% endif %}z",
	"{% macro m() %}{{ 'x'|no_such_filter }}{% endmacro %}a{{ m() ~ 'q' }}z",
	"{% macro m() %}{{ 'x'|no_such_filter }}{% endmacro %}a{{ m()|upper }}z",
	"{% macro m() %}{{ 'x'|no_such_filter }}{% endmacro %}a{{ [m()]|length }}z",
	"{% macro m() %}{{ 'x'|no_such_filter }}{% endmacro %}a{% for i in [1] %}{% set v = m() %}{% endfor %}z",
	"{% macro m() %}{{ 'x'|no_such_filter }}{% endmacro %}a{% include 'leaf' with {'v': m()} %}z",
	"{% import 'lib' as l %}a{% set v = l.bad() %}z",
	"{% import 'lib' as l %}a{{ l.bad()|trim }}z",
	"{% from 'lib' import bad as k %}a{% if k() %}y{% endif %}z",
	"{% from 'lib' import bad %}a{{ 'p' ~ bad() }}z",
	"{% extends 'base' %}{% block a %}{% set p = parent() %}!{% endblock %}",
	"{% extends 'base' %}{% block a %}{{ parent()|upper }}!{% endblock %}",
	"{% extends 'base' %}{% block a %}{% if parent() %}!{% endif %}{% endblock %}",
	"{% macro m() %}{{ nofn() }}{% endmacro %}a{% set v = m() %}z",
	"{% macro m() %}{% include 'does_not_exist' %}{% endmacro %}a{% set v = m() %}z",
	// a macro that the imported library does not have (a function or a local macro of that name exists)
	"{% import 'lib' as forms %}a{{ forms.max(1, 2) }}z",
	"{% import 'lib' as forms %}a{% for i in forms.range(1, 3) %}{{ i }}{% endfor %}z",
	"{% macro label() %}LOCAL{% endmacro %}{% import 'lib' as forms %}a{{ forms.label() }}z",
	"{% import 'lib' as forms %}a{% set v = forms.nothing_of_that_name() %}z",
}

// checkC17MacroPos: the failure inside the macro body (parent block) surfaces wherever the call is
// written: in a set, a condition, a do tag, under a filter, next to ~, as an argument.
func checkC17MacroPos(c C17MacroPosCase) error {
	src := c17MacroPosSrcs[c.Which%len(c17MacroPosSrcs)]
	tm := map[string]string{"main": src, "lib": "{% macro bad() %}{{ 'x'|no_such_filter }}{% endmacro %}", "base": "[{% block a %}{{ 'x'|no_such_filter }}{% endblock %}]", "leaf": "(leaf)"}
	r := render(newEngine(tm), "main", nil)
	if r.Panic != "" {
		return fmt.Errorf("render panicked: %v; source %s", r, q(src))
	}
	if !r.Failed() || r.Out != "" {
		return fmt.Errorf("the body of the macro (the parent block) uses a filter, function or template that does not exist, but Render returned %s with a nil error; source %s", q(r.Out), q(src))
	}
	return nil
}

func TestC17MacroPositions(t *testing.T) {
	r := NewRec(t, "C17", "exhaustive: 21 templates in which a macro (local, import-as, from-import, alias) or parent() whose body cannot be rendered (unknown filter, unknown function, missing include) is called in a do tag, a set, an if condition, a loop, an include-with value, under a filter, next to ~ or inside a list, or a macro is asked of an imported library that lacks it while a function or a local macro has the name; oracle: Render returns an error and no output; all cases non-trivial")
	defer r.Flush()
	r.SetExhaustive()
	for i := range c17MacroPosSrcs {
		c := C17MacroPosCase{Which: i}
		r.Case(fmt.Sprint(i), true, c17MacroPosSrcs[i])
		if err := checkC17MacroPos(c); err != nil {
			r.FailEnum(t, "C17.macropos", c, err)
		}
	}
}

func init() { reg("C17.macropos", checkC17MacroPos) }

// ---- loops over pointers to collections --------------------------------------------------------------------------

type C17PtrLoopCase struct {
	Var  string `json:"var"`
	Form int    `json:"form"`
}

func c17PtrLoopCtx() map[string]interface{} {
	xs, es, m, arr, ifs := []string{"a", "b"}, []string{}, map[string]int{"k": 1}, [2]int{1, 2}, []interface{}{1, "x"}
	pxs := &xs
	return map[string]interface{}{"pxs": pxs, "ppxs": &pxs, "pes": &es, "pm": &m, "parr": &arr, "pifs": &ifs, "pnamed": &zNamedStrSlice{"n"}}
}

// checkC17PtrLoop: whichever branch of the loop the engine takes for a pointer to a collection, a
// failure in it (both branches fail) surfaces.
func checkC17PtrLoop(c C17PtrLoopCase) error {
	forms := []string{
		"a{% for x in V %}{{ x|no_such_filter }}{% else %}{{ 'e'|no_such_filter }}{% endfor %}z",
		"a{% for k, x in V %}{{ nofn(x) }}{% else %}{{ nofn(1) }}{% endfor %}z",
		"a{% for x in V %}{% include 'does_not_exist' %}{% else %}{% include 'does_not_exist' %}{% endfor %}z",
		"a{% for x in V %}{% for y in V %}{{ y|no_such_filter }}{% else %}{{ 1|no_such_filter }}{% endfor %}{% else %}{{ 2|no_such_filter }}{% endfor %}z",
	}
	src := strings.ReplaceAll(forms[c.Form%len(forms)], "V", c.Var)
	r := render1(src, c17PtrLoopCtx())
	if r.Panic != "" {
		return fmt.Errorf("render panicked: %v; source %s", r, q(src))
	}
	if !r.Failed() || r.Out != "" {
		return fmt.Errorf("%s is a %T; the body and the else branch of the loop both use a filter, function or template that does not exist, but Render returned %s with a nil error; source %s", c.Var, c17PtrLoopCtx()[c.Var], q(r.Out), q(src))
	}
	return nil
}

func TestC17PointerLoops(t *testing.T) {
	r := NewRec(t, "C17", "exhaustive: loops over 7 pointers to collections (to a []string, to a pointer to it, to an empty slice, a map, an array, a []interface{}, a named slice) x 4 loop shapes whose body and else branch both fail (unknown filter, unknown function, missing include, nested loops); oracle: Render returns an error and no output; all cases non-trivial")
	defer r.Flush()
	r.SetExhaustive()
	for _, v := range []string{"pxs", "ppxs", "pes", "pm", "parr", "pifs", "pnamed"} {
		for form := 0; form < 4; form++ {
			c := C17PtrLoopCase{Var: v, Form: form}
			r.Case(fmt.Sprint(v, form), true, c)
			if err := checkC17PtrLoop(c); err != nil {
				r.FailEnum(t, "C17.ptrloop", c, err)
			}
		}
	}
}

func init() { reg("C17.ptrloop", checkC17PtrLoop) }

// ---- a failing call below `is defined` ------------------------------------------------------------------------

type C17DefinedCase struct {
	Which int `json:"which"`
}

var c17DefinedSrcs = []string{
	"{{ nofn().y is defined ? 'Y' : 'N' }}",
	"{% if x.nosuchfunction().y is defined %}a{% else %}b{% endif %}",
	"{% import 'lib' as l %}{{ l.bad().x is defined ? 'Y' : 'N' }}",
	"{{ ('a'|no_such_filter).y is defined ? 'Y' : 'N' }}",
	"{{ x[nofn()] is defined ? 'Y' : 'N' }}",
	"{% for i in [1] %}{{ nofn().y is not defined ? 'Y' : 'N' }}{% endfor %}",
	"{{ nofn().y.z is defined ? 'Y' : 'N' }}",
}

func checkC17Defined(c C17DefinedCase) error {
	src := c17DefinedSrcs[c.Which%len(c17DefinedSrcs)]
	tm := map[string]string{"main": src, "lib": "{% macro bad() %}{{ 'x'|no_such_filter }}{% endmacro %}"}
	r := render(newEngine(tm), "main", map[string]interface{}{"x": map[string]interface{}{"k": 1}})
	if r.Panic != "" {
		return fmt.Errorf("render panicked: %v; source %s", r, q(src))
	}
	if !r.Failed() || r.Out != "" {
		return fmt.Errorf("the expression under `is defined` calls a function, filter or macro that does not exist (or fails), but Render returned %s with a nil error; source %s", q(r.Out), q(src))
	}
	return nil
}

func TestC17Defined(t *testing.T) {
	r := NewRec(t, "C17", "exhaustive: 7 templates in which the expression tested with `is defined` / `is not defined` contains a call that cannot be resolved or fails (unknown function, unknown filter, failing macro of an imported library; as object, as subscript, two attributes deep, in a loop); oracle: Render returns an error and no output; all cases non-trivial")
	defer r.Flush()
	r.SetExhaustive()
	for i := range c17DefinedSrcs {
		c := C17DefinedCase{Which: i}
		r.Case(fmt.Sprint(i), true, c17DefinedSrcs[i])
		if err := checkC17Defined(c); err != nil {
			r.FailEnum(t, "C17.defined", c, err)
		}
	}
}

func init() { reg("C17.defined", checkC17Defined) }
