package vh

// C05 — no template source, context value or compiled blob makes the engine panic or hang.
//
// Oracle: each of ParseTemplate, Render, DeserializeCompiledTemplate, LoadFromCompiledData
// returns (value or error): no panic (recover), completion within a watchdog, and afterwards
// a canary on the same engine and on a fresh engine still gives the right answer.

import (
	"encoding/binary"
	"encoding/json"
	"fmt"
	"os"
	"path/filepath"
	"regexp"
	"strings"
	"sync/atomic"
	"testing"
	"time"

	"github.com/semihalev/twig"
	"pgregory.net/rapid"
)

const c05Watchdog = 5 * time.Second

// journal records the case about to run, so that a death of the process can be attributed.
func journal(test string, c interface{}) {
	b, _ := json.Marshal(c)
	os.WriteFile(filepath.Join(outDir(), fmt.Sprintf("journal-%s-%d.json", sanitize(test), shard())), b, 0o644)
}

type c05Canary struct{ S string }

func (c c05Canary) Hello() string { return "hello " + c.S }

// canary checks that an engine is still usable.
func canary(e *twig.Engine) error {
	r := guardT(c05Watchdog, func() (string, error) {
		t, err := e.ParseTemplate("{{ 1 + 1 }}|{{ c.S }}|{{ c.Hello }}|{% for i in [1,2] %}{{ i }}{% endfor %}")
		if err != nil {
			return "", err
		}
		return t.Render(map[string]interface{}{"c": c05Canary{"x"}})
	})
	if r.Hang {
		return fmt.Errorf("the engine hangs on a trivial template afterwards")
	}
	if r.Failed() || r.Out != "2|x|hello x|12" {
		return fmt.Errorf("the engine is unusable afterwards: canary gives %v", r)
	}
	// every 8th time: nested includes, inheritance and macros on a fresh engine (whatever earlier
	// renders left behind in process-wide pools must not make ordinary nesting fail)
	if n := atomic.AddInt64(&canaryCalls, 1); n%8 == 0 {
		ce := newEngine(canaryTemplates)
		r := guardT(c05Watchdog, func() (string, error) { return ce.Render("page", map[string]interface{}{"v": "V"}) })
		if r.Hang || r.Failed() || r.Out != "L[P(a(b(leafV)))<mV>]" {
			return fmt.Errorf("later calls are affected: a fresh engine renders a page with nested includes, a parent and a macro as %v (canary call %d)", r, n)
		}
	}
	return nil
}

var canaryCalls int64
var canaryTemplates = map[string]string{"layout": "L[{% block c %}{% endblock %}]", "page": "{% extends 'layout' %}{% block c %}P({% include 'a' %}){% import 'lib' as l %}{{ l.m(v) }}{% endblock %}",
	"a": "a({% include 'b' %})", "b": "b({% include 'leaf' with {'w': v} %})", "leaf": "leaf{{ w }}", "lib": "{% macro m(x) %}<m{{ x }}>{% endmacro %}"}

type C05SrcCase struct {
	Templates map[string]string `json:"templates"` // other templates available to the loader
	Src       BStr              `json:"src"`       // the source under test (parsed, then rendered)
	Ctx       Ctx               `json:"ctx"`
}

func checkC05Src(c C05SrcCase) error {
	tm := copyMap(c.Templates)
	delete(tm, "main") // the source under test is not reachable by name: no self-inclusion
	e := newEngine(tm)
	NewSpies().Install(e)
	e.EnableSandbox(allowAll{})
	ctx := zooCtx(c.Ctx, 0)
	r := guardT(c05Watchdog, func() (string, error) {
		t, err := e.ParseTemplate(string(c.Src))
		if err != nil {
			return "", err
		}
		return t.Render(ctx)
	})
	if r.Hang && possiblyRecursiveMacro(string(c.Src)) {
		// a mutation can turn a macro into one that calls itself unconditionally (a quote that
		// swallows `endmacro`, a deleted condition): recursion the template writes itself is
		// outside the guarantee
		return nil
	}
	if r.Hang {
		// confirm alone with a long limit before calling it a hang
		r2 := guardT(60*time.Second, func() (string, error) {
			t, err := twig.New().ParseTemplate(string(c.Src))
			if err != nil {
				return "", err
			}
			return t.Render(ctx)
		})
		if r2.Hang {
			return fmt.Errorf("parse+render does not terminate (60 s) on source %s", q(trunc(string(c.Src))))
		}
		return nil
	}
	if r.Panic != "" {
		return fmt.Errorf("panic %q on source %s\n%s", r.Panic, q(trunc(string(c.Src))), stackHead(r.Stack))
	}
	if err := canary(e); err != nil {
		return fmt.Errorf("%v (after source %s)", err, q(trunc(string(c.Src))))
	}
	// the same source served by a loader under a name of its own, rendered twice: a failure of
	// the first load must leave the engine usable for the second call and for the canary
	tm["c05_under_test"] = string(c.Src)
	mk := func() *twig.Engine {
		e2 := newEngine(tm)
		NewSpies().Install(e2)
		e2.EnableSandbox(allowAll{})
		return e2
	}
	e2 := mk()
	for i := 0; i < 2; i++ {
		r := guardT(c05Watchdog, func() (string, error) { return e2.Render("c05_under_test", ctx) })
		if r.Hang && possiblyRecursiveMacro(string(c.Src)) {
			return nil
		}
		if r.Hang {
			// confirm on a fresh engine with a long limit before calling it a hang
			e3 := mk()
			for k := 0; k <= i; k++ {
				if r3 := guardT(60*time.Second, func() (string, error) { return e3.Render("c05_under_test", ctx) }); r3.Hang {
					return fmt.Errorf("call %d of Engine.Render does not return (60 s) for the loader-served source %s", k+1, q(trunc(string(c.Src))))
				}
			}
			return nil
		}
		if r.Panic != "" {
			return fmt.Errorf("panic %q on loader-served source %s\n%s", r.Panic, q(trunc(string(c.Src))), stackHead(r.Stack))
		}
	}
	if err := canary(e2); err != nil {
		return fmt.Errorf("%v (after loader-served source %s)", err, q(trunc(string(c.Src))))
	}
	return nil
}

// panicKey normalises a failure to its root cause: the panic message with numbers and type
// names dropped plus the first engine frame.
func panicKey(err error) string {
	s := err.Error()
	msg := s
	if i := strings.Index(s, " on "); i > 0 {
		msg = s[:i]
	}
	var b strings.Builder
	for _, ch := range msg {
		if ch >= '0' && ch <= '9' {
			continue
		}
		b.WriteRune(ch)
	}
	key := b.String()
	if i := strings.Index(key, "type "); i > 0 {
		key = key[:i+5]
	}
	for _, l := range strings.Split(s, "\n") {
		if strings.Contains(l, "semihalev/twig.") {
			f := strings.TrimSpace(l)
			if j := strings.Index(f, "("); j > 0 {
				f = f[:strings.LastIndex(f, "(")]
			}
			return key + " @ " + f
		}
	}
	return key
}

func stackHead(s string) string {
	lines := strings.Split(s, "\n")
	var out []string
	for _, l := range lines {
		if strings.Contains(l, "/repo/") || strings.Contains(l, "semihalev/twig.") {
			out = append(out, strings.TrimSpace(l))
			if len(out) >= 6 {
				break
			}
		}
	}
	return strings.Join(out, "\n")
}

// lexTwig splits a source into coarse tokens for mutation.
func lexTwig(src string) []string {
	var toks []string
	i := 0
	for i < len(src) {
		c := src[i]
		switch {
		case strings.HasPrefix(src[i:], "{{-") || strings.HasPrefix(src[i:], "{%-"):
			toks = append(toks, src[i:i+3])
			i += 3
		case strings.HasPrefix(src[i:], "-}}") || strings.HasPrefix(src[i:], "-%}"):
			toks = append(toks, src[i:i+3])
			i += 3
		case strings.HasPrefix(src[i:], "{{") || strings.HasPrefix(src[i:], "}}") || strings.HasPrefix(src[i:], "{%") || strings.HasPrefix(src[i:], "%}") || strings.HasPrefix(src[i:], "{#") || strings.HasPrefix(src[i:], "#}"):
			toks = append(toks, src[i:i+2])
			i += 2
		case c == '\'' || c == '"':
			j := i + 1
			for j < len(src) && src[j] != c {
				j++
			}
			if j < len(src) {
				j++
			}
			toks = append(toks, src[i:j])
			i = j
		case c == ' ' || c == '\n' || c == '\t':
			j := i
			for j < len(src) && (src[j] == ' ' || src[j] == '\n' || src[j] == '\t') {
				j++
			}
			toks = append(toks, src[i:j])
			i = j
		case c >= 'a' && c <= 'z' || c >= 'A' && c <= 'Z' || c == '_' || c >= '0' && c <= '9':
			j := i
			for j < len(src) && (src[j] >= 'a' && src[j] <= 'z' || src[j] >= 'A' && src[j] <= 'Z' || src[j] == '_' || src[j] >= '0' && src[j] <= '9') {
				j++
			}
			toks = append(toks, src[i:j])
			i = j
		default:
			toks = append(toks, src[i:i+1])
			i++
		}
	}
	return toks
}

var hostileTokens = []string{"{%", "-%}", "%}", "{{", "}}", "{{-", "(", ")", "|", "=", "in", "as", "with", "import", "endverbatim", "\x00", "\xff", "'", "\"", "[", "{", ",", ".", "~", "?", ":", "is", "not",
	"endfor", "endif", "else", "elseif", "endblock", "endmacro", "only", "ignore", "missing", "sandboxed", "extends", "include", "from", "macro", "block", "set", "do", "apply", "verbatim", "spaceless", "-", "\\", "#}", "{#", "é", "99999", "1e3", "..", "||", "&&", "??", "'a\\'", "\"b\\\"", "'\\'", "\\'", "'x\\\\'", "1e", "2E", "3e+", "4e-", "5.", ".5", "1.e1", "0x", "1_0",
	// spellings other template dialects give a meaning to (interpolation, arrow functions, spread, null-safe access)
	"\"#{\"", "\"a #{ b\"", "\"#{x}\"", "'#{'", "#{", "=>", "...", "?.", "?:", "**", "//", "<=>", "b-and", "not in", "is not", "@ns/x", "{{ \"#{ \" }}", "{% if a == \"#{\" %}"}

const c05SrcRule = "sources derived from generated templates (control flow, inheritance, includes, macros, apply/spaceless) by mutation of a coarse token stream: every prefix, every single-token deletion, duplication and adjacent swap, and replacement of each token by one of 90 hostile tokens (delimiters, keywords, quotes, NUL, 0xFF, huge numbers); each mutant is parsed and rendered with the other templates of the set loadable and a context of many Go value shapes, under recover and a 5 s watchdog, followed by a canary; non-trivial = the mutant contains at least one tag delimiter (it reaches the parser past tokenisation); distinct by mutant source. Excluded by construction: a template that can reach itself by name, self-recursive macros (a mutation can delete the terminating condition), panicking user callbacks"

func c05Ctx(t *rapid.T, base Ctx) Ctx {
	c := Ctx{Names: append([]string{}, base.Names...), Vals: append([]*E{}, base.Vals...)}
	c.Set("zs", ZT(List(Str("a"), Str("b")), "[]string"))
	c.Set("zi", ZT(List(Int(1), Int(2)), "[]int"))
	c.Set("zm", ZT(Hash([]string{"k"}, []*E{Str("v")}), "map[int]string"))
	c.Set("zp", ZPtr(Null()))
	c.Set("zt", ZT(Hash([]string{"Name"}, []*E{Str("n")}), "ptrstruct"))
	return c
}

func TestC05Mutations(t *testing.T) {
	r := NewRec(t, "C05", c05SrcRule)
	defer r.Flush()
	c12Recursion = false // see c12_test.go: mutants of a recursive macro may recurse without end (exempt)
	rapid.Check(t, func(rt *rapid.T) {
		sc, kind := genStructured(rt)
		srcs := sc.Set.Sources(SPrint{})
		names := sortedTemplateNames(srcs)
		target := rapid.SampledFrom(names).Draw(rt, "target")
		toks := lexTwig(srcs[target])
		ctx := c05Ctx(rt, sc.Ctx)
		run := func(mut []string, class string) {
			src := strings.Join(mut, "")
			if selfRecursiveMacro(src) {
				// the mutation made a macro call itself (a quote that swallows `endmacro`, ...):
				// recursion the template writes itself is outside the guarantee
				r.Excl("mutant in which a macro calls itself")
				return
			}
			c := C05SrcCase{Templates: srcs, Src: BStr(src), Ctx: ctx}
			journal(t.Name(), c)
			nt := strings.Contains(src, "{{") || strings.Contains(src, "{%")
			r.Case(src, nt, q(trunc(src)), "mutation:"+class, "structure:"+kind)
			if err := checkC05Src(c); err != nil {
				r.Fail(rt, "C05.src", c, err)
			}
		}
		if len(toks) > 400 {
			toks = toks[:400]
		}
		pad := []string{strings.Repeat("0123456789abcdef", 260)}
		for i := 0; i <= len(toks); i++ {
			run(toks[:i], "prefix")
			if i%3 == 0 || i < 40 {
				// the same truncated source at the end of a template above 4096 bytes
				run(append(append([]string{}, pad...), toks[:i]...), "prefix-after-4096")
			}
		}
		// byte-level truncation of the first tags behind a large prefix
		src0 := strings.Join(toks, "")
		for cut := 1; cut <= len(src0) && cut <= 60; cut++ {
			run([]string{pad[0], src0[:cut]}, "byte-prefix-after-4096")
		}
		for i := range toks {
			run(append(append([]string{}, toks[:i]...), toks[i+1:]...), "delete")
			run(append(append(append([]string{}, toks[:i+1]...), toks[i]), toks[i+1:]...), "duplicate")
			if i+1 < len(toks) {
				sw := append([]string{}, toks...)
				sw[i], sw[i+1] = sw[i+1], sw[i]
				run(sw, "swap")
			}
		}
		// every token replaced by a byte that is not valid UTF-8, by a letter whose lower-case
		// form has a different byte length, and by quoted strings that end in a backslash
		// (exhaustive per position)
		for i := range toks {
			for _, h := range []string{"\xff", "İ", "'a\\'", "\"b\\\""} {
				rep := append([]string{}, toks...)
				rep[i] = h
				run(rep, "replace-nonutf8")
			}
		}
		nrep := rapid.IntRange(5, 40).Draw(rt, "nrep")
		for k := 0; k < nrep && len(toks) > 0; k++ {
			i := rapid.IntRange(0, len(toks)-1).Draw(rt, "at")
			rep := append([]string{}, toks...)
			rep[i] = rapid.SampledFrom(hostileTokens).Draw(rt, "hostile")
			run(rep, "replace")
		}
	})
}

// TestC05Soup: sources assembled from syntax fragments and raw bytes.
func TestC05Soup(t *testing.T) {
	r := NewRec(t, "C05", "sources assembled from 3-40 fragments drawn from the hostile-token list, valid tags, identifiers of the context and raw bytes (a generator-based fuzz of the parser), padded beyond 4096 bytes in 1 of 5 cases so that the second tokenizer runs; non-trivial = contains a tag delimiter")
	defer r.Flush()
	frags := append([]string{}, hostileTokens...)
	frags = append(frags, " ", " ", "\n", "a", "xs", "m.k1", "loop.index", "{{ a }}", "{% if a %}", "{% for i in xs %}", "{% endfor %}", "{% endif %}", "{% set v = 1 %}", "{% include 'inc1' %}", "{% extends 't1' %}",
		"{% block b %}", "{% macro m(x, y = 1) %}", "{% import 'lib' as l %}", "{% from 'lib' import m0 %}", "{% verbatim %}", "{% apply upper %}", "{% endapply %}", "{{ parent() }}", "a|b", "a ? b : c", "[1, 2]", "{'k': 1}", "range(1, 3)",
		"xs|slice(1)", "xs|sort|join(',')", "1 + 2 * 3", "not a", "a is defined", "a starts with 'x'", "'str'", "\"dq\"", "{% for k, v in m %}", "{% else %}", "{% elseif b %}", "{{- a -}}", "{%- if a -%}")
	rapid.Check(t, func(rt *rapid.T) {
		n := rapid.IntRange(3, 40).Draw(rt, "n")
		var b strings.Builder
		for i := 0; i < n; i++ {
			if rapid.IntRange(0, 9).Draw(rt, "raw") == 0 {
				b.Write(rapid.SliceOfN(rapid.Byte(), 1, 4).Draw(rt, "bytes"))
			} else {
				b.WriteString(rapid.SampledFrom(frags).Draw(rt, "frag"))
			}
		}
		if rapid.IntRange(0, 4).Draw(rt, "big") == 0 {
			b.WriteString(strings.Repeat("pad ", 1100))
		}
		src := b.String()
		ctx := c05Ctx(rt, stdCtx(rt))
		c := C05SrcCase{Templates: map[string]string{"inc1": "I{{ a }}", "t1": "T[{% block b %}{% endblock %}]", "lib": "{% macro m0(x) %}M{{ x }}{% endmacro %}"}, Src: BStr(src), Ctx: ctx}
		journal(t.Name(), c)
		r.Case(src, strings.Contains(src, "{{") || strings.Contains(src, "{%"), q(trunc(src)))
		if err := checkC05Src(c); err != nil {
			r.Fail(rt, "C05.src", c, err)
		}
	})
}

// ---- expression x value shape grid -----------------------------------------------------------

type C05ShapeCase struct {
	Expr string `json:"expr"` // uses x (and y)
	X    *E     `json:"x"`
	Y    *E     `json:"y,omitempty"`
}

func checkC05Shape(c C05ShapeCase) error {
	var ctx Ctx
	ctx.Set("x", c.X)
	if c.Y != nil {
		ctx.Set("y", c.Y)
	}
	forms := []string{"{{ %s }}", "{%% if %s %%}t{%% endif %%}", "{%% for q in %s %%}{{ q }}{%% endfor %%}", "{%% set v = %s %%}{{ v }}"}
	if c.Y == nil {
		// the value as the name of a template (a string, a list of candidates, anything else)
		forms = append(forms, "{%% include %s %%}", "{%% include %s ignore missing with {'a': 1} only %%}")
	}
	for _, form := range forms {
		src := fmt.Sprintf(form, c.Expr)
		e := twig.New()
		r := guardT(c05Watchdog, func() (string, error) {
			t, err := e.ParseTemplate(src)
			if err != nil {
				return "", err
			}
			return t.Render(zooCtx(ctx, 0))
		})
		if r.Hang {
			return fmt.Errorf("%s does not terminate with x = %s", q(src), PrintE2(c.X))
		}
		if r.Panic != "" {
			y := ""
			if c.Y != nil {
				y = ", y = " + PrintE2(c.Y)
			}
			return fmt.Errorf("panic %q on %s with x = %s%s\n%s", r.Panic, q(src), PrintE2(c.X), y, stackHead(r.Stack))
		}
		if err := canary(e); err != nil {
			return fmt.Errorf("%v (after %s with x = %s)", err, q(src), PrintE2(c.X))
		}
	}
	return nil
}

func c05Shapes() []*E {
	base := []*E{Null(), Bool(true), Bool(false), Int(0), Int(7), Int(-3), Str(""), Str("abc"), Str("héé"), Str("12"), Str("1.5"),
		List(), List(Int(3), Int(1), Int(2)), List(Str("b"), Str("a")), List(Int(1), Str("a"), Null(), List(Int(1))),
		Hash(nil, nil), Hash([]string{"k", "j"}, []*E{Int(1), Str("s")}), Hash([]string{"k"}, []*E{List(Int(1))}),
		ZT(List(), "[]int"), ZT(List(Int(3), Int(1)), "[]int"), ZT(List(Str("b"), Str("a")), "[]string"), ZT(List(Int(3), Int(1)), "[]float64"), ZT(List(Int(3), Int(1), Int(2)), "[3]int"),
		ZT(Hash(nil, nil), "map[string]int"), ZT(Hash([]string{"k", "j"}, []*E{Int(1), Int(2)}), "map[string]int"), ZT(Hash([]string{"k"}, []*E{Str("v")}), "map[string]string"),
		ZT(Hash([]string{"k", "jj"}, []*E{Str("v"), Str("w")}), "map[int]string"), ZT(Hash([]string{"k"}, []*E{Int(1)}), "map[iface]"), ZT(Hash([]string{"k0", "k1", "k2", "k3", "k4", "k5", "k6"}, []*E{Int(1), Int(2), Str("v"), Int(4), Int(5), Int(6), Int(7)}), "map[mixed]"),
		ZT(Hash([]string{"Name", "Tags"}, []*E{Str("n"), List(Str("t"))}), "struct"), ZT(Hash([]string{"Name"}, []*E{Str("n")}), "ptrstruct"),
		ZPtr(Null()), ZPtr(Int(5)), ZPtr(Str("p")), ZPtr(ZT(List(Int(1)), "[]int")), ZTime(1700000000), ZTime(0),
		ZT(Str("b"), "bytes"), ZT(Str("n"), "named"), ZT(Str("s"), "stringer")}
	for _, w := range []string{"int8", "int64", "uint", "uint8", "uint64", "float32", "float64", "named"} {
		base = append(base, ZT(Int(9), w), ZT(Int(0), w))
	}
	// long sequences (code paths that switch strategy above some length), with hashable and
	// unhashable elements
	// typed nil pointers to a struct and to a map, a struct whose pointer field is nil / set
	base = append(base, ZT(Hash(nil, nil), "nilptrtime"), ZT(Hash(nil, nil), "nilptrdur"), ZT(Hash(nil, nil), "nilptrstringer"), ZT(Hash(nil, nil), "nilptrlist"))
	base = append(base, ZT(Hash(nil, nil), "nilptrstruct"), ZT(Hash(nil, nil), "nilptrmap"), ZT(Hash(nil, nil), "outer"), ZT(Hash([]string{"Author"}, []*E{Str("au")}), "outer"))
	// sequences whose element type is an interface (other than the empty one behind a plain list),
	// named, an array, or itself a collection
	base = append(base, ZT(List(Int(1), Str("a")), "named[]iface"), ZT(List(), "named[]iface"), ZT(List(Str("b"), Str("a")), "named[]string"), ZT(List(Int(2), Int(1)), "named[]int"),
		ZT(List(Int(1), Str("a")), "[2]iface"), ZT(List(Str("x"), Str("y")), "[]error"), ZT(List(Str("x"), Str("y")), "[]stringer"), ZT(List(Int(1), Int(5)), "[][]int"), ZT(List(Int(1), Int(5)), "[]map"))
	// pointers to pointers (to a struct with methods on both receivers, to a scalar, to a slice), a
	// pointer to a struct with methods
	base = append(base, ZPtr(ZT(Hash([]string{"Name", "N"}, []*E{Str("pp"), Int(3)}), "ptrmeth")), ZT(Hash([]string{"Name", "N"}, []*E{Str("pm"), Int(4)}), "ptrmeth"), ZT(Hash([]string{"Name", "N"}, []*E{Str("vm"), Int(5)}), "meth"),
		ZPtr(ZPtr(Int(5))), ZPtr(ZT(Hash([]string{"Name"}, []*E{Str("n")}), "ptrstruct")), ZPtr(ZPtr(ZT(List(Int(1)), "[]int"))), ZPtr(ZPtr(ZPtr(Str("deep")))))
	base = append(base, c05Big(func(i int) *E { return Int(int64(i)) }), c05Big(func(i int) *E { return List(Int(int64(i))) }),
		c05Big(func(i int) *E { return Hash([]string{"k"}, []*E{Int(int64(i))}) }), ZT(c05Big(func(i int) *E { return Int(int64(i)) }), "[]int"))
	return base
}

func c05Big(el func(i int) *E) *E {
	var xs []*E
	for i := 0; i < 60; i++ {
		xs = append(xs, el(i))
	}
	return List(xs...)
}

var c05UnaryExprs = []string{"x", "not x", "-x", "+x", "x|abs", "x|upper", "x|lower", "x|trim", "x|capitalize", "x|title", "x|length", "x|first", "x|last", "x|reverse", "x|sort", "x|keys", "x|join(',')", "x|join", "x|split(',')", "x|slice(1)", "x|slice(0, 2)", "x|slice(-1)",
	"x|default('d')", "x|escape", "x|e", "x|raw", "x|striptags", "x|nl2br", "x|spaceless", "x|url_encode", "x|json_encode", "x|round", "x|round(1, 'ceil')", "x|number_format(2)", "x|number_format", "x|date('Y-m-d')", "x|format('a')", "x|replace('a', 'b')", "x|replace({'a': 'b'})",
	"x|merge([1])", "x|merge({'a': 1})", "x|merge(x)", "x|count", "x|trim('a')", "x.a", "x.Name", "x.k", "x['a']", "x['k']", "x[0]", "x[1]", "x[-1]", "x[undefined]", "x[null]", "x['0']", "x.a.b", "x[0][0]", "x.Tags[0]", "x.Author", "x.Author.Name", "x.Author.Tags[0]", "x.Meta", "x.Meta.k", "x.Inner", "x.Inner.Z", "x.Count", "x.Label", "x.Twice", "x.String", "x.Hours", "x.Seconds", "x.Year", "x.Unix", "x.String is defined", "x.Hours is defined ? 1 : 0", "x.Label|upper", "x.Twice + 1", "x.N",
	"x is defined", "x is empty", "x is null", "x is even", "x is odd", "x is iterable", "x is divisible_by(2)", "x is divisible_by(0)", "x is same_as(x)", "x is constant('a')", "x is starts_with('a')", "x is matches('/a/')", "x is matches('[')",
	"max(x)", "min(x)", "max(x, 1)", "length(x)", "range(x)", "range(1, x)", "range(1, 3, x)", "range(x, x, x)", "cycle(x, 1)", "cycle(x, -1)", "cycle([1,2], x)", "merge(x, x)", "merge(x, [1])", "dump(x)", "json_encode(x)", "date(x)", "date(x, 'Y')", "random(x)", "constant(x)",
	"x ? 1 : 2", "x ?: 'd'", "x ?? 'd'", "x ~ x", "x in x", "x matches x", "x starts with x", "x ends with x", "x == x", "x < x", "x + x", "x - x", "x * x", "x / x", "x % x", "x ^ x", "x and x", "x or x", "x|batch(2)", "x|first|first", "x|last.a", "x|keys|first", "x|sort|first", "x|reverse|join"}

var c05BinaryExprs = []string{"x + y", "x - y", "x * y", "x / y", "x % y", "x ^ y", "x ~ y", "x == y", "x != y", "x < y", "x >= y", "x in y", "x not in y", "x matches y", "x starts with y", "x ends with y", "x and y", "x or y", "x ? x : y",
	"x|merge(y)", "x|default(y)", "x|join(y)", "x|split(y)", "x|slice(y)", "x|slice(0, y)", "x|slice(y, y)", "x[y]", "x|round(y)", "x|number_format(y)", "x|date(y)", "x|replace(y)", "x|replace(y, y)", "x|trim(y)", "x|format(y)", "x|format(y, y)",
	"max(x, y)", "min(x, y)", "range(x, y)", "range(1, 5, y)", "range(x, y, y)", "merge(x, y)", "cycle(x, y)", "x is divisible_by(y)", "x is same_as(y)", "x is matches(y)", "date(x, y)", "random(x, y)", "x|batch(y)"}

var c05ConstExprs = []string{"range(9223372036854775806, 9223372036854775807)|length", "range(9223372036854775800, 9223372036854775807, 5)|length", "range(0, 9223372036854775807, 4611686018427387904)|length",
	"range(-9223372036854775806, -9223372036854775807, -1)|length", "range(-9223372036854775800, -9223372036854775807 - 1, -5)|length", "range(9223372036854775807, 9223372036854775807)|join(',')",
	"range(5, 1, 0)|length", "range(1, 5, 0)|length", "range(3, 3, 0)|length", "9223372036854775807 + 1", "-9223372036854775807 - 2", "9223372036854775807 * 2", "9223372036854775807|abs", "(-9223372036854775807 - 1)|abs",
	"'x'|slice(9223372036854775807)", "'x'|slice(-9223372036854775807, 9223372036854775807)", "[1, 2]|slice(1, 9223372036854775807)|length", "[1, 2]|batch(9223372036854775807)|length", "'ab'|format(9223372036854775807)",
	"1|round(9223372036854775807)", "1.5|number_format(2147483647)|length < 0", "random(9223372036854775807) >= 0", "random(0, 9223372036854775807) >= 0", "random(-5000000000000000000, 5000000000000000000) < 6000000000000000000", "random(-9223372036854775807, 9223372036854775807) is defined", "random(-9223372036854775807, 0) <= 0", "random(-9223372036854775807) <= 0", "cycle([1, 2], 9223372036854775807)", "cycle([1, 2], -9223372036854775807)"}

var c05BlockSources = []string{"{% block a %}[{% block a %}x{% endblock %}]{% endblock %}", "{% block a %}<{% block b %}({% block a %}x{% endblock %}){% endblock %}>{% endblock %}", "{% block a %}X{% endblock %}-{% block a %}Y{% endblock %}",
	"{% if true %}{% block a %}X{% endblock %}{% endif %}-{% block a %}Y{% endblock %}", "{% extends 't1' %}{% block b %}1{% block b %}2{% endblock %}{% endblock %}", "{% for i in [1, 2] %}{% block a %}{{ i }}{% block a %}y{% endblock %}{% endblock %}{% endfor %}",
	"{% block a %}{% block b %}{% endblock %}{% endblock %}{% block b %}{% block a %}{% endblock %}{% endblock %}"}

func TestC05Shapes(t *testing.T) {
	r := NewRec(t, "C05", "bounded exhaustive: ~125 unary expressions (every operator, filter, function and test of the core extension, attribute/index access incl. x[undefined]) x ~60 Go value shapes (nil, scalars of every width, strings, untyped and typed slices (also named ones and slices of error / Stringer / slices / maps), arrays (also of interface{}), untyped and typed maps incl. non-string keys, structs, pointers incl. nil, time, []byte, named types, Stringer), and ~50 binary expressions x all pairs of 22 representative shapes (incl. strings hostile as patterns/separators/formats and 60-element lists of scalars, lists and maps), each in print / if / for / set position (the unary ones also as the template name of an include); 29 expressions over constants at the edges of the integer range; 7 sources that define one block name twice; non-trivial = the value is not a map[string]interface{} / []interface{} / string / int")
	defer r.Flush()
	r.SetExhaustive()
	shapes := c05Shapes()
	for _, ex := range c05UnaryExprs {
		for _, x := range shapes {
			c := C05ShapeCase{Expr: ex, X: x}
			journal(t.Name(), c)
			r.Case(ex+PrintE2(x), x.M != "" || x.K == "ptr" || x.K == "time" || x.K == "null" || x.K == "bool", ex+" with x="+PrintE2(x))
			if err := checkC05Shape(c); err != nil {
				r.FailEnumKey(t, "C05.shape", panicKey(err), c, err)
			}
		}
	}
	// expressions over constants at the edges of the integer range (a loop counter that wraps
	// around never reaches its bound)
	for _, ex := range c05ConstExprs {
		c := C05ShapeCase{Expr: ex, X: Null()}
		journal(t.Name(), c)
		r.Case(ex, true, ex)
		if err := checkC05Shape(c); err != nil {
			r.FailEnumKey(t, "C05.shape", panicKey(err), c, err)
		}
	}
	// whole sources that define one block name twice (nested in itself, through another block,
	// side by side, under a condition): an error or output, never a runaway recursion
	for _, src := range c05BlockSources {
		c := C05SrcCase{Templates: fuzzTemplates, Src: BStr(src), Ctx: fuzzCtx(0)}
		journal(t.Name(), c)
		r.Case(src, true, src)
		if err := checkC05Src(c); err != nil {
			r.FailEnumKey(t, "C05.src", src, c, err)
		}
	}
	pairShapes := []*E{Null(), Int(0), Int(2), Int(-1), Str(""), Str("ab"), Str("3"), List(), List(Int(1), Int(2)), Hash([]string{"k"}, []*E{Int(1)}),
		ZT(List(Str("a")), "[]string"), ZT(List(Int(1)), "[]int"), ZT(Hash([]string{"k"}, []*E{Int(1)}), "map[string]int"), ZT(Hash([]string{"k"}, []*E{Str("v")}), "map[int]string"), ZT(Hash([]string{"Name"}, []*E{Str("n")}), "struct"), ZPtr(Null()), ZT(Int(2), "float64"), ZT(Int(0), "uint8"),
		// strings that are hostile as patterns, separators and formats; a long list of unhashable elements
		Str("z-a"), Str("([\\"), Str("%d%s%"), ZT(Hash([]string{"k0", "k1", "k2", "k3"}, []*E{Int(1), Int(2), Int(3), Int(4)}), "map[mixed]"), c05Big(func(i int) *E { return List(Int(int64(i))) })}
	for _, ex := range c05BinaryExprs {
		for _, x := range pairShapes {
			for _, y := range pairShapes {
				c := C05ShapeCase{Expr: ex, X: x, Y: y}
				journal(t.Name(), c)
				r.Case(ex+PrintE2(x)+PrintE2(y), x.M != "" || y.M != "" || x.K == "null" || y.K == "null" || x.K == "ptr" || y.K == "ptr", ex+" with x="+PrintE2(x)+" y="+PrintE2(y))
				if err := checkC05Shape(c); err != nil {
					r.FailEnumKey(t, "C05.shape", panicKey(err), c, err)
				}
			}
		}
	}
}

// TestC05Fused: every blank inside a tag replaced by nothing or by one token, so that keywords are
// directly followed by punctuation, strings and numbers (`import(a, 1)`, `with{`, `in[`, `as"x"`):
// the places where tag parsers decide by token type what comes after a keyword.
var c05FusedTags = []string{"{% from 'lib' import m0 %}{{ m0(1) }}", "{% from 'lib' import m0 as z, m0 as y %}{{ z(1) }}", "{% import 'lib' as l %}{{ l.m0(1) }}", "{% include 'inc1' with {'a': 1} only %}",
	"{% include 'inc1' ignore missing %}", "{% include ['nope', 'inc1'] %}", "{% extends 't1' %}{% block b %}x{% endblock b %}", "{% block b %}x{% endblock %}", "{% macro m(x, y = 1) %}{{ x }}{% endmacro %}{{ m(1) }}",
	"{% set v = 1 %}{{ v }}", "{% set v, w = 1, 2 %}", "{% set v %}x{% endset %}", "{% for k, v in m %}x{% else %}y{% endfor %}", "{% for i in xs %}{{ loop.index }}{% endfor %}", "{% if a %}x{% elseif b %}y{% else %}z{% endif %}",
	"{% apply upper|lower %}x{% endapply %}", "{% do a %}", "{% verbatim %}x{% endverbatim %}", "{% spaceless %}<a> <b>{% endspaceless %}", "{{ a is not defined }}", "{{ a not in xs }}", "{{ b starts with 'b' }}",
	"{{ b ends with 'e' }}", "{{ a is divisible by(2) }}", "{{ a is same as(b) }}", "{{ xs|slice(1, 2)|join(',') }}", "{{ a ? b : xs[0] }}", "{{ a and not b or t }}", "{{ m.k1 ~ m['name'] }}", "{{ range(1, 3)|first }}"}

var c05FusedFill = []string{"", "(", ")", "\"a\"", "'a'", "1", "+", ",", "=", "[", "]", "{", "|", ".", "-", "%", ":", "\t", "\n"}

func TestC05Fused(t *testing.T) {
	r := NewRec(t, "C05", "bounded exhaustive: 30 valid tags and tag pairs x every blank inside a tag x 19 fillings (nothing, one punctuation/operator character, a quoted string, a number, tab, newline), as written and behind 4100 bytes of text; parsed and rendered under recover and the watchdog; non-trivial = the blank follows or precedes a keyword of the tag")
	defer r.Flush()
	r.SetExhaustive()
	tm := map[string]string{"inc1": "I{{ a }}", "t1": "T[{% block b %}{% endblock %}]", "lib": "{% macro m0(x) %}M{{ x }}{% endmacro %}"}
	ctx := fuzzCtx(0)
	kw := regexp.MustCompile(`(from|import|as|include|with|only|ignore|missing|extends|block|endblock|macro|set|for|in|if|elseif|apply|do|is|not|starts|ends|divisible|by|same|and|or)$`)
	pad := strings.Repeat("0123456789abcdef", 257)
	for _, tag := range c05FusedTags {
		inTag := false
		for i := 0; i < len(tag); i++ {
			if strings.HasPrefix(tag[i:], "{%") || strings.HasPrefix(tag[i:], "{{") {
				inTag = true
			} else if strings.HasPrefix(tag[i:], "%}") || strings.HasPrefix(tag[i:], "}}") {
				inTag = false
			}
			if !inTag || tag[i] != ' ' {
				continue
			}
			for _, f := range c05FusedFill {
				for _, prefix := range []string{"", pad} {
					src := prefix + tag[:i] + f + tag[i+1:]
					c := C05SrcCase{Templates: tm, Src: BStr(src), Ctx: ctx}
					journal(t.Name(), c)
					r.Case(src, kw.MatchString(tag[:i]) || kw.MatchString(strings.TrimRight(reverseWords(tag[i+1:]), " ")), q(trunc(tag[:i]+f+tag[i+1:])), "fill:"+q(f))
					if err := checkC05Src(c); err != nil {
						r.FailEnumKey(t, "C05.src", panicKey(err), c, err)
					}
				}
			}
		}
	}
}

// reverseWords returns the first word of s (so that the keyword pattern, anchored at the end, can
// be applied to what follows a blank)
func reverseWords(s string) string {
	if i := strings.IndexAny(s, " %}|(,"); i >= 0 {
		return s[:i]
	}
	return s
}

// ---- compiled blobs ------------------------------------------------------------------------------

type C05BlobCase struct {
	Data BStr `json:"data"`
}

func checkC05Blob(c C05BlobCase) error {
	data := []byte(c.Data)
	r := guardT(c05Watchdog, func() (string, error) {
		_, err := twig.DeserializeCompiledTemplate(data)
		return "", err
	})
	if r.Hang {
		return fmt.Errorf("DeserializeCompiledTemplate does not terminate on %d bytes %s", len(data), q(trunc(string(data))))
	}
	if r.Panic != "" {
		return fmt.Errorf("DeserializeCompiledTemplate panicked: %s on %s\n%s", r.Panic, q(trunc(string(data))), stackHead(r.Stack))
	}
	e := twig.New()
	r = guardT(c05Watchdog, func() (string, error) { return "", e.LoadFromCompiledData(data) })
	if r.Hang {
		return fmt.Errorf("LoadFromCompiledData does not terminate on %s", q(trunc(string(data))))
	}
	if r.Panic != "" {
		return fmt.Errorf("LoadFromCompiledData panicked: %s on %s\n%s", r.Panic, q(trunc(string(data))), stackHead(r.Stack))
	}
	if r.Err == "" {
		// whatever was registered must render or fail cleanly
		for _, n := range e.GetCachedTemplateNames() {
			n := n
			rr := guardT(c05Watchdog, func() (string, error) { return e.Render(n, map[string]interface{}{"a": 1}) })
			if rr.Hang || rr.Panic != "" {
				return fmt.Errorf("rendering the template loaded from the blob: %v", rr)
			}
		}
	}
	return canary(e)
}

func validBlob(name, src string, ast []byte) []byte {
	b, _ := twig.SerializeCompiledTemplate(&twig.CompiledTemplate{Name: name, Source: src, LastModified: 1700000000, CompileTime: 1700000001, AST: ast})
	return b
}

func TestC05Blobs(t *testing.T) {
	r := NewRec(t, "C05", "compiled-template data: exhaustive truncation of three valid blobs at every offset; every length prefix (name, source, AST) set to 0, len-1, len+1, 2^31, 2^32-1; version byte 0..255; plus random byte strings and random single-byte corruptions of valid blobs; non-trivial = a length prefix was changed or the blob was cut inside a field")
	defer r.Flush()
	blobs := [][]byte{validBlob("t", "x{{ a }}", nil), validBlob("name", "{% if a %}y{% endif %}", []byte("not gob")), validBlob("", "", nil)}
	if e := newEngine(map[string]string{"m": "{% for i in [1,2] %}{{ i }}{% endfor %}"}); true {
		if ct, err := e.CompileTemplate("m"); err == nil {
			if b, err := twig.SerializeCompiledTemplate(ct); err == nil {
				blobs = append(blobs, b)
			}
		}
	}
	run := func(data []byte, nt bool, class string) {
		c := C05BlobCase{Data: BStr(data)}
		journal(t.Name(), c)
		r.Case(string(data), nt, fmt.Sprintf("%d bytes: %s", len(data), q(trunc(string(data)))), class)
		if err := checkC05Blob(c); err != nil {
			r.FailEnum(t, "C05.blob", c, err)
		}
	}
	for _, b := range blobs {
		for cut := 0; cut <= len(b); cut++ {
			run(b[:cut], cut > 0 && cut < len(b), "truncate")
		}
		// the three length prefixes sit at: 1 (name), 5+len(name) (source), then after 16 bytes of timestamps (AST)
		nameLen := int(binary.LittleEndian.Uint32(b[1:5]))
		srcOff := 5 + nameLen
		srcLen := int(binary.LittleEndian.Uint32(b[srcOff : srcOff+4]))
		astOff := srcOff + 4 + srcLen + 16
		for _, off := range []int{1, srcOff, astOff} {
			orig := binary.LittleEndian.Uint32(b[off : off+4])
			for _, v := range []uint32{0, orig - 1, orig + 1, 1 << 31, 1<<32 - 1, uint32(len(b)), uint32(len(b)) + 1} {
				m := append([]byte{}, b...)
				binary.LittleEndian.PutUint32(m[off:off+4], v)
				run(m, true, "length-prefix")
			}
		}
		for v := 0; v < 256; v++ {
			m := append([]byte{}, b...)
			m[0] = byte(v)
			run(m, v != 1, "version")
		}
	}
	r.SetExhaustive()
	rapid.Check(t, func(rt *rapid.T) {
		var data []byte
		if rapid.Bool().Draw(rt, "random") {
			data = rapid.SliceOfN(rapid.Byte(), 0, 80).Draw(rt, "bytes")
			if rapid.Bool().Draw(rt, "v1") && len(data) > 0 {
				data[0] = 1
			}
		} else {
			b := blobs[rapid.IntRange(0, len(blobs)-1).Draw(rt, "blob")]
			data = append([]byte{}, b...)
			k := rapid.IntRange(1, 3).Draw(rt, "ncorrupt")
			for i := 0; i < k && len(data) > 0; i++ {
				data[rapid.IntRange(0, len(data)-1).Draw(rt, "at")] = rapid.Byte().Draw(rt, "val")
			}
		}
		run(data, true, "random")
	})
}

// TestC05AttrFlood: more distinct (type, attribute) lookups than the attribute cache holds,
// then the canary (which itself looks an attribute up).
func TestC05AttrFlood(t *testing.T) {
	r := NewRec(t, "C05", "2500 lookups of distinct attribute names on one struct type and of one name on 1200 distinct struct types (the process-wide attribute cache holds 1000 entries), each under a watchdog, followed by the canary; non-trivial = all")
	defer r.Flush()
	r.SetExhaustive()
	if err := c20Flood("names", 2500); err != nil {
		r.FailEnum(t, "C05.flood", map[string]int{"names": 2500}, err)
	}
	r.Case("names", true, "2500 fresh attribute names")
	if err := c20Flood("types", 1200); err != nil {
		r.FailEnum(t, "C05.flood", map[string]int{"types": 1200}, err)
	}
	r.Case("types", true, "1200 fresh struct types")
	if err := canary(twig.New()); err != nil {
		r.FailEnum(t, "C05.flood", map[string]int{"canary": 1}, err)
	}
}

type c05FloodCase map[string]int

func checkC05Flood(c c05FloodCase) error {
	for k, n := range c {
		if k == "canary" {
			continue
		}
		if err := c20Flood(k, n); err != nil {
			return err
		}
	}
	return canary(twig.New())
}

func init() {
	reg("C05.flood", checkC05Flood)
	reg("C05.src", checkC05Src)
	reg("C05.shape", checkC05Shape)
	reg("C05.blob", checkC05Blob)
}
