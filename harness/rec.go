package vh

// Case accounting, failure files and evidence fragments (DESIGN.md 3.6).
//
// Every check calls rec.Case once per generated case. The recorder keeps a set of
// 64-bit hashes of the non-trivial cases (for distinct counting across shards), class
// counters, exclusion counters and a small deterministic sample of cases, and writes
// one fragment per test function into $VERIF_OUT; the driver merges fragments into
// /verif/evidence/<id>.json.

import (
	"encoding/json"
	"fmt"
	"hash/fnv"
	"os"
	"path/filepath"
	"sort"
	"strconv"
	"sync"
	"testing"
)

type Rec struct {
	mu       sync.Mutex
	Prop     string
	Test     string
	Rule     string
	evals    int
	nt       map[uint64]struct{}
	ntCount  int
	classes  map[string]int
	excl     map[string]int
	samples  []interface{}
	nextSamp int
	failed   bool
	fails    int
	known    []string
	exhaust  bool
	notes    []string
	keys     map[string]bool
}

func NewRec(t testing.TB, prop, rule string) *Rec {
	return &Rec{Prop: prop, Test: t.Name(), Rule: rule, nt: map[uint64]struct{}{},
		classes: map[string]int{}, excl: map[string]int{}, nextSamp: 1}
}

func hash64(s string) uint64 {
	h := fnv.New64a()
	h.Write([]byte(s))
	return h.Sum64()
}

// Case records one generated case. key is its canonical text (distinctness), nontrivial
// the outcome of the property's non-triviality rule, sample a JSON-able rendering kept
// for a deterministic subset (cases number 1,2,4,8,... of the run).
func (r *Rec) Case(key string, nontrivial bool, sample interface{}, classes ...string) {
	r.mu.Lock()
	defer r.mu.Unlock()
	if r.failed { // after the first failure rapid is shrinking: those are not generated cases
		return
	}
	r.evals++
	if nontrivial {
		r.nt[hash64(key)] = struct{}{}
		r.ntCount++
	}
	for _, c := range classes {
		r.classes[c]++
	}
	if r.evals == r.nextSamp && len(r.samples) < 24 {
		r.samples = append(r.samples, sample)
		r.nextSamp *= 2
	}
}

func (r *Rec) Class(c string) { r.mu.Lock(); r.classes[c]++; r.mu.Unlock() }
func (r *Rec) ClassN(c string, n int) {
	r.mu.Lock()
	r.classes[c] += n
	r.mu.Unlock()
}
func (r *Rec) Excl(c string)     { r.mu.Lock(); r.excl[c]++; r.mu.Unlock() }
func (r *Rec) Note(s string)     { r.mu.Lock(); r.notes = append(r.notes, s); r.mu.Unlock() }
func (r *Rec) SetExhaustive()    { r.exhaust = true }
func (r *Rec) Known(line string) { r.mu.Lock(); r.known = append(r.known, line); r.mu.Unlock() }

func outDir() string {
	d := os.Getenv("VERIF_OUT")
	if d == "" {
		d = filepath.Join(os.TempDir(), "verif-out")
	}
	os.MkdirAll(d, 0o755)
	return d
}

func shard() int {
	n, _ := strconv.Atoi(os.Getenv("VERIF_SHARD"))
	return n
}

func tier() string {
	if os.Getenv("VERIF_TIER") == "thorough" {
		return "thorough"
	}
	return "quick"
}

func thorough() bool { return tier() == "thorough" }

// scale picks a size by tier.
func scale(quick, thor int) int {
	if thorough() {
		return thor
	}
	return quick
}

type failFile struct {
	Property string      `json:"property"`
	Check    string      `json:"check"`
	Test     string      `json:"test"`
	Message  string      `json:"message"`
	Case     interface{} `json:"case"`
}

// saveFail writes the failing case; slot distinguishes several failures of one test
// (enumerations); under rapid the same slot is overwritten while shrinking so the last
// write is the minimal case.
func (r *Rec) saveFail(check string, slot int, c interface{}, msg string) string {
	r.mu.Lock()
	r.failed = true
	r.mu.Unlock()
	p := filepath.Join(outDir(), fmt.Sprintf("fail-%s-%d-%d.json", sanitize(r.Test), shard(), slot))
	b, err := json.MarshalIndent(failFile{r.Prop, check, r.Test, msg, c}, "", " ")
	if err != nil {
		b, _ = json.Marshal(failFile{r.Prop, check, r.Test, msg + " (case not serialisable: " + err.Error() + ")", nil})
	}
	os.WriteFile(p, b, 0o644)
	return p
}

type fataler interface {
	Fatalf(format string, args ...interface{})
}

// Fail is used inside rapid properties.
func (r *Rec) Fail(t fataler, check string, c interface{}, err error) {
	r.saveFail(check, 0, c, err.Error())
	t.Fatalf("%s: %v", check, err)
}

// FailEnum is used by enumerations: records the failure, keeps going; the test is
// marked failed; at most 8 failures are kept.
func (r *Rec) FailEnum(t *testing.T, check string, c interface{}, err error) {
	r.mu.Lock()
	n := r.fails
	r.fails++
	r.mu.Unlock()
	if n < 8 {
		p := filepath.Join(outDir(), fmt.Sprintf("fail-%s-%d-%d.json", sanitize(r.Test), shard(), n+1))
		b, _ := json.MarshalIndent(failFile{r.Prop, check, r.Test, err.Error(), c}, "", " ")
		os.WriteFile(p, b, 0o644)
		t.Errorf("%s: %v", check, err)
	}
}

// FailEnumKey is FailEnum with de-duplication by root-cause key (e.g. panic message + top
// engine frame): one saved case per key, at most 40 keys, so that one shallow defect does not
// hide the others behind it.
func (r *Rec) FailEnumKey(t *testing.T, check, key string, c interface{}, err error) {
	r.mu.Lock()
	if r.keys == nil {
		r.keys = map[string]bool{}
	}
	dup := r.keys[key]
	r.keys[key] = true
	n := len(r.keys)
	r.failed = true
	r.mu.Unlock()
	if dup || n > 40 {
		return
	}
	p := filepath.Join(outDir(), fmt.Sprintf("fail-%s-%d-k%d.json", sanitize(r.Test), shard(), n))
	b, _ := json.MarshalIndent(failFile{r.Prop, check, r.Test, err.Error(), c}, "", " ")
	os.WriteFile(p, b, 0o644)
	t.Errorf("%s: %v", check, err)
}

func sanitize(s string) string {
	b := []byte(s)
	for i, c := range b {
		if !(c >= 'a' && c <= 'z' || c >= 'A' && c <= 'Z' || c >= '0' && c <= '9' || c == '_') {
			b[i] = '_'
		}
	}
	return string(b)
}

type fragment struct {
	Property   string         `json:"property"`
	Test       string         `json:"test"`
	Shard      int            `json:"shard"`
	Rule       string         `json:"rule"`
	Evals      int            `json:"evaluations"`
	NT         []uint64       `json:"nontrivial_hashes"`
	NTCount    int            `json:"nontrivial_count"`
	Classes    map[string]int `json:"classes"`
	Excluded   map[string]int `json:"excluded"`
	Samples    []interface{}  `json:"samples"`
	Known      []string       `json:"known"`
	Exhaustive bool           `json:"exhaustive"`
	Notes      []string       `json:"notes"`
}

func (r *Rec) Flush() {
	r.mu.Lock()
	defer r.mu.Unlock()
	f := fragment{Property: r.Prop, Test: r.Test, Shard: shard(), Rule: r.Rule, Evals: r.evals, NTCount: r.ntCount,
		Classes: r.classes, Excluded: r.excl, Samples: r.samples, Known: r.known, Exhaustive: r.exhaust, Notes: r.notes}
	for h := range r.nt {
		f.NT = append(f.NT, h)
	}
	sort.Slice(f.NT, func(i, j int) bool { return f.NT[i] < f.NT[j] })
	b, _ := json.Marshal(f)
	os.WriteFile(filepath.Join(outDir(), fmt.Sprintf("frag-%s-%d.json", sanitize(r.Test), shard())), b, 0o644)
}
