package vh

// C14 — template length and tag position do not change how a template is read.
//
// Oracle (metamorphic): render(pad(T)) == render(T with unique sentinels at the insertion
// points) with every sentinel replaced by the literal text of its padding (comments
// contribute nothing); parse success must be identical.

import (
	"fmt"
	"github.com/semihalev/twig"
	"os"
	"path/filepath"
	"strings"
	"testing"
	"time"

	"pgregory.net/rapid"
)

type Pad struct {
	At    int    `json:"at"`    // insertion point: index into the flattened list of points
	Kind  string `json:"kind"`  // text | comments
	Size  int    `json:"size"`  // bytes of text, or number of comments
	Unit  string `json:"unit"`  // repeated unit of the text
	Inner bool   `json:"inner"` // inside the body of the compound statement at that index
}

type C14Case struct {
	Ctx  Ctx   `json:"ctx"`
	Body []*S  `json:"body"`
	Pads []Pad `json:"pads"`
}

func padText(p Pad) string {
	if p.Kind != "text" {
		return ""
	}
	unit := p.Unit
	if unit == "" {
		unit = "pad."
	}
	var b strings.Builder
	b.WriteString("<")
	for b.Len() < p.Size-1 {
		b.WriteString(unit)
	}
	b.WriteString(">")
	return b.String()
}

func padNodes(p Pad) []*S {
	if p.Kind == "text" {
		return []*S{Text(padText(p))}
	}
	if p.Kind == "longcomment" {
		// one comment whose body has p.Size bytes
		return []*S{{K: "comment", T: BStr(" " + strings.Repeat("c{{ spy(1) }}", p.Size/13+1)[:p.Size] + " ")}}
	}
	out := make([]*S, 0, p.Size)
	for i := 0; i < p.Size; i++ {
		// empty, plain, tag syntax, and the characters that mean something elsewhere in the
		// language (quotes that never close, dashes next to the blank after the delimiter)
		body := []string{"", " c ", " {{ spy(1) }} ", " don't touch ", " say \"hi ", " - note ", " ---- section ---- ", " see above - ", " it's \"both' ", " %} }} "}[i%10]
		out = append(out, &S{K: "comment", T: BStr(body)})
	}
	return out
}

// insert returns the body with nodes(p) inserted for every pad.
func c14Insert(body []*S, pads []Pad, nodes func(i int, p Pad) []*S) []*S {
	out := cloneBodyNoMerge(body)
	// process pads from the highest insertion point down so indices stay valid
	order := make([]int, len(pads))
	for i := range order {
		order[i] = i
	}
	for i := 0; i < len(order); i++ {
		for j := i + 1; j < len(order); j++ {
			if pads[order[j]].At > pads[order[i]].At {
				order[i], order[j] = order[j], order[i]
			}
		}
	}
	for _, pi := range order {
		p := pads[pi]
		at := p.At
		if at > len(out) {
			at = len(out)
		}
		if p.Inner && at < len(out) {
			s := out[at]
			switch s.K {
			case "for":
				s.Body = append(nodes(pi, p), s.Body...)
				continue
			case "if":
				s.Bodies[0] = append(nodes(pi, p), s.Bodies[0]...)
				continue
			}
		}
		ins := nodes(pi, p)
		out = append(out[:at], append(ins, out[at:]...)...)
	}
	return out
}

func cloneBodyNoMerge(b []*S) []*S {
	out := make([]*S, len(b))
	for i, s := range b {
		cp := *s
		cp.Body = cloneBodyNoMerge(s.Body)
		cp.Else = cloneBodyNoMerge(s.Else)
		if s.Bodies != nil {
			cp.Bodies = make([][]*S, len(s.Bodies))
			for j, bb := range s.Bodies {
				cp.Bodies[j] = cloneBodyNoMerge(bb)
			}
		}
		out[i] = &cp
	}
	return out
}

func sentinel(i int) string { return fmt.Sprintf("\x01S%d\x02", i) }

func checkC14(c C14Case) error {
	padded := c14Insert(c.Body, c.Pads, func(i int, p Pad) []*S { return padNodes(p) })
	marked := c14Insert(c.Body, c.Pads, func(i int, p Pad) []*S { return []*S{Text(sentinel(i))} })
	srcP := PrintBody(padded, SPrint{})
	srcM := PrintBody(marked, SPrint{})
	run := func(src string) (Res, int) {
		e := newEngine(map[string]string{"main": src})
		sp := NewSpies()
		sp.Install(e)
		return render(e, "main", c.Ctx.Go()), sp.Count()
	}
	rm, nm := run(srcM)
	rp, np := run(srcP)
	short := func(s string) string {
		if len(s) > 400 {
			return s[:200] + "…(" + fmt.Sprint(len(s)) + " bytes)…" + s[len(s)-150:]
		}
		return s
	}
	if rm.Panic != "" || rp.Panic != "" {
		return fmt.Errorf("panic: unpadded %v, padded %v; unpadded source %s; padded source %s", rm, rp, q(srcM), q(short(srcP)))
	}
	if (rm.Err != "") != (rp.Err != "") {
		return fmt.Errorf("padding changes whether the template renders: with sentinels %v, padded (%d bytes) %v; source with sentinels %s; padded source %s", rm, len(srcP), rp, q(srcM), q(short(srcP)))
	}
	if rm.Err != "" {
		return nil
	}
	want := rm.Out
	for i, p := range c.Pads {
		want = strings.ReplaceAll(want, sentinel(i), padText(p))
	}
	if rp.Out != want {
		// locate first difference
		k := 0
		for k < len(want) && k < len(rp.Out) && want[k] == rp.Out[k] {
			k++
		}
		lo := k - 40
		if lo < 0 {
			lo = 0
		}
		hw, hg := k+60, k+60
		if hw > len(want) {
			hw = len(want)
		}
		if hg > len(rp.Out) {
			hg = len(rp.Out)
		}
		return fmt.Errorf("padded template (%d bytes) renders differently at output offset %d: got …%s… want …%s…; source with sentinels %s; padded source %s", len(srcP), k, q(rp.Out[lo:hg]), q(want[lo:hw]), q(srcM), q(short(srcP)))
	}
	if nm != np {
		return fmt.Errorf("padding changed the number of spy invocations from %d to %d (a comment was evaluated?)", nm, np)
	}
	return nil
}

var c14Sizes = []int{1, 7, 64, 1000, 4000, 4090, 4095, 4096, 4097, 4100, 5000, 8192, 20000, 65536, 100000}

func tokenEstimate(body []*S) int {
	var ls []lin
	linearize(cloneBodyNoMerge(body), &ls)
	return len(ls) * 3
}

const c14Rule = "a control-flow program (C09 grammar, with or without whitespace-control dashes) and a padding plan: 1-3 insertion points (before, between, after top-level constructs and inside loop/if bodies) filled with literal text of a size drawn from {1,7,64,1000,4000,4090,4095,4096,4097,4100,5000,8192,20000,65536,100000} (thorough: up to 300000) or with 1..400 comments (empty, plain, with tag syntax, with unbalanced quotes, with dashes inside the blanks; token-count thresholds 32 and 1000); non-trivial = the unpadded source is <= 4096 bytes and the padded one is > 4096 bytes, or the comment padding crosses 32 or 1000 tokens; distinct by (context, source, plan)"

func TestC14Padding(t *testing.T) {
	r := NewRec(t, "C14", c14Rule)
	defer r.Flush()
	rapid.Check(t, func(rt *rapid.T) {
		g := newSgen(rt, flowCtx(rt))
		g.dashes = rapid.Bool().Draw(rt, "withdashes")
		g.wstext = g.dashes
		g.x.spacing = false
		g.budget = 14
		body := g.program(rapid.IntRange(1, 2).Draw(rt, "depth"))
		np := rapid.IntRange(1, 3).Draw(rt, "npads")
		var pads []Pad
		for i := 0; i < np; i++ {
			p := Pad{At: rapid.IntRange(0, len(body)).Draw(rt, "at"), Inner: rapid.IntRange(0, 3).Draw(rt, "inner") == 0}
			if !g.dashes && rapid.IntRange(0, 2).Draw(rt, "padkind") == 0 {
				p.Kind = "comments"
				p.Size = rapid.SampledFrom([]int{1, 2, 9, 10, 11, 12, 40, 330, 334, 340, 400}).Draw(rt, "ncomments")
				if rapid.IntRange(0, 2).Draw(rt, "onelong") == 0 {
					p.Kind = "longcomment"
					p.Size = rapid.SampledFrom([]int{0, 1, 4000, 4096, 5000, 65535, 65536, 65537, 70000, 100000}).Draw(rt, "commentlen")
				}
			} else {
				p.Kind = "text"
				sizes := c14Sizes
				if thorough() {
					sizes = append(append([]int{}, c14Sizes...), 200000, 300000)
				}
				p.Size = rapid.SampledFrom(sizes).Draw(rt, "size")
				p.Unit = rapid.SampledFrom([]string{"pad.", "x", "é", "}%#", "a\nb"}).Draw(rt, "unit")
			}
			pads = append(pads, p)
		}
		c := C14Case{Ctx: g.x.ctx, Body: body, Pads: pads}
		base := PrintBody(body, SPrint{})
		padded := PrintBody(c14Insert(body, pads, func(i int, p Pad) []*S { return padNodes(p) }), SPrint{})
		ncom := 0
		for _, p := range pads {
			if p.Kind == "comments" {
				ncom += p.Size
			}
		}
		bt := tokenEstimate(body)
		crossTok := ncom > 0 && ((bt < 32 && bt+3*ncom >= 32) || (bt < 1000 && bt+3*ncom >= 1000))
		nt := (len(base) <= 4096 && len(padded) > 4096) || crossTok
		var cl []string
		if len(padded) > 4096 {
			cl = append(cl, "padded>4096")
		}
		if len(padded) > 65536 {
			cl = append(cl, "padded>64K")
		}
		if crossTok {
			cl = append(cl, "crosses-token-threshold")
		}
		if g.dashes {
			cl = append(cl, "with-dashes")
		}
		r.Case(base+fmt.Sprint(pads)+showModel(c.Ctx.Model()), nt, map[string]interface{}{"src": base, "pads": pads}, cl...)
		if err := checkC14(c); err != nil {
			r.Fail(rt, "C14.pad", c, err)
		}
	})
}

// TestC14Thresholds: one fixed feature-rich template per tag kind, padded to exact total
// lengths around the 4096-byte tokenizer switch, with the padding before, inside and after.
func TestC14Thresholds(t *testing.T) {
	r := NewRec(t, "C14", "exhaustive: each C13 tag-kind template (print, if, for, set, do, block, apply, spaceless, verbatim, include, macro, import, from, extends) with each single dash variant, padded at the start, in the middle and at the end to total lengths 4094..4099 and 8192, compared with the unpadded rendering; all cases non-trivial")
	defer r.Flush()
	r.SetExhaustive()
	ctx := Ctx{}
	ctx.Set("a", Int(7))
	ctx.Set("t", Bool(true))
	ctx.Set("f", Bool(false))
	ctx.Set("xs", List(Int(1), Int(2)))
	ctx.Set("es", List())
	kinds := c13Kinds()
	var names []string
	for k := range kinds {
		names = append(names, k)
	}
	sortStrings(names)
	for _, kn := range names {
		ntags := countTags(kinds[kn]()[0])
		for k := -1; k < ntags; k++ {
			for _, bits := range []int{1, 2, 3} {
				if k == -1 && bits != 1 {
					continue
				}
				set := kinds[kn]()
				if k >= 0 {
					kk := k
					if !setDashK(set[0].Body, &kk, bits) {
						continue
					}
				}
				srcs := set.Sources(SPrint{})
				base := srcs["main"]
				e0 := newEngine(srcs)
				NewSpies().Install(e0)
				r0 := render(e0, "main", ctx.Go())
				for _, total := range []int{4094, 4095, 4096, 4097, 4098, 4099, 8192} {
					for _, where := range []string{"after", "before"} {
						if where == "before" && set[0].Extends != nil {
							continue
						}
						n := total - len(base)
						if n < 2 {
							continue
						}
						pad := "<" + strings.Repeat("p", n-2) + ">"
						var src, want string
						if set[0].Extends != nil {
							// text outside blocks of a child produces no output
							src, want = base+pad, r0.Out
						} else if where == "after" {
							src, want = base+pad, r0.Out+pad
						} else {
							src, want = pad+base, pad+r0.Out
						}
						srcs2 := map[string]string{}
						for k2, v := range srcs {
							srcs2[k2] = v
						}
						srcs2["main"] = src
						e := newEngine(srcs2)
						NewSpies().Install(e)
						rr := render(e, "main", ctx.Go())
						r.Case(fmt.Sprint(kn, k, bits, total, where), true, q(base)+fmt.Sprintf(" padded %s to %d bytes", where, total), "kind:"+kn)
						if rr.Failed() != r0.Failed() || (!rr.Failed() && rr.Out != want) {
							r.FailEnum(t, "C14.src", C14SrcCase{Templates: srcs, Padded: srcs2, Ctx: ctx, PadText: pad, Where: where},
								fmt.Errorf("template %s renders %v unpadded but %v when padded %s to %d bytes", q(base), r0, short(rr), where, total))
						}
					}
				}
			}
		}
	}
}

func short(r Res) string {
	s := r.String()
	if len(s) > 300 {
		return s[:150] + "…" + s[len(s)-100:]
	}
	return s
}

// C14SrcCase is the source-level replay form used by the threshold enumeration.
type C14SrcCase struct {
	Templates map[string]string `json:"templates"`
	Padded    map[string]string `json:"padded"`
	Ctx       Ctx               `json:"ctx"`
	PadText   string            `json:"pad_text"`
	Where     string            `json:"where"`
}

func checkC14Src(c C14SrcCase) error {
	e0 := newEngine(c.Templates)
	NewSpies().Install(e0)
	r0 := render(e0, "main", c.Ctx.Go())
	e1 := newEngine(c.Padded)
	NewSpies().Install(e1)
	r1 := render(e1, "main", c.Ctx.Go())
	if r0.Failed() != r1.Failed() {
		return fmt.Errorf("unpadded %v, padded %v", r0, short(r1))
	}
	if r0.Failed() {
		return nil
	}
	want := r0.Out
	switch {
	case strings.Contains(c.Templates["main"], "extends"):
	case c.Where == "after":
		want += c.PadText
	default:
		want = c.PadText + want
	}
	if r1.Out != want {
		return fmt.Errorf("unpadded %v, padded %v", r0, short(r1))
	}
	return nil
}

func init() {
	reg("C14.pad", checkC14)
	reg("C14.src", checkC14Src)
}

// ---- arbitrary (also malformed) sources below and above the tokenizer switch -----------------------

type C14SoupCase struct {
	Src BStr `json:"src"`
	Pad int  `json:"pad"`
}

func checkC14Soup(c C14SoupCase) error {
	src := string(c.Src)
	pad := strings.Repeat("p", c.Pad)
	tm := map[string]string{"inc1": "I{{ a }}", "t1": "T[{% block b %}{% endblock %}]", "lib": "{% macro m0(x) %}M{{ x }}{% endmacro %}"}
	ctx := map[string]interface{}{"a": 1, "b": "bee", "xs": []interface{}{3, 1, 2}, "m": map[string]interface{}{"k1": 4}}
	run := func(s string) Res {
		e := newEngine(tm)
		NewSpies().Install(e)
		return guardT(10*time.Second, func() (string, error) {
			t, err := e.ParseTemplate(s)
			if err != nil {
				return "", err
			}
			return t.Render(ctx)
		})
	}
	small, big := run(src), run(src+pad)
	if small.Hang || big.Hang {
		return nil // non-termination is C05's subject
	}
	if small.Panic != "" || big.Panic != "" {
		if (small.Panic != "") != (big.Panic != "") {
			return fmt.Errorf("source %s: %v as written but %v with %d bytes of literal text appended", q(trunc(src)), small, short(big), c.Pad)
		}
		return nil // panics alike: C05's subject
	}
	if (small.Err != "") != (big.Err != "") {
		return fmt.Errorf("appending %d bytes of literal text changes whether the source is accepted: %s gives %v as written, %v when longer", c.Pad, q(trunc(src)), small, short(big))
	}
	if small.Err != "" {
		return nil
	}
	if big.Out != small.Out+pad && !(strings.Contains(src, "extends") && big.Out == small.Out) {
		return fmt.Errorf("source %s renders %s as written but %s with %d bytes of literal text appended", q(trunc(src)), q(small.Out), q(trunc(big.Out)), c.Pad)
	}
	return nil
}

func TestC14Soup(t *testing.T) {
	r := NewRec(t, "C14", "sources assembled from syntax fragments (valid tags, dashes, keywords, quotes, backslashes, raw bytes), often malformed, read once as written and once with 4100..9000 bytes of plain literal text appended, i.e. by the two tokenizers; oracle: accepted in both or in neither, and the longer one renders the shorter one's output plus the text; non-trivial = the source contains a tag delimiter and is <= 4096 bytes")
	defer r.Flush()
	frags := append([]string{}, hostileTokens...)
	frags = append(frags, " ", " ", "\n", "a", "xs", "m.k1", "{{ a }}", "{{ a -}}", "{{- a }}", "{%- if a -%}", "{% if a %}", "{% for i in xs %}", "{% endfor %}", "{% endif -%}", "{% set v = 1 %}", "{% include 'inc1' %}",
		"{% extends 't1' %}", "{% block b %}", "{% endblock %}", "{% macro m(x, y = 1) %}", "{% endmacro %}", "{% import 'lib' as l %}", "{% verbatim %}", "{% endverbatim %}", "{% apply upper %}", "{% endapply %}",
		"{#", "#}", "{# c #}", "{##}", "\\{{", "\\{%", "{{-}}", "{%-%}", "{{}}", "{%%}", "{{ 'a}}b' }}", "{{ \"%}\" }}", "a|b", "[1, 2]", "{'k': 1}", "'str'", "\"dq\"", "{% else %}", "-}}", "-%}", "{{-", "{%-",
		// comments where the token stream shows them: inside verbatim, against dashed delimiters
		"{% verbatim %}a{# c #}b{% endverbatim %}", " {# c #}{{- a }}", "{{ a -}}{# c #} ", "{#- c -#}", " \n{# c #}{%- if a %}y{% endif -%}{# d #}\n ", "{% verbatim %}{{ a }}{# #}{% if %}{% endverbatim %}")
	rapid.Check(t, func(rt *rapid.T) {
		n := rapid.IntRange(1, 12).Draw(rt, "n")
		var b strings.Builder
		for i := 0; i < n; i++ {
			if rapid.IntRange(0, 11).Draw(rt, "raw") == 0 {
				b.Write(rapid.SliceOfN(rapid.Byte(), 1, 3).Draw(rt, "bytes"))
			} else {
				b.WriteString(rapid.SampledFrom(frags).Draw(rt, "frag"))
			}
		}
		c := C14SoupCase{Src: BStr(b.String()), Pad: rapid.SampledFrom([]int{4100, 4200, 9000}).Draw(rt, "pad")}
		src := string(c.Src)
		r.Case(src, strings.Contains(src, "{{") || strings.Contains(src, "{%") || strings.Contains(src, "{#"), q(trunc(src)))
		if err := checkC14Soup(c); err != nil {
			r.Fail(rt, "C14.soup", c, err)
		}
	})
}

func init() { reg("C14.soup", checkC14Soup) }

// ---- sizes x routes -------------------------------------------------------------------------------

type C14RouteCase struct {
	Route string `json:"route"` // register | loader | file | filechain | parse | registerTemplate | compiled
	Pad   int    `json:"pad"`
}

func checkC14Route(c C14RouteCase) error {
	pad := strings.Repeat("0123456789abcdef", c.Pad/16+1)[:c.Pad]
	src := "A{{ a }}<" + pad + ">{% if a %}{{ a }}{% endif %}Z"
	want := "A7<" + pad + ">7Z"
	ctx := map[string]interface{}{"a": 7}
	var e *twig.Engine
	var root string
	defer func() {
		if root != "" {
			os.RemoveAll(root)
		}
	}()
	r := guard(func() (string, error) {
		e = twig.New()
		switch c.Route {
		case "file", "filechain":
			var err error
			if root, err = os.MkdirTemp(workDir(), "c14-"); err != nil {
				return "", err
			}
			if err := os.WriteFile(filepath.Join(root, "big.twig"), []byte(src), 0o644); err != nil {
				return "", err
			}
			if c.Route == "file" {
				e.RegisterLoader(twig.NewFileSystemLoader([]string{root}))
			} else {
				e.RegisterLoader(twig.NewChainLoader([]twig.Loader{twig.NewArrayLoader(map[string]string{"other": "o"}), twig.NewFileSystemLoader([]string{filepath.Join(root, "none"), root})}))
			}
		case "register":
			if err := e.RegisterString("big", src); err != nil {
				return "", err
			}
		case "loader":
			e.RegisterLoader(twig.NewArrayLoader(map[string]string{"big": src}))
		case "parse":
			t, err := e.ParseTemplate(src)
			if err != nil {
				return "", err
			}
			return t.Render(ctx)
		case "registerTemplate":
			t, err := e.ParseTemplate(src)
			if err != nil {
				return "", err
			}
			e.RegisterTemplate("big", t)
		case "compiled":
			data, err := twig.SerializeCompiledTemplate(&twig.CompiledTemplate{Name: "big", Source: src, LastModified: 1700000000, CompileTime: 1700000001})
			if err != nil {
				return "", err
			}
			if err := e.LoadFromCompiledData(data); err != nil {
				return "", err
			}
		}
		return e.Render("big", ctx)
	})
	if r.Failed() || r.Out != want {
		return fmt.Errorf("route %s, %d bytes of literal text in the middle: %s (output %d bytes, want %d)", c.Route, c.Pad, firstLine(r.Err)+r.Panic, len(r.Out), len(want))
	}
	if c.Route != "parse" {
		// through RenderTo into a writer that has only Write
		if rp := renderPlain(e, "big", ctx); rp.Failed() || rp.Out != want {
			return fmt.Errorf("route %s, %d bytes of literal text in the middle, RenderTo into a writer without WriteString: %s (output %d bytes, want %d)", c.Route, c.Pad, firstLine(rp.Err)+rp.Panic, len(rp.Out), len(want))
		}
		// and again, and through an include
		e.RegisterString("outer", "[{% include 'big' %}]")
		for _, name := range []string{"big", "outer"} {
			r2 := render(e, name, ctx)
			w2 := want
			if name == "outer" {
				w2 = "[" + want + "]"
			}
			if r2.Failed() || r2.Out != w2 {
				return fmt.Errorf("route %s, %d bytes: second use through %q: %s (output %d bytes, want %d)", c.Route, c.Pad, name, firstLine(r2.Err)+r2.Panic, len(r2.Out), len(w2))
			}
		}
	}
	return nil
}

// TestC14Routes: the same small program around literal text of growing size, registered,
// loaded, parsed, registered as a template object and loaded from compiled data.
func TestC14Routes(t *testing.T) {
	r := NewRec(t, "C14", "exhaustive: seven ways of getting a template into an engine (RegisterString, array loader, a file under a FileSystemLoader, the same behind a ChainLoader, ParseTemplate, RegisterTemplate, compiled data) x literal text of 0 .. 2 MiB around the powers of two (4096, 8192, 32768, 65536, 131072, 262144, 1048576, 2097152, each -1/0/+1) in the middle of a small program; rendered, rendered again and included; oracle: program output with the text in place; non-trivial = text above 4096 bytes")
	defer r.Flush()
	r.SetExhaustive()
	var pads []int
	for _, p := range []int{4096, 8192, 32768, 65536, 131072, 262144, 1 << 20, 2 << 20} {
		pads = append(pads, p-1, p, p+1)
	}
	pads = append(pads, 0, 1, 100)
	for _, route := range []string{"register", "loader", "file", "filechain", "parse", "registerTemplate", "compiled"} {
		for _, p := range pads {
			c := C14RouteCase{Route: route, Pad: p}
			r.Case(fmt.Sprint(route, p), p > 4096, c, "route:"+route)
			if err := checkC14Route(c); err != nil {
				r.FailEnumKey(t, "C14.route", route, c, err)
			}
		}
	}
}

func init() { reg("C14.route", checkC14Route) }

// ---- a comment inserted next to blank-edged text -----------------------------------------------------

type C14CommentCase struct {
	Left  BStr `json:"left"`
	Body  BStr `json:"body"` // comment body; never starts or ends with '-' directly at the delimiter
	Right BStr `json:"right"`
	Tail  int  `json:"tail"` // bytes of literal text appended (size class)
	Form  int  `json:"form"` // what follows the right text: nothing, a print tag, a block
}

// checkC14Comment: L{# body #}R renders as LR, byte for byte, whatever the comment says and
// whatever blanks L ends in and R starts with.
func checkC14Comment(c C14CommentCase) error {
	after, afterOut := "", ""
	switch c.Form % 3 {
	case 1:
		after, afterOut = "{{ a }}", "7"
	case 2:
		after, afterOut = "{% if a %}y{% endif %}", "y"
	}
	tail := strings.Repeat("0123456789abcdef", c.Tail/16)
	src := after + string(c.Left) + "{#" + string(c.Body) + "#}" + string(c.Right) + after + tail
	want := afterOut + string(c.Left) + string(c.Right) + afterOut + tail
	r := render(newEngine(map[string]string{"main": src}), "main", map[string]interface{}{"a": 7})
	if r.Failed() || r.Out != want {
		return fmt.Errorf("a comment between %s and %s changes more than itself: %v, want %s; source %s", q(string(c.Left)), q(string(c.Right)), trunc(fmt.Sprint(r)), q(trunc(want)), q(trunc(src)))
	}
	return nil
}

func TestC14Comments(t *testing.T) {
	r := NewRec(t, "C14", "exhaustive: one comment out of 16 bodies (empty, plain, tag syntax, unbalanced quotes, dashes inside the blanks, line breaks, boxed) between texts with 6 x 6 blank edges (none, space, LF, CRLF, tab, blank line), followed by nothing / a print tag / a block, in a short template and in ones padded beyond 4096 and 32768 bytes; oracle: the text without the comment; non-trivial = a blank edge next to the comment")
	defer r.Flush()
	r.SetExhaustive()
	bodies := []string{"", " ", " c ", " {{ spy(1) }} ", " don't touch ", " say \"hi ", " - note ", " ---- section ---- ", " see above - ", " it's \"both' ", " %} }} ", "\n * boxed\n * comment\n ", " a\n", "\n-\n", " -", "- ", " # "}
	edgesL := []string{"x", "x ", "x\n", "x\r\n", "x\t", "x\n\n  "}
	edgesR := []string{"y", " y", "\ny", "\r\ny", "\ty", "  \n\ny"}
	for _, b := range bodies {
		if strings.HasPrefix(b, "-") || strings.HasSuffix(b, "-") {
			continue // {#- and -#} are whitespace control on comments: not claimed either way
		}
		for li, l := range edgesL {
			for ri, rr := range edgesR {
				for form := 0; form < 3; form++ {
					for _, tail := range []int{0, 4800, 40000} {
						if tail == 40000 && (li+ri+form)%4 != 0 {
							continue
						}
						c := C14CommentCase{Left: BStr(l), Body: BStr(b), Right: BStr(rr), Tail: tail, Form: form}
						r.Case(fmt.Sprint(q(b), li, ri, form, tail), li > 0 || ri > 0, q(l+"{#"+b+"#}"+rr))
						if err := checkC14Comment(c); err != nil {
							r.FailEnumKey(t, "C14.comment", q(b)+fmt.Sprint(tail), c, err)
						}
					}
				}
			}
		}
	}
}

func init() { reg("C14.comment", checkC14Comment) }

// TestC14Names: templates whose identifiers differ only in letter case, below and above the
// tokenizer switch (name tables that the two tokenizers fill differently must not decide what a
// name means).
func TestC14Names(t *testing.T) {
	r := NewRec(t, "C14", "exhaustive: 10 templates that use variables, attributes, filters' arguments and set targets whose names differ only in letter case (name / Name / NAME, id / ID / Id, x.title / x.Title), as written and with 4100 bytes of text before / after; oracle: same output apart from the text, and the expected values; all cases non-trivial")
	defer r.Flush()
	r.SetExhaustive()
	ctx := Ctx{}
	ctx.Set("name", Str("lower"))
	ctx.Set("Name", Str("Capital"))
	ctx.Set("NAME", Str("UPPER"))
	ctx.Set("id", Int(1))
	ctx.Set("ID", Int(2))
	ctx.Set("Id", Int(3))
	ctx.Set("x", Hash([]string{"title", "Title"}, []*E{Str("t"), Str("T")}))
	srcs := [][2]string{{"{{ name }}|{{ Name }}|{{ NAME }}", "lower|Capital|UPPER"}, {"{{ NAME }}|{{ Name }}|{{ name }}", "UPPER|Capital|lower"}, {"{{ id }}{{ ID }}{{ Id }}", "123"}, {"{{ Id }}{{ ID }}{{ id }}", "321"},
		{"{% if Name == 'Capital' %}a{% endif %}{% if name == 'lower' %}b{% endif %}", "ab"}, {"{{ x.title }}{{ x.Title }}|{{ x.Title }}{{ x.title }}", "tT|Tt"}, {"{% set Total = 5 %}{% set total = 6 %}{{ Total }}{{ total }}", "56"},
		{"{% for Item in [1] %}{% for item in [2] %}{{ Item }}{{ item }}{% endfor %}{% endfor %}", "12"}, {"{{ name|default(Name) }}{{ nope|default(NAME) }}", "lowerUPPER"}, {"{{ ID + id * Id }}", "5"}}
	pad := strings.Repeat("0123456789abcdef", 257)
	for _, sc := range srcs {
		for _, where := range []string{"", "before", "after"} {
			src, want := sc[0], sc[1]
			switch where {
			case "before":
				src, want = pad+src, pad+want
			case "after":
				src, want = src+pad, want+pad
			}
			c := C14NameCase{Src: src, Want: want, Ctx: ctx}
			r.Case(sc[0]+where, true, sc[0]+" / "+where)
			if err := checkC14Name(c); err != nil {
				r.FailEnumKey(t, "C14.names", sc[0], c, err)
			}
		}
	}
}

type C14NameCase struct {
	Src  string `json:"src"`
	Want string `json:"want"`
	Ctx  Ctx    `json:"ctx"`
}

func checkC14Name(c C14NameCase) error {
	r := render(newEngine(map[string]string{"main": c.Src}), "main", c.Ctx.Go())
	if r.Failed() || r.Out != c.Want {
		return fmt.Errorf("names that differ only in letter case: %s renders %s, want %s", q(trunc(c.Src)), trunc(fmt.Sprint(r)), q(trunc(c.Want)))
	}
	return nil
}

func init() { reg("C14.names", checkC14Name) }
