package vh

// C20 — attribute access returns the right member whatever was looked up before.
//
// Oracle: direct reflection on the Go value computed by the harness (FieldByName incl.
// promoted fields, zero-argument methods on value and pointer receivers, map index), printed
// through the same observer ({{ v }}); absent => empty. The answer for a (value, name) pair
// must be the same at every point of a history that floods the process-wide attribute cache.

import (
	"fmt"
	"reflect"
	"strings"
	"sync"
	"testing"
	"time"

	"github.com/semihalev/twig"
	"pgregory.net/rapid"
)

type ZField struct {
	Name     string   `json:"name"`
	Kind     string   `json:"kind"` // int | string | slice | struct | embed | hidden
	Sub      []ZField `json:"sub,omitempty"`
	Embedded bool     `json:"embedded,omitempty"`
}

type C20Step struct {
	Op   string `json:"op"`             // query | flood
	T    int    `json:"t,omitempty"`    // >= 0: generated type index; < 0: fixed family member
	Ptr  bool   `json:"ptr,omitempty"`  // pass a pointer to the value
	Attr string `json:"attr,omitempty"` // attribute name (may be a chain a.b)
	Idx  bool   `json:"idx,omitempty"`  // x['name'] instead of x.name
	N    int    `json:"n,omitempty"`    // flood size
	Kind string `json:"kind,omitempty"` // flood kind: names | types
}

type C20Case struct {
	Types [][]ZField `json:"types"`
	Steps []C20Step  `json:"steps"`
}

// ---- the hand-written method family ---------------------------------------------------------

type c20MV struct {
	A   int
	Lbl string
	hid string
}

func (m c20MV) Get() string   { return "get:" + m.Lbl }
func (m *c20MV) PGet() string { return "pget:" + m.Lbl }
func (m c20MV) Twice() int    { return 2 * m.A }

type c20Emb struct {
	c20MV
	B string
}

type c20Deep struct {
	c20Emb
	C int
}

type c20Shadow struct {
	c20MV
	A string // shadows c20MV.A
}

type c20Addr struct {
	City string
	Zip  int
}

// embedded pointer: promoted fields exist only when the pointer is set
type c20Person struct {
	*c20Addr
	Name string
}

// every method on the pointer, none on the value
type c20POnly struct {
	Lbl string
	A   int
}

func (p *c20POnly) Only() string { return "only:" + p.Lbl }
func (p *c20POnly) Count() int   { return p.A + 1 }

type c20Lang string

const c20NFixed = 22

func c20Fixed(t int) interface{} {
	mv := c20MV{A: 11, Lbl: "mv", hid: "secret"}
	switch t {
	case -1:
		return mv
	case -2:
		return c20Emb{mv, "bee"}
	case -3:
		return c20Deep{c20Emb{mv, "bee"}, 33}
	case -4:
		return c20Shadow{mv, "shadow"}
	case -5:
		return map[string]interface{}{"A": 1, "name": "untyped", "sub": map[string]interface{}{"z": 9}, "Get": "mapget"}
	case -6:
		return map[string]string{"A": "one", "name": "typed-ss", "B": "bee"}
	case -7:
		return map[string]int{"A": 5, "C": 6, "name": 7}
	case -8:
		return map[string]interface{}{"inner": map[string]string{"name": "deep"}, "st": c20Emb{mv, "nested"}}
	case -9:
		return c20Person{nil, "nobody"} // nil embedded pointer: City / Zip are absent
	case -10:
		return c20Person{&c20Addr{"Oslo", 150}, "someone"}
	case -11:
		return c20POnly{"po", 4}
	case -12:
		// interface-keyed (as YAML decoders return), with keys of other kinds next to the strings
		return map[interface{}]interface{}{"name": "iface-keyed", "A": 1, 1: "one", true: "yes", "sub": map[interface{}]interface{}{"z": 8}}
	case -13:
		// keyed by a named string type
		return map[c20Lang]string{"name": "named-key", "A": "a", "Lbl": "l"}
	case -15:
		// keys whose spelling inside a template string needs escapes
		return map[string]interface{}{"it's": "apostrophe", "say \"hi\"": "quotes", "C:\\temp": "backslash", "a\tb": "tab", "two words": "space", "name": "plain"}
	case -22:
		// names that collide under common string hashes
		return map[string]interface{}{"Ea": "ea", "FB": "fb", "Aa": "aa", "BB": "bb", "Siblings": "sib", "Teheran": "teh", "name": "colliding"}
	case -19:
		// structs whose fields are all zero are still structs: fields print 0 / '', methods run
		return c20MV{}
	case -20:
		return c20Deep{}
	case -21:
		return c20Addr{}
	case -16:
		// keys that look like numbers, canonical and not: each is its own key
		return map[string]interface{}{"02134": "zip-lead0", "2134": "zip", "+7": "plus7", "7": "seven", "007": "bond", "1": "one", "name": "digits"}
	case -17:
		return map[interface{}]interface{}{"1": "str-one", "02": "str-02", "name": "iface-digits"}
	case -18:
		return map[string]string{"01": "a", "1": "b", "7": "c"}
	case -14:
		return map[c20Lang]interface{}{"name": "named-key-2", "sub": map[string]interface{}{"z": 7}, "inner": map[c20Lang]string{"name": "deeper"}}
	}
	panic("fixed type")
}

var c20FixedAttrs = []string{"City", "Zip", "Name", "A", "B", "C", "Lbl", "Get", "PGet", "Twice", "hid", "name", "sub", "sub.z", "inner.name", "st.B", "st.A", "st.Get", "nope", "c20MV", "c20Emb", "Only", "Count", "it's", "say \"hi\"", "C:\\temp", "a\tb", "two words", "02134", "2134", "+7", "7", "007", "1", "02", "01", "Ea", "FB", "Aa", "BB", "Siblings", "Teheran"}

// ---- generated types ---------------------------------------------------------------------------

func c20BuildType(fields []ZField, path string) reflect.Type {
	var sf []reflect.StructField
	for _, f := range fields {
		var t reflect.Type
		switch f.Kind {
		case "int":
			t = reflect.TypeOf(0)
		case "string", "hidden":
			t = reflect.TypeOf("")
		case "slice":
			t = reflect.TypeOf([]int(nil))
		case "struct", "embed":
			t = c20BuildType(f.Sub, path+"."+f.Name)
		}
		s := reflect.StructField{Name: f.Name, Type: t, Anonymous: f.Kind == "embed"}
		if f.Kind == "hidden" {
			s.PkgPath = "twigverif"
		}
		sf = append(sf, s)
	}
	return reflect.StructOf(sf)
}

func c20Fill(v reflect.Value, fields []ZField, path string) {
	for i, f := range fields {
		fv := v.Field(i)
		p := path + "." + f.Name
		switch f.Kind {
		case "int":
			fv.SetInt(int64(len(p)*7 + i))
		case "string":
			fv.SetString("s" + p)
		case "slice":
			fv.Set(reflect.ValueOf([]int{len(p), i}))
		case "struct", "embed":
			c20Fill(fv, f.Sub, p)
		}
	}
}

func c20Value(c C20Case, t int, ptr bool) interface{} {
	if t < 0 {
		v := c20Fixed(t)
		if ptr && reflect.TypeOf(v).Kind() == reflect.Struct {
			p := reflect.New(reflect.TypeOf(v))
			p.Elem().Set(reflect.ValueOf(v))
			return p.Interface()
		}
		return v
	}
	typ := c20BuildType(c.Types[t], fmt.Sprintf("T%d", t))
	p := reflect.New(typ)
	c20Fill(p.Elem(), c.Types[t], fmt.Sprintf("T%d", t))
	if ptr {
		return p.Interface()
	}
	return p.Elem().Interface()
}

// c20Expect resolves one attribute by direct reflection.
func c20Resolve(v interface{}, attr string) (interface{}, bool) {
	if v == nil {
		return nil, false
	}
	rv := reflect.ValueOf(v)
	if rv.Kind() == reflect.Map {
		if rv.Type().Key().Kind() == reflect.Interface {
			// an interface-keyed map holds the attribute under the string key of that name
			mv := rv.MapIndex(reflect.ValueOf(attr))
			if !mv.IsValid() {
				return nil, false
			}
			return mv.Interface(), true
		}
		if rv.Type().Key().Kind() != reflect.String {
			return nil, false
		}
		mv := rv.MapIndex(reflect.ValueOf(attr).Convert(rv.Type().Key()))
		if !mv.IsValid() {
			return nil, false
		}
		return mv.Interface(), true
	}
	orig := rv
	if rv.Kind() == reflect.Ptr {
		if rv.IsNil() {
			return nil, false
		}
		rv = rv.Elem()
	}
	if rv.Kind() != reflect.Struct {
		return nil, false
	}
	if sf, ok := rv.Type().FieldByName(attr); ok && sf.PkgPath == "" {
		fv, err := rv.FieldByIndexErr(sf.Index)
		if err == nil {
			return fv.Interface(), true
		}
	}
	// zero-argument methods of the dynamic type: value receiver, then pointer receiver
	if m := rv.MethodByName(attr); m.IsValid() && m.Type().NumIn() == 0 && m.Type().NumOut() > 0 {
		return m.Call(nil)[0].Interface(), true
	}
	var pv reflect.Value
	if orig.Kind() == reflect.Ptr {
		pv = orig
	} else {
		pv = reflect.New(rv.Type())
		pv.Elem().Set(rv)
	}
	if m := pv.MethodByName(attr); m.IsValid() && m.Type().NumIn() == 0 && m.Type().NumOut() > 0 {
		return m.Call(nil)[0].Interface(), true
	}
	return nil, false
}

func c20Chain(v interface{}, attr string) (interface{}, bool) {
	cur := v
	for _, part := range strings.Split(attr, ".") {
		nv, ok := c20Resolve(cur, part)
		if !ok {
			return nil, false
		}
		cur = nv
	}
	return cur, true
}

var c20Engine = twig.New()

func c20Print(v interface{}) (string, error) {
	t, err := c20Engine.ParseTemplate("{{ v }}")
	if err != nil {
		return "", err
	}
	return t.Render(map[string]interface{}{"v": v})
}

func c20Query(v interface{}, attr string, idx bool) Res {
	expr := "x." + attr
	if idx {
		parts := strings.Split(attr, ".")
		expr = "x"
		if strings.ContainsAny(attr, "'\"\\\t\n ") {
			parts = []string{attr} // a key that needs quoting in the template is one key
		}
		for i, p := range parts {
			// both quote styles, with the escapes each needs
			expr += "[" + quoteTwig(p, (len(attr)+i)%2) + "]"
		}
	}
	return guardT(20*time.Second, func() (string, error) {
		t, err := c20Engine.ParseTemplate("{{ " + expr + " }}")
		if err != nil {
			return "", err
		}
		out, err := t.Render(map[string]interface{}{"x": v})
		// the template parsed for this expression the first time it was asked for in this process is
		// kept and rendered again: a parsed template answers like a fresh one, whatever was parsed since
		c20ParsedMu.Lock()
		old, seen := c20Parsed[expr]
		if !seen && len(c20Parsed) < 4000 {
			c20Parsed[expr] = t
		}
		c20ParsedMu.Unlock()
		if seen && err == nil {
			oldOut, oldErr := old.Render(map[string]interface{}{"x": v})
			if oldErr != nil || oldOut != out {
				return "", fmt.Errorf("the template parsed earlier in this process for {{ %s }} now renders %q (err %v), a freshly parsed one %q", expr, oldOut, oldErr, out)
			}
		}
		return out, err
	})
}

var c20Parsed = map[string]*twig.Template{}
var c20ParsedMu sync.Mutex

var c20FloodSerial int

// c20Flood performs n lookups of fresh (type, name) pairs; it reports a hang.
func c20Flood(kind string, n int) error {
	done := make(chan struct{})
	go func() {
		c20FloodRun(kind, n)
		close(done)
	}()
	select {
	case <-done:
		return nil
	case <-time.After(60 * time.Second):
		return fmt.Errorf("a flood of %d attribute lookups of fresh (type, name) pairs does not terminate (60 s): attribute access hangs", n)
	}
}

func c20FloodRun(kind string, n int) {
	for i := 0; i < n; i++ {
		c20FloodSerial++
		if kind == "types" {
			typ := reflect.StructOf([]reflect.StructField{{Name: fmt.Sprintf("F%d", c20FloodSerial), Type: reflect.TypeOf(0)}, {Name: "A", Type: reflect.TypeOf("")}})
			v := reflect.New(typ).Elem()
			v.Field(1).SetString("flood")
			t, _ := c20Engine.ParseTemplate("{{ x.A }}")
			t.Render(map[string]interface{}{"x": v.Interface()})
		} else {
			t, _ := c20Engine.ParseTemplate(fmt.Sprintf("{{ x.Q%d }}", c20FloodSerial))
			t.Render(map[string]interface{}{"x": c20MV{A: 1}})
		}
	}
}

func checkC20(c C20Case) error {
	type seen struct{ out string }
	first := map[string]string{}
	for si, st := range c.Steps {
		if st.Op == "flood" {
			if err := c20Flood(st.Kind, st.N); err != nil {
				return fmt.Errorf("step %d: %v", si, err)
			}
			continue
		}
		if !st.Idx && (strings.ContainsAny(st.Attr, "'\"\\\t\n +") || (st.Attr != "" && st.Attr[0] >= '0' && st.Attr[0] <= '9')) {
			continue // such a name can only be written in the index form
		}
		v := c20Value(c, st.T, st.Ptr)
		isMap := reflect.ValueOf(v).Kind() == reflect.Map
		if st.Idx {
			// x['name'] is only claimed for maps: every container on the chain must be one
			cur, ok := interface{}(v), isMap
			parts := strings.Split(st.Attr, ".")
			for _, p := range parts[:len(parts)-1] {
				if !ok {
					break
				}
				cur, ok = c20Resolve(cur, p)
				ok = ok && cur != nil && reflect.ValueOf(cur).Kind() == reflect.Map
			}
			if !ok {
				continue
			}
		}
		want := ""
		if ev, ok := c20Chain(v, st.Attr); ok {
			s, err := c20Print(ev)
			if err != nil {
				return fmt.Errorf("harness: printing the expected value failed: %v", err)
			}
			want = s
		}
		r := c20Query(v, st.Attr, st.Idx)
		form := "x." + st.Attr
		if st.Idx {
			form = "x['" + st.Attr + "']"
		}
		desc := fmt.Sprintf("step %d: %s on %T (type %d, ptr=%v)", si, form, v, st.T, st.Ptr)
		if r.Failed() {
			return fmt.Errorf("%s failed: %v", desc, r)
		}
		if r.Out != want {
			return fmt.Errorf("%s = %s, direct reflection gives %s", desc, q(r.Out), q(want))
		}
		key := fmt.Sprint(st.T, st.Ptr, st.Attr, st.Idx)
		if prev, ok := first[key]; ok && prev != r.Out {
			return fmt.Errorf("%s = %s now but %s earlier in the same history", desc, q(r.Out), q(prev))
		}
		first[key] = r.Out
	}
	return nil
}

// ---- generator -----------------------------------------------------------------------------------

// (Ea / FB and Aa / BB collide under the usual 31-multiplier string hash)
var c20Names = []string{"A", "B", "C", "D", "Name", "Lbl", "Zed", "Ea", "FB", "Aa", "BB"}

func genC20Fields(t *rapid.T, depth int, label string) []ZField {
	n := rapid.IntRange(1, 6).Draw(t, label+"nf")
	names := rapid.Permutation(c20Names).Draw(t, label+"names")[:n]
	var out []ZField
	for i, nm := range names {
		kind := rapid.SampledFrom([]string{"int", "string", "string", "slice", "struct", "embed", "hidden"}).Draw(t, label+"kind")
		f := ZField{Name: nm, Kind: kind}
		switch kind {
		case "struct", "embed":
			if depth <= 0 {
				f.Kind = "int"
			} else {
				f.Sub = genC20Fields(t, depth-1, fmt.Sprintf("%s%d", label, i))
				if kind == "embed" {
					f.Name = "Emb" + nm
				}
			}
		case "hidden":
			f.Name = "h" + strings.ToLower(nm)
		}
		out = append(out, f)
	}
	return out
}

func c20AttrsOf(fields []ZField, prefix string, out *[]string) {
	for _, f := range fields {
		*out = append(*out, prefix+f.Name)
		if f.Kind == "struct" {
			c20AttrsOf(f.Sub, prefix+f.Name+".", out)
		}
		if f.Kind == "embed" {
			c20AttrsOf(f.Sub, prefix, out) // promoted
		}
	}
}

func genC20(t *rapid.T) (C20Case, map[string]bool) {
	st := map[string]bool{}
	var c C20Case
	nt := rapid.IntRange(2, 4).Draw(t, "ntypes")
	for i := 0; i < nt; i++ {
		c.Types = append(c.Types, genC20Fields(t, 2, fmt.Sprintf("t%d", i)))
	}
	nsteps := rapid.IntRange(8, scale(40, 80)).Draw(t, "nsteps")
	for i := 0; i < nsteps; i++ {
		if rapid.IntRange(0, 9).Draw(t, "isflood") == 0 {
			n := rapid.SampledFrom([]int{1, 50, 400, 1001, 1500}).Draw(t, "floodn")
			if thorough() {
				n = rapid.SampledFrom([]int{1, 50, 400, 1001, 1500, 3000}).Draw(t, "floodn2")
			}
			c.Steps = append(c.Steps, C20Step{Op: "flood", N: n, Kind: rapid.SampledFrom([]string{"names", "names", "types"}).Draw(t, "floodkind")})
			if n >= 1000 {
				st["flood>=1000"] = true
			}
			continue
		}
		s := C20Step{Op: "query", Ptr: rapid.Bool().Draw(t, "ptr")}
		if rapid.IntRange(0, 2).Draw(t, "fixed") == 0 {
			s.T = -rapid.IntRange(1, c20NFixed).Draw(t, "fixedt")
			s.Attr = rapid.SampledFrom(c20FixedAttrs).Draw(t, "fattr")
			s.Idx = rapid.IntRange(0, 3).Draw(t, "idx") == 0
			st["method-family-or-maps"] = true
		} else {
			s.T = rapid.IntRange(0, nt-1).Draw(t, "gt")
			var attrs []string
			c20AttrsOf(c.Types[s.T], "", &attrs)
			attrs = append(attrs, c20Names...)
			attrs = append(attrs, "Nope")
			s.Attr = rapid.SampledFrom(attrs).Draw(t, "gattr")
		}
		c.Steps = append(c.Steps, s)
	}
	// shared names at different indices
	idx := map[string]map[int]bool{}
	for _, fs := range c.Types {
		for i, f := range fs {
			if idx[f.Name] == nil {
				idx[f.Name] = map[int]bool{}
			}
			idx[f.Name][i] = true
			if f.Kind == "embed" {
				st["promoted-field"] = true
			}
		}
	}
	for _, m := range idx {
		if len(m) >= 2 {
			st["same-name-different-index"] = true
		}
	}
	return c, st
}

const c20Rule = "histories of 8-40 (thorough 120) steps over 2-4 reflect.StructOf types (1-6 fields drawn from 7 shared names in random order, so equal names sit at different indices; int/string/slice/struct fields, embedded structs up to two levels with promoted and shadowed names, unexported fields), a hand-written method family (value and pointer receivers, embedded types' promoted methods, shadowing) and untyped/typed/nested maps; queries x.name, chained a.b, x['name'] on maps, absent names, values and pointers; flood steps perform 1..1500 (thorough 3000) lookups of fresh (type, name) pairs so that the 1000-entry cache evicts; non-trivial = two types share an attribute name at different indices, or a promoted field/method is involved, or a flood crosses 1000 entries; distinct by case"

func TestC20Attr(t *testing.T) {
	r := NewRec(t, "C20", c20Rule)
	defer r.Flush()
	rapid.Check(t, func(rt *rapid.T) {
		c, st := genC20(rt)
		var cl []string
		for k := range st {
			cl = append(cl, k)
		}
		sortStrings(cl)
		nt := st["same-name-different-index"] || st["promoted-field"] || st["flood>=1000"] || st["method-family-or-maps"]
		nq := 0
		for _, s := range c.Steps {
			if s.Op == "query" {
				nq++
			}
		}
		r.ClassN("lookups", nq)
		r.Case(fmt.Sprintf("%v", c), nt, c.Steps[:min(len(c.Steps), 6)], cl...)
		if err := checkC20(c); err != nil {
			r.Fail(rt, "C20.attr", c, err)
		}
	})
}

// TestC20Family: every (fixed value, attribute, value/pointer, form) combination, before and
// after flooding the cache past its capacity twice.
func TestC20Family(t *testing.T) {
	r := NewRec(t, "C20", "exhaustive: the 15 fixed values (method family incl. a type with pointer-receiver methods only, embedded pointers, maps: untyped, typed, interface-keyed, keyed by a named string type, string keys that need escapes when written in a template) x 23 attribute names x {value, pointer} x {x.name, x['name']}, asked three times with two floods of 1200 fresh (type, name) pairs in between; non-trivial = all")
	defer r.Flush()
	r.SetExhaustive()
	var steps []C20Step
	for t := -1; t >= -c20NFixed; t-- {
		for _, a := range c20FixedAttrs {
			for _, p := range []bool{false, true} {
				for _, idx := range []bool{false, true} {
					steps = append(steps, C20Step{Op: "query", T: t, Attr: a, Ptr: p, Idx: idx})
				}
			}
		}
	}
	all := append([]C20Step{}, steps...)
	all = append(all, C20Step{Op: "flood", N: 1200, Kind: "names"})
	all = append(all, steps...)
	all = append(all, C20Step{Op: "flood", N: 1200, Kind: "types"})
	all = append(all, steps...)
	c := C20Case{Steps: all}
	for i, s := range steps {
		r.Case(fmt.Sprint(i), true, s)
	}
	if err := checkC20(c); err != nil {
		r.FailEnum(t, "C20.attr", c, err)
	}
}

// ---- concurrent lookups across cache eviction -----------------------------------------------------

type C20ConcCase struct {
	Goroutines int `json:"goroutines"`
	Pairs      int `json:"pairs"`   // distinct (type, name) pairs in play (> 1000 forces eviction)
	Lookups    int `json:"lookups"` // per goroutine
	Seed       int `json:"seed"`
}

func checkC20Conc(c C20ConcCase) error {
	// pairs: StructOf types with one int field each plus the shared field "A"
	type pair struct {
		v    interface{}
		want string
	}
	pairs := make([]pair, c.Pairs)
	for i := range pairs {
		c20FloodSerial++
		typ := reflect.StructOf([]reflect.StructField{{Name: fmt.Sprintf("G%d", c20FloodSerial), Type: reflect.TypeOf(0)}, {Name: "A", Type: reflect.TypeOf("")}})
		v := reflect.New(typ).Elem()
		v.Field(1).SetString(fmt.Sprintf("val%d", i))
		pairs[i] = pair{v.Interface(), fmt.Sprintf("val%d", i)}
	}
	tmpl, err := c20Engine.ParseTemplate("{{ x.A }}")
	if err != nil {
		return err
	}
	var wg sync.WaitGroup
	errs := make(chan error, c.Goroutines)
	for g := 0; g < c.Goroutines; g++ {
		wg.Add(1)
		go func(g int) {
			defer wg.Done()
			state := uint64(c.Seed*7919 + g*104729 + 1)
			for i := 0; i < c.Lookups; i++ {
				state = state*6364136223846793005 + 1442695040888963407
				p := pairs[int(state>>33)%len(pairs)]
				out, err := tmpl.Render(map[string]interface{}{"x": p.v})
				if err != nil || out != p.want {
					errs <- fmt.Errorf("concurrent lookup %d of goroutine %d: x.A = %q (err %v), direct reflection gives %q (%d pairs in play, %d goroutines)", i, g, out, err, p.want, c.Pairs, c.Goroutines)
					return
				}
			}
		}(g)
	}
	done := make(chan struct{})
	go func() { wg.Wait(); close(done) }()
	select {
	case <-done:
	case <-time.After(120 * time.Second):
		return fmt.Errorf("concurrent attribute lookups do not terminate (120 s)")
	}
	close(errs)
	for err := range errs {
		return err
	}
	return nil
}

func TestC20Concurrent(t *testing.T) {
	r := NewRec(t, "C20", "8 goroutines x 20000 (thorough 60000) pseudo-random lookups of x.A over 300 / 1100 / 1500 distinct struct types, so that entries are evicted while other goroutines use them; every answer compared with the known field value; non-trivial = more pairs than the cache holds")
	defer r.Flush()
	for i, pairs := range []int{300, 1100, 1500} {
		c := C20ConcCase{Goroutines: 8, Pairs: pairs, Lookups: scale(20000, 60000), Seed: i + 1}
		r.Case(fmt.Sprint(c), pairs > 1000, c)
		r.Case(fmt.Sprint(c, "b"), pairs > 1000, c)
		if err := checkC20Conc(c); err != nil {
			r.FailEnum(t, "C20.conc", c, err)
		}
	}
}

func init() {
	reg("C20.attr", checkC20)
	reg("C20.conc", checkC20Conc)
}

// ---- a number as subscript of a map with string keys -----------------------------------------------------

type C20IntIndexCase struct {
	Typ  string `json:"typ"`
	Expr string `json:"expr"`
}

type c20NamedStrMap map[string]string

func c20IntIndexValue(typ string) interface{} {
	switch typ {
	case "map[string]string":
		return map[string]string{"1": "one", "0": "zero", "65": "sixty-five", "10": "ten"}
	case "map[string]int":
		return map[string]int{"1": 101, "0": 100, "65": 165, "10": 110, "z": 0}
	case "map[string]bool":
		return map[string]bool{"1": true, "0": false, "65": true, "10": false, "z": false}
	case "map[string]float64":
		return map[string]float64{"1": 1.5, "0": 0, "65": 65, "10": 0, "z": 0}
	case "named":
		return c20NamedStrMap{"1": "one", "0": "zero", "65": "sixty-five", "10": "ten"}
	case "map[string]iface-typed":
		return map[string]fmt.Stringer{"1": zStringer{"one"}, "0": zStringer{"zero"}, "65": zStringer{"sixty-five"}, "10": zStringer{"ten"}}
	}
	return nil
}

// checkC20IntIndex: x[1] on a map with string keys is the entry under "1" — for a typed Go map as
// for a map[string]interface{} of the same content.
func checkC20IntIndex(c C20IntIndexCase) error {
	typed := c20IntIndexValue(c.Typ)
	untyped := map[string]interface{}{}
	rv := reflect.ValueOf(typed)
	for _, k := range rv.MapKeys() {
		untyped[k.String()] = rv.MapIndex(k).Interface()
	}
	src := "{{ " + c.Expr + " }}|{{ " + strings.ReplaceAll(c.Expr, "x[", "x['k' ~ ") + " is defined ? 'd' : 'u' }}"
	src = "{{ " + c.Expr + " }}|{{ (" + c.Expr + ") is defined ? 'd' : 'u' }}"
	ctxT := map[string]interface{}{"x": typed, "i": 1, "j": 65, "f": 10.0}
	ctxU := map[string]interface{}{"x": untyped, "i": 1, "j": 65, "f": 10.0}
	rt, ru := render1(src, ctxT), render1(src, ctxU)
	if rt.Failed() != ru.Failed() || rt.Out != ru.Out {
		return fmt.Errorf("%s with x a %s gives %v, with x a map[string]interface{} of the same content %v", src, c.Typ, rt, ru)
	}
	return nil
}

func TestC20IntIndex(t *testing.T) {
	r := NewRec(t, "C20", "exhaustive: 6 typed Go maps with string keys that spell numbers (map[string]string, map[string]int, map[string]bool, map[string]float64, a named map type, a map of an interface type) x 16 subscripts (numbers as literals, variables, sums and a float; string keys whose entry holds 0 / false / 0.0, written as literal and computed; a key that is absent); oracle: the answer for a map[string]interface{} of the same content; all cases non-trivial")
	defer r.Flush()
	r.SetExhaustive()
	for _, typ := range []string{"map[string]string", "map[string]int", "named", "map[string]iface-typed", "map[string]bool", "map[string]float64"} {
		for _, ex := range []string{"x[1]", "x[0]", "x[65]", "x[10]", "x[i]", "x[j]", "x[i + 64]", "x[f]", "x[2]", "x['z']", "x['0']", "x['1' ~ '0']", "x['z'] == 0 ? 'zero' : 'other'", "x['z'] is null ? 'null' : 'nn'", "x.z", "x['nope']"} {
			c := C20IntIndexCase{Typ: typ, Expr: ex}
			r.Case(typ+ex, true, c)
			if err := checkC20IntIndex(c); err != nil {
				r.FailEnumKey(t, "C20.intindex", typ, c, err)
			}
		}
	}
}

func init() { reg("C20.intindex", checkC20IntIndex) }

// ---- one struct type reached by value and by pointer, inside and outside a sandbox, in either order ------------

type zBW1 struct{ Name, Zone string }

func (z zBW1) VName() string  { return "name:" + z.Name }
func (z *zBW1) PZone() string { return "zone:" + z.Zone }
func (z zBW1) ZLast() string  { return "last:" + z.Name }

type zBW2 struct{ Name, Zone string }

func (z zBW2) VName() string  { return "name:" + z.Name }
func (z *zBW2) PZone() string { return "zone:" + z.Zone }
func (z zBW2) ZLast() string  { return "last:" + z.Name }

type zBW3 struct{ Name string }

func (z zBW3) Label() string { return "L:" + z.Name }

type zBW4 struct{ Name string }

func (z zBW4) Label() string { return "L:" + z.Name }

type C20BothWaysCase struct {
	Which int `json:"which"`
}

// checkC20BothWays: each scenario uses a struct type of its own, so that the order of the first
// lookups of that type in this process is the one written here.
func checkC20BothWays(c C20BothWaysCase) error {
	const probe = "{{ x.VName }}|{{ x.PZone }}|{{ x.ZLast }}|{{ x.Name }}|{{ x.Zone }}"
	want := func(n, z string) string { return "name:" + n + "|zone:" + z + "|last:" + n + "|" + n + "|" + z }
	type step struct {
		x    interface{}
		want string
	}
	var steps []step
	switch c.Which % 4 {
	case 0: // through the pointer first, then by value, then the pointer again
		steps = []step{{&zBW1{"bob", "eu"}, want("bob", "eu")}, {zBW1{"ann", "us"}, want("ann", "us")}, {&zBW1{"cy", "as"}, want("cy", "as")}}
	case 1: // by value first
		steps = []step{{zBW2{"ann", "us"}, want("ann", "us")}, {&zBW2{"bob", "eu"}, want("bob", "eu")}, {zBW2{"cy", "as"}, want("cy", "as")}}
	case 2, 3:
		// a method first reached inside a sandboxed include, then by an ordinary engine (and the other
		// way round): the same value every time
		tm := map[string]string{"main": "[{% include 'child' sandboxed %}]", "child": "{{ item.Label }}|{{ item.Name }}", "plain": "[{{ item.Label }}|{{ item.Name }}]"}
		mk := func(name string) interface{} {
			if c.Which%4 == 2 {
				return zBW3{name}
			}
			return &zBW4{name}
		}
		order := []string{"main", "plain", "main", "plain"}
		if c.Which%4 == 3 {
			order = []string{"plain", "main", "plain", "main"}
		}
		for i, name := range order {
			e := newEngine(tm)
			pol := twig.NewDefaultSecurityPolicy()
			e.EnableSandbox(pol)
			r := render(e, name, map[string]interface{}{"item": mk(fmt.Sprint("n", i))})
			if w := fmt.Sprintf("[L:n%d|n%d]", i, i); r.Failed() || r.Out != w {
				return fmt.Errorf("step %d: template %q (%s) with item = %T renders %v, want %s", i, name, map[string]string{"main": "sandboxed include", "plain": "no sandbox"}[name], mk("x"), r, q(w))
			}
		}
		return nil
	}
	for i, s := range steps {
		r := render1(probe, map[string]interface{}{"x": s.x})
		if r.Failed() || r.Out != s.want {
			return fmt.Errorf("step %d: %s with x = %T renders %v, want %s", i, probe, s.x, r, q(s.want))
		}
	}
	return nil
}

func TestC20BothWays(t *testing.T) {
	r := NewRec(t, "C20", "exhaustive: 4 histories, each on a struct type of its own: value and pointer-receiver methods and fields looked up through *T first and T next, through T first and *T next, a method looked up inside a sandboxed include first and by an unsandboxed template next, and the reverse; oracle: the member's value at every step; all cases non-trivial")
	defer r.Flush()
	r.SetExhaustive()
	for i := 0; i < 4; i++ {
		c := C20BothWaysCase{Which: i}
		r.Case(fmt.Sprint(i), true, i)
		if err := checkC20BothWays(c); err != nil {
			r.FailEnum(t, "C20.bothways", c, err)
		}
	}
}

func init() { reg("C20.bothways", checkC20BothWays) }

// ---- members reached through less common type shapes ------------------------------------------------------------

type zRec struct{ Title string }

func (r *zRec) Touch() string { return "touched-" + r.Title }
func (r zRec) Upper() string  { return strings.ToUpper(r.Title) }

type zHandle *zRec

type zMeta struct{ Author string }

func (m zMeta) Slug() string   { return "slug-" + m.Author }
func (m *zMeta) PSlug() string { return "pslug-" + m.Author }

type zPage struct {
	*zMeta
	Title string
}

type C20OddCase struct {
	Which int `json:"which"`
}

var c20OddSets = []struct {
	x    func() interface{}
	src  string
	want string
}{
	{func() interface{} { return map[fmt.Stringer]string{zStringer{"a"}: "v"} }, "[{{ x.a }}|{{ x['a'] }}|{{ x.a|default('dflt') }}]", "[||dflt]"},
	{func() interface{} { return map[error]int{} }, "[{{ x.a }}|{{ x.Error }}]", "[|]"},
	{func() interface{} { return zHandle(&zRec{"t"}) }, "[{{ x.Title }}|{{ x.Upper }}|{{ x.Touch }}]", "[t|T|touched-t]"},
	{func() interface{} { return &zRec{"t"} }, "[{{ x.Title }}|{{ x.Upper }}|{{ x.Touch }}]", "[t|T|touched-t]"},
	{func() interface{} { return zRec{"t"} }, "[{{ x.Title }}|{{ x.Upper }}|{{ x.Touch }}]", "[t|T|touched-t]"},
	{func() interface{} { return zPage{Title: "p"} }, "[{{ x.Title }}|{{ x.Author }}|{{ x.Slug }}|{{ x.PSlug }}]", "[p|||]"},
	{func() interface{} { return &zPage{Title: "p"} }, "[{{ x.Title }}|{{ x.Author }}|{{ x.Slug }}|{{ x.Slug|default('dflt') }}]", "[p|||dflt]"},
	{func() interface{} { return &zPage{zMeta: &zMeta{"au"}, Title: "p"} }, "[{{ x.Title }}|{{ x.Author }}|{{ x.Slug }}|{{ x.PSlug }}]", "[p|au|slug-au|pslug-au]"},
	{func() interface{} { return []interface{}{zPage{Title: "p"}, zHandle(&zRec{"h"})} }, "[{% for y in x %}{{ y.Slug }}{{ y.Touch }};{% endfor %}]", "[;touched-h;]"},
}

// checkC20Odd: the member, or an empty value when there is none — never a panic — for maps keyed by
// an interface type other than interface{}, a named pointer type, and members promoted through an
// embedded pointer that is nil.
func checkC20Odd(c C20OddCase) error {
	s := c20OddSets[c.Which%len(c20OddSets)]
	r := render1(s.src, map[string]interface{}{"x": s.x()})
	if r.Panic != "" {
		return fmt.Errorf("%s with x = %T panics: %s", q(s.src), s.x(), r.Panic)
	}
	if r.Failed() || r.Out != s.want {
		return fmt.Errorf("%s with x = %T renders %v, want %s", q(s.src), s.x(), r, q(s.want))
	}
	return nil
}

func TestC20Odd(t *testing.T) {
	r := NewRec(t, "C20", "exhaustive: 9 values of less common type shapes (maps keyed by fmt.Stringer and by error, a named pointer type with a pointer-receiver method, the same struct as *T and T, a struct whose embedded pointer is nil or set: promoted fields, value and pointer methods, also in a list) with expected text written out; all cases non-trivial")
	defer r.Flush()
	r.SetExhaustive()
	for i := range c20OddSets {
		c := C20OddCase{Which: i}
		r.Case(fmt.Sprint(i), true, c20OddSets[i].src)
		if err := checkC20Odd(c); err != nil {
			r.FailEnum(t, "C20.odd", c, err)
		}
	}
}

func init() { reg("C20.odd", checkC20Odd) }
