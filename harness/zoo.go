package vh

// Context zoo (DESIGN.md 3.2): context values are described by literal trees (type E) with a
// Go type tag in M, so that they can be stored in replay files and materialised several
// times: distinct allocations and different map insertion orders from one description.
//
//	int   M in "", int8..int64, uint..uint64, float32, float64, named
//	str   M in "", named, bytes, stringer
//	list  M in "", []int, []string, []float64, [3]int, []map, named[]iface, named[]string, named[]int
//	hash  M in "", map[string]int, map[string]string, map[int]string, map[int64]string, map[uint64]string, map[iface], map[mixed], map[mixed2], struct, ptrstruct, nilptrstruct, nilptrmap, outer, meth, ptrmeth, namedmap
//	ptr   pointer to A[0]      time  I = unix seconds (UTC)

import (
	"fmt"
	"reflect"
	"sort"
	"strings"
	"time"
)

// named collection types (a caller's `type Row []interface{}` converts to the unnamed type, so
// code that converts instead of copying shares the caller's array)
type zRow []interface{}
type zNames []string
type zInts []int
type zDict map[string]interface{}

type zNamedInt int
type zNamedStr string
type zStringer struct{ S string }

func (z zStringer) String() string { return "<" + z.S + ">" }

type ZStruct struct {
	Name  string
	Count int
	Tags  []string
	Inner ZInner
	hid   int
}

type ZInner struct {
	Z int
	W string
}

// ZMeth has one method on the pointer and one on the value (hash tags "meth" / "ptrmeth")
type ZMeth struct {
	Name string
	N    int
}

func (z *ZMeth) Label() string { return "label:" + z.Name }
func (z ZMeth) Twice() int     { return z.N * 2 }

// ZOuter holds a pointer to a struct (nil unless the description has an "Author" entry)
type ZOuter struct {
	Name   string
	Author *ZStruct
	Meta   *map[string]int
}

// ZPersonE embeds an exported struct type through a pointer (nil unless the description has a
// "City" entry): promoted fields City / Zip exist only when the pointer is set
type ZAddrE struct {
	City string
	Zip  int
}
type ZPersonE struct {
	*ZAddrE
	Name string
}

type zKey struct {
	Path string
	N    int
}

func ZPtr(e *E) *E         { return &E{K: "ptr", A: []*E{e}} }
func ZTime(u int64) *E     { return &E{K: "time", I: u} }
func ZT(e *E, m string) *E { cp := *e; cp.M = m; return &cp }

// zooGo materialises a description. variant changes insertion order of maps (0 as listed,
// 1 reversed, 2 rotated); every call allocates fresh values.
func zooGo(e *E, variant int) interface{} {
	switch e.K {
	case "null":
		return nil
	case "bool":
		return e.I != 0
	case "int":
		switch e.M {
		case "int8":
			return int8(e.I)
		case "int16":
			return int16(e.I)
		case "int32":
			return int32(e.I)
		case "int64":
			return e.I
		case "uint":
			return uint(e.I)
		case "uint8":
			return uint8(e.I)
		case "uint16":
			return uint16(e.I)
		case "uint32":
			return uint32(e.I)
		case "uint64":
			return uint64(e.I)
		case "float32":
			return float32(e.I) / 4
		case "float64":
			return float64(e.I) / 4
		case "tiny64":
			return float64(e.I) * 1e-12
		case "tiny32":
			return float32(e.I) * 1e-30
		case "denorm":
			return float64(e.I) * 5e-324
		case "named":
			return zNamedInt(e.I)
		}
		return int(e.I)
	case "str":
		switch e.M {
		case "named":
			return zNamedStr(e.S)
		case "bytes":
			return []byte(e.S)
		case "stringer":
			return zStringer{e.S}
		}
		return e.S
	case "time":
		if e.M != "" {
			// M = offset from UTC in minutes, e.g. "+330", "-480"
			var mins int
			fmt.Sscanf(e.M, "%d", &mins)
			return time.Unix(e.I, 0).In(time.FixedZone("Z"+e.M, mins*60))
		}
		return time.Unix(e.I, 0).UTC()
	case "ptr":
		v := zooGo(e.A[0], variant)
		if v == nil {
			return (*int)(nil)
		}
		p := reflect.New(reflect.TypeOf(v))
		p.Elem().Set(reflect.ValueOf(v))
		return p.Interface()
	case "list":
		switch e.M {
		case "[]int":
			out := make([]int, len(e.A), len(e.A)+3)
			for i, a := range e.A {
				out[i] = int(a.I)
			}
			return out
		case "named[]iface":
			out := make(zRow, len(e.A), len(e.A)+3)
			for i, a := range e.A {
				out[i] = zooGo(a, variant)
			}
			return out
		case "named[]string":
			out := make(zNames, len(e.A), len(e.A)+3)
			for i, a := range e.A {
				out[i] = a.S
			}
			return out
		case "named[]int":
			out := make(zInts, len(e.A), len(e.A)+3)
			for i, a := range e.A {
				out[i] = int(a.I)
			}
			return out
		case "[]string":
			out := make([]string, len(e.A), len(e.A)+3)
			for i, a := range e.A {
				out[i] = a.S
			}
			return out
		case "[]float64":
			out := make([]float64, len(e.A))
			for i, a := range e.A {
				out[i] = float64(a.I) / 2
			}
			return out
		case "[2]iface":
			var out [2]interface{}
			for i := 0; i < 2 && i < len(e.A); i++ {
				out[i] = zooGo(e.A[i], variant)
			}
			return out
		case "[]error":
			out := make([]error, len(e.A))
			for i, a := range e.A {
				out[i] = fmt.Errorf("err-%s", a.S)
			}
			return out
		case "[]stringer":
			out := make([]fmt.Stringer, len(e.A))
			for i, a := range e.A {
				out[i] = zStringer{a.S}
			}
			return out
		case "[][]int":
			out := make([][]int, len(e.A))
			for i, a := range e.A {
				out[i] = []int{int(a.I), int(a.I) + 1}
			}
			return out
		case "[]map":
			out := make([]map[string]int, len(e.A))
			for i, a := range e.A {
				out[i] = map[string]int{"k": int(a.I)}
			}
			return out
		case "[3]int":
			var out [3]int
			for i := 0; i < 3 && i < len(e.A); i++ {
				out[i] = int(e.A[i].I)
			}
			return out
		}
		// spare capacity: an append-in-place by the engine would write into the caller's array
		out := make([]interface{}, len(e.A), len(e.A)+3)
		for i, a := range e.A {
			out[i] = zooGo(a, variant)
		}
		return out
	case "hash":
		idx := make([]int, len(e.A))
		for i := range idx {
			idx[i] = i
		}
		switch variant % 3 {
		case 1:
			for i, j := 0, len(idx)-1; i < j; i, j = i+1, j-1 {
				idx[i], idx[j] = idx[j], idx[i]
			}
		case 2:
			if len(idx) > 1 {
				idx = append(idx[1:], idx[0])
			}
		}
		switch e.M {
		case "map[string]int":
			out := map[string]int{}
			for _, i := range idx {
				out[e.Ks[i]] = int(e.A[i].I)
			}
			return out
		case "map[string]string":
			out := map[string]string{}
			for _, i := range idx {
				out[e.Ks[i]] = e.A[i].S
			}
			return out
		case "map[int]string":
			out := map[int]string{}
			for _, i := range idx {
				out[i*10+len(e.Ks[i])] = e.A[i].S
			}
			return out
		case "map[int64]string":
			// keys that differ only above 2^53 (a float64 cannot tell them apart)
			out := map[int64]string{}
			for _, i := range idx {
				out[int64(1)<<53+int64(i)] = e.A[i].S
			}
			return out
		case "map[uint64]string":
			out := map[uint64]string{}
			for _, i := range idx {
				out[^uint64(0)-uint64(i)] = e.A[i].S
			}
			return out
		case "namedmap":
			out := zDict{}
			for _, i := range idx {
				out[e.Ks[i]] = zooGo(e.A[i], variant)
			}
			return out
		case "map[mixed]":
			// interface-keyed map whose keys are of different kinds (int, string, float, bool, uint8)
			out := map[interface{}]interface{}{}
			for _, i := range idx {
				var k interface{}
				switch i % 5 {
				case 0:
					k = i + 1
				case 1:
					k = e.Ks[i]
				case 2:
					k = float64(i) + 0.5
				case 3:
					k = i%2 == 1
				default:
					k = uint8(i)
				}
				out[k] = zooGo(e.A[i], variant)
			}
			return out
		case "map[structkey]":
			// struct keys whose printed forms share a long prefix and differ at the end
			out := map[zKey]interface{}{}
			for _, i := range idx {
				out[zKey{Path: strings.Repeat("segment/", 20) + "common", N: len(e.Ks[i])*10 + i}] = zooGo(e.A[i], variant)
			}
			return out
		case "map[arraykey]":
			out := map[[3]int]interface{}{}
			for _, i := range idx {
				out[[3]int{7, 7, i}] = zooGo(e.A[i], variant)
			}
			return out
		case "map[mixed2]":
			// interface-keyed map with integer keys whose numeric and printed order disagree (9 < 54,
			// "54" < "9") and string keys that print between them ("6..."): comparing numbers by value
			// and everything else by printed form is not an order on such keys
			out := map[interface{}]interface{}{}
			for _, i := range idx {
				var k interface{}
				switch i % 4 {
				case 0:
					k = []int{9, 54, 100, 8}[(i/4)%4]
				case 1:
					k = []string{"6", "1", "77", "10"}[(i/4)%4] + e.Ks[i]
				case 2:
					k = []int64{700, 71, 7, 70}[(i/4)%4]
				default:
					k = []string{"70", "8", "99", "5"}[(i/4)%4] + e.Ks[i]
				}
				out[k] = zooGo(e.A[i], variant)
			}
			return out
		case "map[widths]":
			// interface-keyed map whose keys are equal as numbers (or as text) and differ in Go type
			// only: int(1), int64(1), int8(1), int32(1), uint8(1), uint(1), "a", zNamedStr("a")
			out := map[interface{}]interface{}{}
			for _, i := range idx {
				var k interface{}
				switch i % 8 {
				case 0:
					k = int(1)
				case 1:
					k = int64(1)
				case 2:
					k = int8(1)
				case 3:
					k = int32(1)
				case 4:
					k = uint8(1)
				case 5:
					k = uint(1)
				case 6:
					k = "a"
				default:
					k = zNamedStr("a")
				}
				out[k] = zooGo(e.A[i], variant)
			}
			return out
		case "map[iface]":
			out := map[interface{}]interface{}{}
			for _, i := range idx {
				out[e.Ks[i]] = zooGo(e.A[i], variant)
			}
			return out
		case "ptrembed", "ptrembedlist":
			p := &ZPersonE{Name: "pe"}
			for _, i := range idx {
				if e.Ks[i] == "City" {
					p.ZAddrE = &ZAddrE{City: e.A[i].S, Zip: 7}
				}
			}
			if e.M == "ptrembedlist" {
				return []*ZPersonE{p, {Name: "second"}}
			}
			return p
		case "nilptrstruct":
			return (*ZStruct)(nil)
		case "nilptrmap":
			return (*map[string]int)(nil)
		case "nilptrtime":
			// typed nil pointers to types whose String / Error method has a value receiver
			return (*time.Time)(nil)
		case "nilptrdur":
			return (*time.Duration)(nil)
		case "nilptrstringer":
			return (*zStringer)(nil)
		case "nilptrlist":
			return []interface{}{(*time.Time)(nil), (*zStringer)(nil), (*ZStruct)(nil)}
		case "outer":
			o := ZOuter{Name: "o"}
			for _, i := range idx {
				if e.Ks[i] == "Author" {
					o.Author = &ZStruct{Name: e.A[i].S}
				}
			}
			return o
		case "meth", "ptrmeth":
			s := ZMeth{Name: "n"}
			for _, i := range idx {
				switch e.Ks[i] {
				case "Name":
					s.Name = e.A[i].S
				case "N":
					s.N = int(e.A[i].I)
				}
			}
			if e.M == "ptrmeth" {
				return &s
			}
			return s
		case "struct", "ptrstruct":
			s := ZStruct{Name: "n", hid: 3}
			for _, i := range idx {
				switch e.Ks[i] {
				case "Name":
					s.Name = e.A[i].S
				case "Count":
					s.Count = int(e.A[i].I)
				case "Tags":
					for _, a := range e.A[i].A {
						s.Tags = append(s.Tags, a.S)
					}
				case "Z":
					s.Inner.Z = int(e.A[i].I)
				case "W":
					s.Inner.W = e.A[i].S
				}
			}
			if e.M == "ptrstruct" {
				return &s
			}
			return s
		}
		out := make(map[string]interface{}, len(e.A))
		for _, i := range idx {
			out[e.Ks[i]] = zooGo(e.A[i], variant)
		}
		return out
	}
	panic("zooGo: " + e.K)
}

func zooCtx(c Ctx, variant int) map[string]interface{} {
	m := make(map[string]interface{}, len(c.Names))
	order := make([]int, len(c.Names))
	for i := range order {
		order[i] = i
	}
	if variant%2 == 1 {
		sort.Sort(sort.Reverse(sort.IntSlice(order)))
	}
	for _, i := range order {
		m[c.Names[i]] = zooGo(c.Vals[i], variant)
	}
	// names ending in _alias share the value of their base name (the same Go object twice)
	for _, n := range c.Names {
		if strings.HasSuffix(n, "_alias") {
			if base, ok := m[strings.TrimSuffix(n, "_alias")]; ok {
				m[n] = base
			}
		}
	}
	return m
}

func showZoo(e *E) string {
	s := PrintE2(e)
	return s
}

// PrintE2 prints a description including its type tags (for samples and messages).
func PrintE2(e *E) string {
	tag := ""
	if e.M != "" {
		tag = "<" + e.M + ">"
	}
	switch e.K {
	case "ptr":
		return "&" + PrintE2(e.A[0])
	case "time":
		return fmt.Sprintf("time(%d)", e.I) + tag
	case "list":
		s := "["
		for i, a := range e.A {
			if i > 0 {
				s += ","
			}
			s += PrintE2(a)
		}
		return s + "]" + tag
	case "hash":
		s := "{"
		for i, a := range e.A {
			if i > 0 {
				s += ","
			}
			s += e.Ks[i] + ":" + PrintE2(a)
		}
		return s + "}" + tag
	case "int":
		return fmt.Sprint(e.I) + tag
	case "str":
		return fmt.Sprintf("%q", e.S) + tag
	case "bool":
		return fmt.Sprint(e.I != 0)
	case "null":
		return "null"
	}
	return "?"
}
