package vh

// Guarded execution of engine calls (DESIGN.md 3.5): a panic is a result, not a crash of
// the harness; optionally a watchdog turns non-termination into a result too.

import (
	"bytes"
	"errors"
	"fmt"
	"runtime/debug"
	"sort"
	"strings"
	"time"

	"github.com/semihalev/twig"
)

// Res is the observable result of one engine call.
type Res struct {
	Out   string `json:"out"`
	Err   string `json:"err,omitempty"` // non-empty iff the call returned an error
	Panic string `json:"panic,omitempty"`
	Stack string `json:"-"`
	Hang  bool   `json:"hang,omitempty"`
	err   error
}

func (r Res) Failed() bool { return r.Err != "" || r.Panic != "" || r.Hang }
func (r Res) Error() error { return r.err }
func (r Res) String() string {
	switch {
	case r.Hang:
		return "HANG"
	case r.Panic != "":
		return "PANIC(" + r.Panic + ")"
	case r.Err != "":
		return fmt.Sprintf("ERR(%s) out=%q", firstLine(r.Err), r.Out)
	}
	return fmt.Sprintf("%q", r.Out)
}

func firstLine(s string) string {
	if i := strings.IndexByte(s, '\n'); i >= 0 {
		s = s[:i]
	}
	if len(s) > 160 {
		s = s[:160] + "…"
	}
	return s
}

// guard runs f under recover.
func guard(f func() (string, error)) (res Res) {
	defer func() {
		if p := recover(); p != nil {
			res.Panic = fmt.Sprint(p)
			res.Stack = string(debug.Stack())
		}
	}()
	out, err := f()
	res.Out = out
	if err != nil {
		res.err = err
		res.Err = err.Error()
		if res.Err == "" {
			res.Err = "(empty error text)"
		}
	}
	return
}

// guardT runs f under recover in its own goroutine with a watchdog.
func guardT(d time.Duration, f func() (string, error)) Res {
	ch := make(chan Res, 1)
	go func() { ch <- guard(f) }()
	select {
	case r := <-ch:
		return r
	case <-time.After(d):
		return Res{Hang: true}
	}
}

// newEngine builds a fresh engine serving tmpls from an ArrayLoader.
func newEngine(tmpls map[string]string) *twig.Engine {
	e := twig.New()
	cp := make(map[string]string, len(tmpls))
	for k, v := range tmpls {
		cp[k] = v
	}
	e.RegisterLoader(twig.NewArrayLoader(cp))
	return e
}

func render(e *twig.Engine, name string, ctx map[string]interface{}) Res {
	return guard(func() (string, error) { return e.Render(name, ctx) })
}

func renderTo(e *twig.Engine, name string, ctx map[string]interface{}) Res {
	return guard(func() (string, error) {
		var b bytes.Buffer
		err := e.RenderTo(&b, name, ctx)
		return b.String(), err
	})
}

// render1 renders a single source on a fresh engine.
func render1(src string, ctx map[string]interface{}) Res {
	return render(newEngine(map[string]string{"main": src}), "main", ctx)
}

func sortedKeys(m map[string]string) []string {
	ks := make([]string, 0, len(m))
	for k := range m {
		ks = append(ks, k)
	}
	sort.Strings(ks)
	return ks
}

var errMismatch = errors.New("mismatch")

func mismatch(format string, a ...interface{}) error {
	return fmt.Errorf("%w: "+format, append([]interface{}{errMismatch}, a...)...)
}

func sortStrings(s []string) { sort.Strings(s) }
