package vh

// Guarded execution of engine calls (DESIGN.md 3.5): a panic is a result, not a crash of
// the harness; optionally a watchdog turns non-termination into a result too.

import (
	"bytes"
	"errors"
	"fmt"
	"io"
	"runtime/debug"
	"sort"
	"strings"
	"time"

	"github.com/semihalev/twig"
)

// Res is the observable result of one engine call.
type Res struct {
	Out   string `json:"out"`
	Err   string `json:"err,omitempty"` // non-empty iff the call returned an error
	Panic string `json:"panic,omitempty"`
	Stack string `json:"-"`
	Hang  bool   `json:"hang,omitempty"`
	err   error
}

func (r Res) Failed() bool { return r.Err != "" || r.Panic != "" || r.Hang }
func (r Res) Error() error { return r.err }
func (r Res) String() string {
	switch {
	case r.Hang:
		return "HANG"
	case r.Panic != "":
		return "PANIC(" + r.Panic + ")"
	case r.Err != "":
		return fmt.Sprintf("ERR(%s) out=%q", firstLine(r.Err), r.Out)
	}
	return fmt.Sprintf("%q", r.Out)
}

func firstLine(s string) string {
	if i := strings.IndexByte(s, '\n'); i >= 0 {
		s = s[:i]
	}
	if len(s) > 160 {
		s = s[:160] + "…"
	}
	return s
}

// guard runs f under recover.
func guard(f func() (string, error)) (res Res) {
	defer func() {
		if p := recover(); p != nil {
			res.Panic = fmt.Sprint(p)
			res.Stack = string(debug.Stack())
		}
	}()
	out, err := f()
	res.Out = out
	if err != nil {
		res.err = err
		res.Err = err.Error()
		if res.Err == "" {
			res.Err = "(empty error text)"
		}
	}
	return
}

// guardT runs f under recover in its own goroutine with a watchdog.
func guardT(d time.Duration, f func() (string, error)) Res {
	ch := make(chan Res, 1)
	go func() { ch <- guard(f) }()
	select {
	case r := <-ch:
		return r
	case <-time.After(d):
		return Res{Hang: true}
	}
}

// newEngine builds a fresh engine serving tmpls from an ArrayLoader.
func newEngine(tmpls map[string]string) *twig.Engine {
	e := twig.New()
	cp := make(map[string]string, len(tmpls))
	for k, v := range tmpls {
		cp[k] = v
	}
	e.RegisterLoader(twig.NewArrayLoader(cp))
	return e
}

func render(e *twig.Engine, name string, ctx map[string]interface{}) Res {
	return guard(func() (string, error) { return e.Render(name, ctx) })
}

func renderTo(e *twig.Engine, name string, ctx map[string]interface{}) Res {
	return guard(func() (string, error) {
		// a writer that has only Write: the route taken for files, sockets and pipes
		var w plainWriter
		err := e.RenderTo(&w, name, ctx)
		return w.b.String(), err
	})
}

// render1 renders a single source on a fresh engine.
func render1(src string, ctx map[string]interface{}) Res {
	return render(newEngine(map[string]string{"main": src}), "main", ctx)
}

func sortedKeys(m map[string]string) []string {
	ks := make([]string, 0, len(m))
	for k := range m {
		ks = append(ks, k)
	}
	sort.Strings(ks)
	return ks
}

var errMismatch = errors.New("mismatch")

func mismatch(format string, a ...interface{}) error {
	return fmt.Errorf("%w: "+format, append([]interface{}{errMismatch}, a...)...)
}

func sortStrings(s []string) { sort.Strings(s) }

// ---- writers that are not in-memory buffers ---------------------------------------------------------------

// plainWriter has Write only: no WriteString, and none of the buffer types the engine knows.
type plainWriter struct{ b bytes.Buffer }

func (p *plainWriter) Write(d []byte) (int, error) { return p.b.Write(d) }

// choppyWriter takes at most k bytes per call and says so (io.ErrShortWrite), as a writer with a
// full buffer does.
type choppyWriter struct {
	b bytes.Buffer
	k int
}

func (c *choppyWriter) Write(d []byte) (int, error) {
	if len(d) <= c.k {
		return c.b.Write(d)
	}
	c.b.Write(d[:c.k])
	return c.k, io.ErrShortWrite
}

// brokenWriter fails for good after `limit` bytes.
type brokenWriter struct {
	n, limit int
}

func (b *brokenWriter) Write(d []byte) (int, error) {
	if b.n+len(d) <= b.limit {
		b.n += len(d)
		return len(d), nil
	}
	took := b.limit - b.n
	b.n = b.limit
	return took, errors.New("harness: the writer is broken")
}

func renderPlain(e *twig.Engine, name string, ctx map[string]interface{}) Res {
	return guard(func() (string, error) {
		var w plainWriter
		err := e.RenderTo(&w, name, ctx)
		return w.b.String(), err
	})
}

// writersAgree: what Render returned (want, successful) is also what RenderTo delivers into a
// writer that has only Write; a writer that takes a few bytes per call receives a prefix of it,
// and the whole of it when RenderTo reports no error.
func writersAgree(mk func() *twig.Engine, name string, ctx map[string]interface{}, want Res) error {
	if want.Failed() {
		return nil
	}
	if rp := renderPlain(mk(), name, ctx); rp.Failed() || rp.Out != want.Out {
		return fmt.Errorf("Render returns %s, RenderTo into a writer that has only a Write method delivers %v", q(trunc(want.Out)), rp)
	}
	cw := &choppyWriter{k: 7}
	rc := guard(func() (string, error) { return "", mk().RenderTo(cw, name, ctx) })
	got := cw.b.String()
	if rc.Panic != "" || !strings.HasPrefix(want.Out, got) || (!rc.Failed() && got != want.Out) {
		return fmt.Errorf("Render returns %s; a writer that takes 7 bytes per call received %s (RenderTo: %v)", q(trunc(want.Out)), q(trunc(got)), rc)
	}
	return nil
}
