package vh

// Spies and fault injectors (DESIGN.md 3.3): ordinary AddFunction/AddFilter/AddTest callbacks
// that record every invocation and can be told to fail at their k-th invocation.

import (
	"errors"
	"math"
	"sync"

	"github.com/semihalev/twig"
)

var errSentinel = errors.New("verif sentinel failure")

type Spies struct {
	mu      sync.Mutex
	Log     []string
	FailErr error // the error of the failing invocation (nil: errSentinel)
	FailAt  int   // 1-based; 0 = never
	count   int
	Calls   map[string]int
}

func NewSpies() *Spies { return &Spies{Calls: map[string]int{}} }

// normalise converts an engine value to a model value (for logging and comparison).
func normalise(v interface{}) interface{} {
	switch x := v.(type) {
	case nil:
		return nil
	case bool:
		return x
	case int:
		return int64(x)
	case int64:
		return x
	case float64:
		if x == math.Trunc(x) && math.Abs(x) <= float64(maxExact) {
			return int64(x)
		}
		return x
	case string:
		return x
	case []interface{}:
		out := make([]interface{}, len(x))
		for i, a := range x {
			out[i] = normalise(a)
		}
		return out
	case map[string]interface{}:
		out := make(map[string]interface{}, len(x))
		for k, a := range x {
			out[k] = normalise(a)
		}
		return out
	}
	return v
}

func (s *Spies) hit(name string, arg interface{}) error {
	s.mu.Lock()
	defer s.mu.Unlock()
	s.count++
	s.Calls[name]++
	s.Log = append(s.Log, name+"("+showModel(normalise(arg))+")")
	if s.FailAt == s.count {
		if s.FailErr != nil {
			return s.FailErr
		}
		return errSentinel
	}
	return nil
}

func (s *Spies) Count() int { s.mu.Lock(); defer s.mu.Unlock(); return s.count }

func (s *Spies) Install(e *twig.Engine) {
	fn := func(name string) twig.FunctionFunc {
		return func(args ...interface{}) (interface{}, error) {
			var a interface{}
			if len(args) > 0 {
				a = args[0]
			}
			if err := s.hit(name, a); err != nil {
				return nil, err
			}
			return a, nil
		}
	}
	// "dual" is registered both as a function and as a filter (a policy answers for them separately)
	for _, n := range []string{"spy", "spy2", "forbid_fn", "dual"} {
		e.AddFunction(n, fn(n))
	}
	e.AddFunction("id", func(args ...interface{}) (interface{}, error) {
		if len(args) == 0 {
			return nil, nil
		}
		return args[0], nil
	})
	fl := func(name string) twig.FilterFunc {
		return func(v interface{}, args ...interface{}) (interface{}, error) {
			if err := s.hit("|"+name, v); err != nil {
				return nil, err
			}
			return v, nil
		}
	}
	for _, n := range []string{"spyf", "forbid", "dual"} {
		e.AddFilter(n, fl(n))
	}
	e.AddTest("spyt", func(v interface{}, args ...interface{}) (bool, error) {
		if err := s.hit("is spyt", v); err != nil {
			return false, err
		}
		switch x := normalise(v).(type) {
		case nil:
			return false, nil
		case bool:
			return x, nil
		case int64:
			return x != 0, nil
		case string:
			return x != "", nil
		case []interface{}:
			return len(x) > 0, nil
		case map[string]interface{}:
			return len(x) > 0, nil
		}
		return true, nil
	})
}

func eqLogs(a, b []string) bool {
	if len(a) != len(b) {
		return false
	}
	for i := range a {
		if a[i] != b[i] {
			return false
		}
	}
	return true
}
