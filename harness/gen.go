package vh

// Type-directed expression generator. Every random choice goes through rapid so cases
// shrink and replay. While building a tree the generator evaluates sub-trees with the
// reference model and replaces anything outside the modelled domain (inexact division,
// magnitude beyond 2^53, out-of-range index) by an atom: construction instead of rejection.

import (
	"errors"

	"pgregory.net/rapid"
)

type xgen struct {
	t       *rapid.T
	ctx     Ctx
	spies   bool // allow spy(...) calls
	spacing bool // generate whitespace codes
	parens  bool // generate redundant parentheses
	nspy    int
	// names in scope beyond the context (loop variables, set variables, loop counters) with a
	// representative value used for generation-time domain checks
	scope     map[string]interface{}
	extraInts []*E
	extraStrs []*E
}

// stdCtx draws the standard context used by the expression checks.
func stdCtx(t *rapid.T) Ctx {
	var c Ctx
	si := rapid.IntRange(-9, 20)
	c.Set("a", Int(int64(si.Draw(t, "a"))))
	c.Set("b", Int(int64(si.Draw(t, "b"))))
	c.Set("c", Int(int64(rapid.IntRange(1, 9).Draw(t, "c"))))
	words := []string{"", "x", "ab", "Hello", "abc", "zz top", "a<b", "q'r", "O\"K", "héllo", "日本"}
	c.Set("s", Str(rapid.SampledFrom(words).Draw(t, "s")))
	c.Set("u", Str(rapid.SampledFrom(words).Draw(t, "u")))
	c.Set("t", Bool(true))
	c.Set("f", Bool(false))
	n := rapid.IntRange(1, 5).Draw(t, "nxs")
	xs := make([]*E, n)
	for i := range xs {
		xs[i] = Int(int64(si.Draw(t, "x")))
	}
	c.Set("xs", List(xs...))
	nw := rapid.IntRange(1, 4).Draw(t, "nws")
	wsl := make([]*E, nw)
	for i := range wsl {
		wsl[i] = Str(rapid.SampledFrom(words[1:]).Draw(t, "w"))
	}
	c.Set("ws", List(wsl...))
	c.Set("m", Hash([]string{"k1", "k2", "name", "sub"}, []*E{Int(int64(si.Draw(t, "k1"))), Int(int64(si.Draw(t, "k2"))),
		Str(rapid.SampledFrom(words).Draw(t, "mname")), Hash([]string{"z"}, []*E{Int(int64(si.Draw(t, "z")))})}))
	c.Set("nul", Null())
	c.Set("es", List())
	// a list long enough for implementations that switch strategy with the size
	big := make([]*E, 60)
	for i := range big {
		big[i] = Int(int64(i - 10))
	}
	c.Set("big", List(big...))
	// names that collide under the usual multiply-by-31 string hash (and differ in content)
	for i, n := range []string{"Aa", "BB", "x1", "wP", "AO", "B0"} {
		c.Set(n, Int(int64(si.Draw(t, "hv")+i)))
	}
	return c
}

func (g *xgen) eval(e *E) (interface{}, error) {
	m := &Model{}
	vars := g.ctx.Model()
	for k, v := range g.scope {
		vars[k] = v
	}
	env := &Env{vars: vars, m: m}
	return env.Eval(e)
}

func (g *xgen) ok(e *E) bool {
	_, err := g.eval(e)
	return err == nil || !errors.Is(err, errDomain)
}

func (g *xgen) pick(n int, label string) int { return rapid.IntRange(0, n-1).Draw(g.t, label) }

func (g *xgen) deco(e *E, nws int) *E {
	if g.spacing && nws > 0 {
		e.W = make([]int, nws)
		for i := range e.W {
			// bias towards a single space, the rest spread over none / several / tab / newline
			if g.pick(3, "wsb") == 0 {
				e.W[i] = 1
			} else {
				e.W[i] = g.pick(len(wsCodes), "ws")
			}
		}
	}
	if g.parens && g.pick(8, "xp") == 0 {
		e.P = true
	}
	return e
}

func (g *xgen) listLen(name string) int {
	for i, n := range g.ctx.Names {
		if n == name {
			return len(g.ctx.Vals[i].A)
		}
	}
	return 0
}

func (g *xgen) intAtom() *E {
	if len(g.extraInts) > 0 && g.pick(3, "useextra") == 0 {
		cp := *g.extraInts[g.pick(len(g.extraInts), "extraint")]
		return &cp
	}
	if g.pick(8, "collidingname") == 0 {
		return Var(rapid.SampledFrom([]string{"Aa", "BB", "x1", "wP", "AO", "B0"}).Draw(g.t, "hname"))
	}
	switch g.pick(14, "intatom") {
	case 13:
		// large integers that lie close together (exactness within 2^53: 2000000000 and 2000000001
		// are different numbers)
		base := rapid.SampledFrom([]int64{1000000000, 2000000000, 4294967296, 1 << 40, 1e15, 1<<53 - 4}).Draw(g.t, "bigbase")
		return Int(base + int64(rapid.IntRange(0, 2).Draw(g.t, "bigoff")))
	case 0, 1:
		return Int(int64(rapid.IntRange(0, 99).Draw(g.t, "lit")))
	case 2:
		return Int(int64(rapid.IntRange(-20, -1).Draw(g.t, "neglit")))
	case 3:
		return Var("a")
	case 4:
		return Var("b")
	case 5:
		return Var("c")
	case 6:
		return Attr(Var("m"), rapid.SampledFrom([]string{"k1", "k2"}).Draw(g.t, "mk"))
	case 7:
		return Attr(Attr(Var("m"), "sub"), "z")
	case 8:
		return g.deco(Idx(Var("xs"), Int(int64(g.pick(g.listLen("xs"), "xi")))), 2)
	case 9:
		return g.deco(Filt(Var(rapid.SampledFrom([]string{"xs", "ws", "s", "es"}).Draw(g.t, "lenof")), "length"), 2)
	case 10:
		return g.deco(Call(rapid.SampledFrom([]string{"max", "min"}).Draw(g.t, "mm"), Var("a"), Var("b")), 2)
	case 11:
		return g.deco(Filt(Var(rapid.SampledFrom([]string{"a", "b"}).Draw(g.t, "absof")), "abs"), 2)
	default:
		if g.spies {
			g.nspy++
			return Call("spy", Int(int64(g.nspy)))
		}
		return Idx(Attr(Var("m"), "sub"), Str("z"))
	}
}

func (g *xgen) fallbackInt(e *E) *E {
	if g.ok(e) {
		return e
	}
	return Int(int64(rapid.IntRange(1, 9).Draw(g.t, "fallback")))
}

func (g *xgen) intE(d int) *E {
	if d <= 0 || g.pick(6, "intleaf") == 0 {
		return g.intAtom()
	}
	switch g.pick(12, "intform") {
	case 0, 1:
		return g.fallbackInt(g.deco(Bin("+", g.intE(d-1), g.intE(d-1)), 2))
	case 2:
		return g.fallbackInt(g.deco(Bin("-", g.intE(d-1), g.intE(d-1)), 2))
	case 3, 4:
		return g.fallbackInt(g.deco(Bin("*", g.intE(d-1), g.intE(d-1)), 2))
	case 5:
		// exact division: keep a generated dividend when it happens to be divisible,
		// otherwise use a literal multiple of the divisor's value
		r := g.intE(d - 1)
		rv, err := g.eval(r)
		rn, isInt := rv.(int64)
		if err != nil || !isInt || rn == 0 || abs64(rn) > 1000 {
			r = Int(int64(rapid.IntRange(1, 9).Draw(g.t, "divisor")))
			rn = r.I
		}
		l := g.intE(d - 1)
		lv, err := g.eval(l)
		ln, isInt := lv.(int64)
		if err != nil || !isInt || ln%rn != 0 {
			l = Int(rn * int64(rapid.IntRange(-5, 9).Draw(g.t, "quot")))
		}
		return g.fallbackInt(g.deco(Bin("/", l, r), 2))
	case 6:
		r := g.intE(d - 1)
		if rv, err := g.eval(r); err != nil || rv == int64(0) {
			r = Int(int64(rapid.IntRange(1, 9).Draw(g.t, "modulus")))
		}
		return g.fallbackInt(g.deco(Bin("%", g.intE(d-1), r), 2))
	case 7:
		base := g.intE(d - 1)
		if bv, err := g.eval(base); err != nil || abs64(toI(bv)) > 9 {
			base = Int(int64(rapid.IntRange(-3, 9).Draw(g.t, "base")))
		}
		return g.fallbackInt(g.deco(Bin("^", base, Int(int64(rapid.IntRange(0, 4).Draw(g.t, "exp")))), 2))
	case 8:
		return g.fallbackInt(g.deco(Un(rapid.SampledFrom([]string{"-", "-", "+"}).Draw(g.t, "sign"), g.intE(d-1)), 1))
	case 9:
		return g.fallbackInt(g.deco(Cond(g.boolE(d-1), g.intE(d-1), g.intE(d-1)), 4))
	case 10:
		return g.fallbackInt(g.deco(Filt(g.intE(d-1), "abs"), 2))
	default:
		return g.fallbackInt(g.deco(Filt(rapid.SampledFrom([]*E{Var("nul"), Var("undef"), Int(0), Str("")}).Draw(g.t, "defsubj"), "default", g.intE(d-1)), 3))
	}
}

func toI(v interface{}) int64 {
	if n, ok := v.(int64); ok {
		return n
	}
	return 1 << 40
}

var strLits = []string{"", "a", "ab", "Hello", "x y", "it's", "say \"hi\"", "a,b", "é", "<b>", "T", "F", "zz",
	// blanks inside a literal are content: runs of spaces, a tab, blanks at the edges, words that are keywords elsewhere
	"a  b", "x   y  z", "p\tq", " lead", "trail ", "  ", "a in b", "x with y", "a and  b", "not  x", "1  +  2"}

func (g *xgen) strAtom() *E {
	if len(g.extraStrs) > 0 && g.pick(3, "useextra") == 0 {
		cp := *g.extraStrs[g.pick(len(g.extraStrs), "extrastr")]
		return &cp
	}
	switch g.pick(8, "stratom") {
	case 0, 1:
		e := Str(rapid.SampledFrom(strLits).Draw(g.t, "slit"))
		e.Q = g.pick(2, "quote")
		return e
	case 2:
		return Var("s")
	case 3:
		return Var("u")
	case 4:
		return Attr(Var("m"), "name")
	case 5:
		return g.deco(Idx(Var("ws"), Int(int64(g.pick(g.listLen("ws"), "wi")))), 2)
	case 6:
		sep := Str(rapid.SampledFrom([]string{",", "", " - "}).Draw(g.t, "sep"))
		return g.deco(Filt(Var(rapid.SampledFrom([]string{"ws", "xs"}).Draw(g.t, "joinof")), "join", sep), 3)
	default:
		return g.deco(Filt(Var("s"), rapid.SampledFrom([]string{"upper", "lower"}).Draw(g.t, "case")), 2)
	}
}

func (g *xgen) fallbackStr(e *E) *E {
	if g.ok(e) {
		return e
	}
	return Str("fb")
}

func (g *xgen) strE(d int) *E {
	if d <= 0 || g.pick(4, "strleaf") == 0 {
		return g.strAtom()
	}
	switch g.pick(6, "strform") {
	case 0, 1, 2:
		var l, r *E
		if g.pick(3, "tl") == 0 {
			l = g.intE(d - 1)
		} else {
			l = g.strE(d - 1)
		}
		if g.pick(3, "tr") == 0 {
			r = g.intE(d - 1)
		} else {
			r = g.strE(d - 1)
		}
		return g.fallbackStr(g.deco(Bin("~", l, r), 2))
	case 3:
		return g.fallbackStr(g.deco(Cond(g.boolE(d-1), g.strE(d-1), g.strE(d-1)), 4))
	case 4:
		return g.fallbackStr(g.deco(Filt(g.strE(d-1), rapid.SampledFrom([]string{"upper", "lower"}).Draw(g.t, "case")), 2))
	default:
		return g.fallbackStr(g.deco(Filt(rapid.SampledFrom([]*E{Var("nul"), Var("undef"), Str("")}).Draw(g.t, "defsubj"), "default", g.strE(d-1)), 3))
	}
}

func (g *xgen) fallbackBool(e *E) *E {
	if g.ok(e) {
		return e
	}
	return Bool(g.pick(2, "fbb") == 0)
}

// anyE: an operand for and / or / not / ?: which accept every value (truthiness table).
func (g *xgen) anyE(d int) *E {
	switch g.pick(8, "anykind") {
	case 0, 1, 2, 3:
		return g.boolE(d)
	case 4:
		return g.intE(d)
	case 5:
		return g.strE(d)
	case 6:
		return Var(rapid.SampledFrom([]string{"xs", "es", "nul", "undef", "m", "ws"}).Draw(g.t, "anyvar"))
	default:
		return rapid.SampledFrom([]*E{Int(0), Str(""), Str("0"), List(), Null()}).Draw(g.t, "anylit")
	}
}

func (g *xgen) boolE(d int) *E {
	if d <= 0 {
		return rapid.SampledFrom([]*E{Bool(true), Bool(false), Var("t"), Var("f")}).Draw(g.t, "boolatom")
	}
	switch g.pick(14, "boolform") {
	case 0, 1, 2:
		op := rapid.SampledFrom([]string{"<", ">", "<=", ">=", "==", "!="}).Draw(g.t, "cmp")
		if g.pick(8, "closepair") == 0 {
			// two large integers that differ by 0, 1 or 2 (also as a literal list for `in`)
			base := rapid.SampledFrom([]int64{1000000000, 2000000000, 4294967296, 1 << 40, 1e15, 1<<53 - 4}).Draw(g.t, "pairbase")
			l, r := Int(base+int64(g.pick(3, "pl"))), Int(base+int64(g.pick(3, "pr")))
			if g.pick(3, "pairin") == 0 {
				return g.fallbackBool(g.deco(Bin(rapid.SampledFrom([]string{"in", "not in"}).Draw(g.t, "pairinop"), l, List(r, Int(base+7))), 2))
			}
			if g.pick(2, "pairarith") == 0 {
				l = Bin("+", Int(base), Int(l.I-base))
			}
			return g.fallbackBool(g.deco(Bin(op, l, r), 2))
		}
		return g.fallbackBool(g.deco(Bin(op, g.intE(d-1), g.intE(d-1)), 2))
	case 3:
		op := rapid.SampledFrom([]string{"==", "!=", "starts with", "ends with", "in", "not in"}).Draw(g.t, "strcmp")
		return g.fallbackBool(g.deco(Bin(op, g.strE(d-1), g.strE(d-1)), 2))
	case 4:
		op := rapid.SampledFrom([]string{"in", "not in"}).Draw(g.t, "inop")
		switch g.pick(4, "inkind") {
		case 0:
			return g.fallbackBool(g.deco(Bin(op, g.intE(d-1), Var("xs")), 2))
		case 1:
			return g.fallbackBool(g.deco(Bin(op, g.intE(d-1), Var("big")), 2))
		case 2:
			return g.fallbackBool(g.deco(Bin(op, g.intE(d-1), Call("range", Int(-10), Int(49))), 2))
		}
		return g.fallbackBool(g.deco(Bin(op, g.strAtom(), Var("ws")), 2))
	case 5:
		// the same pattern occurs with and without the case-insensitive flag
		pat := Str("/" + rapid.SampledFrom([]string{"a", "ab", "ell", "H", "zz", "A", "ELL", "h"}).Draw(g.t, "pat") + rapid.SampledFrom([]string{"/", "/", "/i"}).Draw(g.t, "patflag"))
		return g.fallbackBool(g.deco(Bin("matches", g.strE(d-1), pat), 2))
	case 6, 7:
		return g.fallbackBool(g.deco(Bin("and", g.anyE(d-1), g.anyE(d-1)), 2))
	case 8, 9:
		return g.fallbackBool(g.deco(Bin("or", g.anyE(d-1), g.anyE(d-1)), 2))
	case 10:
		return g.fallbackBool(g.deco(Un("not", g.anyE(d-1)), 1))
	case 11:
		op := rapid.SampledFrom([]string{"==", "!="}).Draw(g.t, "booleq")
		return g.fallbackBool(g.deco(Bin(op, g.boolE(d-1), g.boolE(d-1)), 2))
	case 12:
		return g.fallbackBool(g.deco(Cond(g.anyE(d-1), g.boolE(d-1), g.boolE(d-1)), 4))
	default:
		return rapid.SampledFrom([]*E{Bool(true), Bool(false), Var("t"), Var("f")}).Draw(g.t, "boolatom")
	}
}

// walk visits every node.
func walk(e *E, f func(e *E, parent *E, idx int)) {
	var rec func(e, p *E, i int)
	rec = func(e, p *E, i int) {
		f(e, p, i)
		for j, a := range e.A {
			rec(a, e, j)
		}
	}
	rec(e, nil, 0)
}
