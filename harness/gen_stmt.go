package vh

// Statement generator for the control-flow grammar (C09) reused by C13, C14, C01, C17.

import (
	"fmt"

	"pgregory.net/rapid"
)

type loopInfo struct {
	val, key string
	elem     string // int | str | listint
}

type sgen struct {
	t      *rapid.T
	x      *xgen
	nloop  int
	sets   []string // int-valued set variables introduced so far
	dashes bool     // generate whitespace-control dashes
	kwsp   bool     // generate whitespace other than one space after tag keywords
	wstext bool     // text segments of the form ws* core ws*
	budget int      // remaining statements
}

func newSgen(t *rapid.T, ctx Ctx) *sgen {
	return &sgen{t: t, x: &xgen{t: t, ctx: ctx, spacing: true, parens: true, scope: map[string]interface{}{}}, budget: 40}
}

// flowCtx extends the standard context with the sequences the control-flow grammar uses.
func flowCtx(t *rapid.T) Ctx {
	c := stdCtx(t)
	n := rapid.IntRange(0, scale(12, 40)).Draw(t, "nlong")
	long := make([]*E, n)
	for i := range long {
		long[i] = Int(int64(rapid.IntRange(-9, 30).Draw(t, "le")))
	}
	c.Set("long", List(long...))
	nl := rapid.IntRange(0, 3).Draw(t, "nll")
	ll := make([]*E, nl)
	for i := range ll {
		m := rapid.IntRange(0, 3).Draw(t, "nin")
		in := make([]*E, m)
		for j := range in {
			in[j] = Int(int64(rapid.IntRange(0, 9).Draw(t, "ine")))
		}
		ll[i] = List(in...)
	}
	c.Set("ll", List(ll...))
	c.Set("m1", Hash([]string{"only"}, []*E{Int(int64(rapid.IntRange(0, 9).Draw(t, "m1v")))}))
	c.Set("em", Hash(nil, nil))
	c.Set("str", Str(rapid.SampledFrom([]string{"", "a", "hey", "héy", "日本語", "a b", "éx", "<&>"}).Draw(t, "strv")))
	// the same sequences as typed Go slices ([]int, []string): the engine converts them for looping
	for _, p := range [][3]string{{"xs", "txs", "[]int"}, {"ws", "tws", "[]string"}, {"long", "tlong", "[]int"}} {
		for i, n := range c.Names {
			if n == p[0] {
				c.Set(p[1], ZT(c.Vals[i], p[2]))
			}
		}
	}
	return c
}

func (g *sgen) pick(n int, l string) int { return rapid.IntRange(0, n-1).Draw(g.t, l) }

// (the last six begin and end with characters that Unicode calls space but that are content:
// a dash removes blanks, tabs, CR and LF only)
var textCores = []string{"", "x", "ab", "<p>", "</p>", ".", "é", "T", "(", "}", "%", "#", "a b", "-", "'", "\"",
	"\u00a0", "\u00a0x\u00a0", "\fq\v", "\u2028w\u2029", "\u0085", "\u3000z\u2003"}
var wsRuns = []string{"", " ", "  ", "\n", "\t", " \n ", "\r\n", "\n\n"}

func (g *sgen) text() *S {
	core := rapid.SampledFrom(textCores).Draw(g.t, "core")
	if g.wstext {
		return Text(rapid.SampledFrom(wsRuns).Draw(g.t, "lws") + core + rapid.SampledFrom(wsRuns).Draw(g.t, "rws"))
	}
	if core == "" {
		core = " "
	}
	return Text(core)
}

func (g *sgen) deco(s *S, ntags, nkw int) *S {
	if g.dashes {
		s.D = make([]int, ntags)
		for i := range s.D {
			if g.pick(3, "dashp") == 0 {
				s.D[i] = g.pick(4, "dash")
			}
		}
	}
	if g.kwsp {
		s.Kw = make([]int, nkw)
		for i := range s.Kw {
			s.Kw[i] = g.pick(len(wsCodes), "kw")
		}
	}
	return s
}

// cond draws a condition: a boolean expression, any value (truthiness), or loop state.
func (g *sgen) cond(loops []loopInfo) *E {
	if len(loops) > 0 && g.pick(3, "loopcond") == 0 {
		switch g.pick(4, "lc") {
		case 0:
			return Attr(Var("loop"), "first")
		case 1:
			return Attr(Var("loop"), "last")
		case 2:
			return Bin(">", Attr(Var("loop"), "index"), Int(int64(g.pick(4, "lci"))))
		default:
			return Bin("==", Bin("%", Attr(Var("loop"), "index0"), Int(2)), Int(0))
		}
	}
	if g.pick(2, "condkind") == 0 {
		return g.x.anyE(rapid.IntRange(0, 2).Draw(g.t, "cd"))
	}
	return g.x.boolE(rapid.IntRange(1, 2).Draw(g.t, "cd"))
}

func (g *sgen) seq(loops []loopInfo) (*E, string) {
	// an inner loop over a list-valued outer variable
	for _, l := range loops {
		if l.elem == "listint" && g.pick(2, "useouter") == 0 {
			return Var(l.val), "int"
		}
	}
	switch g.pick(22, "seq") {
	case 19:
		// chains of filters in which each one matters
		base := rapid.SampledFrom([]string{"xs", "long", "txs", "es"}).Draw(g.t, "chainbase")
		switch g.pick(5, "chain") {
		case 0:
			return Filt(Filt(Var(base), "reverse"), "reverse"), "int"
		case 1:
			return Filt(Filt(Var(base), "sort"), "reverse"), "int"
		case 2:
			return Filt(Filt(Var(base), "slice", Int(0), Int(0)), "reverse"), "int"
		case 3:
			return Filt(Filt(Var(base), "reverse"), "slice", Int(int64(g.pick(3, "from"))), Int(int64(g.pick(4, "n")))), "int"
		default:
			return Filt(Filt(Filt(Var(base), "slice", Int(1), Int(3)), "sort"), "reverse"), "int"
		}
	case 20:
		return Filt(Filt(Var("nul"), "default", Var("xs")), "reverse"), "int"
	case 21:
		return Filt(Filt(Var("m1"), "keys"), "reverse"), "str"
	case 16:
		return Var("txs"), "int"
	case 17:
		return Var("tws"), "str"
	case 18:
		return Var("tlong"), "int"
	case 0:
		return Var("xs"), "int"
	case 1:
		return Var("ws"), "str"
	case 2:
		return Var("long"), "int"
	case 3:
		return Var("ll"), "listint"
	case 4:
		return Var(rapid.SampledFrom([]string{"es", "nul", "undef", "em"}).Draw(g.t, "emptyseq")), "int"
	case 5:
		n := g.pick(5, "nlit")
		items := make([]*E, n)
		for i := range items {
			items[i] = g.x.intE(1)
		}
		return List(items...), "int"
	case 6, 7:
		a := int64(rapid.IntRange(-3, 6).Draw(g.t, "ra"))
		b := int64(rapid.IntRange(-3, 9).Draw(g.t, "rb"))
		return Call("range", Int(a), Int(b)), "int"
	case 8, 9:
		a := int64(rapid.IntRange(-5, 10).Draw(g.t, "ra"))
		b := int64(rapid.IntRange(-5, 10).Draw(g.t, "rb"))
		st := int64(rapid.SampledFrom([]int{1, 2, 3, -1, -2, -3, 7, -7}).Draw(g.t, "rs"))
		return Call("range", Int(a), Int(b), Int(st)), "int"
	case 10:
		return Var("str"), "str"
	case 11:
		e := Str(rapid.SampledFrom([]string{"", "ab", "héy", "日本"}).Draw(g.t, "strlit"))
		return e, "str"
	case 12:
		return Filt(Var("xs"), "reverse"), "int"
	case 13:
		return Var("m1"), "int"
	case 14:
		return Call("range", Var("c"), Bin("+", Var("c"), Int(int64(g.pick(4, "rlen"))))), "int"
	default:
		return Var("s"), "str"
	}
}

func (g *sgen) printStmt(loops []loopInfo) *S {
	if len(loops) > 0 && g.pick(2, "printloop") == 0 {
		l := loops[len(loops)-1]
		switch g.pick(10, "lp") {
		case 0, 1:
			f := rapid.SampledFrom([]string{"index", "index0", "revindex", "revindex0", "length"}).Draw(g.t, "lf")
			return g.deco(Print(Attr(Var("loop"), f)), 1, 0)
		case 2:
			f := rapid.SampledFrom([]string{"first", "last"}).Draw(g.t, "lb")
			return g.deco(Print(Cond(Attr(Var("loop"), f), Str("Y"), Str("N"))), 1, 0)
		case 3, 4, 5:
			if l.elem == "int" || l.elem == "str" {
				return g.deco(Print(Var(l.val)), 1, 0)
			}
			return g.deco(Print(Filt(Var(l.val), "length")), 1, 0)
		case 6:
			if l.key != "" {
				return g.deco(Print(Var(l.key)), 1, 0)
			}
			return g.deco(Print(Attr(Var("loop"), "index")), 1, 0)
		case 7:
			// all counters at once
			e := Bin("~", Bin("~", Bin("~", Attr(Var("loop"), "index"), Str("/")), Attr(Var("loop"), "revindex")), Bin("~", Str("/"), Attr(Var("loop"), "length")))
			return g.deco(Print(e), 1, 0)
		}
	}
	if len(g.sets) > 0 && g.pick(3, "printset") == 0 {
		return g.deco(Print(Var(g.sets[g.pick(len(g.sets), "whichset")])), 1, 0)
	}
	if g.pick(2, "pk") == 0 {
		return g.deco(Print(g.x.intE(rapid.IntRange(0, 2).Draw(g.t, "pd"))), 1, 0)
	}
	return g.deco(Print(g.x.strE(rapid.IntRange(0, 2).Draw(g.t, "pd"))), 1, 0)
}

func (g *sgen) setStmt(loops []loopInfo) *S {
	name := fmt.Sprintf("v%d", g.pick(3, "setname"))
	var e *E
	switch g.pick(5, "setform") {
	case 4:
		// an empty value assigned over whatever the name held (context value, earlier set,
		// earlier iteration)
		e = rapid.SampledFrom([]*E{Null(), Var("nul"), Var("undef"), Attr(Var("m"), "nokey"), Str(""), Int(0)}).Draw(g.t, "emptyval")
		if g.pick(3, "overctx") == 0 {
			name = rapid.SampledFrom([]string{"a", "s", "xs"}).Draw(g.t, "ctxname")
		}
	case 0:
		e = g.x.intE(1)
	case 1:
		// accumulator: visible to later iterations and after the loop
		add := Int(int64(1 + g.pick(3, "inc")))
		for _, l := range loops {
			if l.elem == "int" {
				add = Var(l.val)
			}
		}
		e = Bin("+", Filt(Var(name), "default", Int(0)), add)
	case 2:
		if len(g.sets) > 0 {
			// chains: b = a ...
			e = Bin("*", Filt(Var(g.sets[g.pick(len(g.sets), "from")]), "default", Int(1)), Int(2))
		} else {
			e = Int(int64(g.pick(50, "setlit")))
		}
	default:
		if len(loops) > 0 {
			e = Attr(Var("loop"), "index")
		} else {
			e = Int(int64(g.pick(50, "setlit")))
		}
	}
	known := false
	for _, s := range g.sets {
		if s == name {
			known = true
		}
	}
	if !known {
		g.sets = append(g.sets, name)
	}
	return g.deco(SetS(name, e), 1, 1)
}

func (g *sgen) body(d int, loops []loopInfo) []*S {
	if g.pick(8, "emptybody") == 0 {
		// an empty body: the tags stand directly next to each other
		return nil
	}
	n := rapid.IntRange(1, 4).Draw(g.t, "nstmts")
	var out []*S
	for i := 0; i < n && g.budget > 0; i++ {
		g.budget--
		out = append(out, g.stmt(d, loops))
	}
	return out
}

// program: a body that contains at least one loop (most of C09's content is about loops).
func (g *sgen) program(d int) []*S {
	var out []*S
	if g.pick(2, "lead") == 0 {
		out = append(out, g.stmt(0, nil))
	}
	out = append(out, g.compound(d, nil, 7+g.pick(3, "loopkind")))
	return append(out, g.body(d, nil)...)
}

func (g *sgen) stmt(d int, loops []loopInfo) *S {
	k := g.pick(10, "stmtkind")
	return g.compound(d, loops, k)
}

func (g *sgen) compound(d int, loops []loopInfo, k int) *S {
	if d <= 0 && k >= 5 {
		k = g.pick(5, "leafkind")
	}
	switch k {
	case 0, 1:
		return g.text()
	case 2, 3:
		return g.printStmt(loops)
	case 4:
		return g.setStmt(loops)
	case 5, 6:
		s := &S{K: "if"}
		nc := rapid.IntRange(1, 3).Draw(g.t, "nconds")
		for i := 0; i < nc; i++ {
			s.Conds = append(s.Conds, g.cond(loops))
			s.Bodies = append(s.Bodies, g.body(d-1, loops))
		}
		if g.pick(2, "haselse") == 0 {
			s.HasElse = true
			s.Else = g.body(d-1, loops)
		}
		ntags := nc + 1
		if s.HasElse {
			ntags++
		}
		return g.deco(s, ntags, nc)
	default:
		seq, elem := g.seq(loops)
		g.nloop++
		li := loopInfo{val: fmt.Sprintf("i%d", g.nloop), elem: elem}
		s := &S{K: "for", Name: li.val, E: seq}
		if g.pick(3, "haskey") == 0 && seq.K != "str" && !(seq.K == "var" && (seq.S == "str" || seq.S == "s")) {
			li.key = fmt.Sprintf("k%d", g.nloop)
			s.Key = li.key
		}
		// representative values for generation-time domain checks
		switch elem {
		case "int":
			g.x.scope[li.val] = int64(1)
			g.x.extraInts = append(g.x.extraInts, Var(li.val))
		case "str":
			g.x.scope[li.val] = "a"
			g.x.extraStrs = append(g.x.extraStrs, Var(li.val))
		}
		g.x.scope["loop"] = loopMap(0, 2)
		s.Body = g.body(d-1, append(append([]loopInfo(nil), loops...), li))
		switch elem {
		case "int":
			g.x.extraInts = g.x.extraInts[:len(g.x.extraInts)-1]
		case "str":
			g.x.extraStrs = g.x.extraStrs[:len(g.x.extraStrs)-1]
		}
		delete(g.x.scope, li.val)
		if g.pick(2, "forelse") == 0 {
			s.HasElse = true
			s.Else = g.body(d-1, loops)
		}
		// after the inner loop the outer loop's counters are read again
		ntags := 2
		if s.HasElse {
			ntags = 3
		}
		return g.deco(s, ntags, 3)
	}
}
