package vh

// C04 — literal text is emitted exactly; comments and verbatim bodies are inert.
//
// Oracle: the expected output is the concatenation of the segments' contributions, computed
// by the harness from its own segment list (text verbatim, print -> the known value bytes,
// comment -> nothing, set -> nothing, always-true if -> body, 2-element for -> body twice);
// byte equality. Spies mentioned inside comments and verbatim bodies must never run.

import (
	"bytes"
	"fmt"
	"github.com/semihalev/twig"
	"strings"
	"testing"

	"pgregory.net/rapid"
)

type C04Case struct {
	Segs []*S            `json:"segs"`
	Vals map[string]BStr `json:"vals"` // context strings printed by {{ name }}
}

var hostileBytes = []byte{'{', '}', '%', '#', '-', '\\', '"', '\'', '\n', '\r', '\t', 0, ' ', 0x80, 0xc3, 0xff}

// genText draws literal text that contains no opening delimiter.
func genText(t *rapid.T, maxLen int) string {
	n := rapid.IntRange(0, maxLen).Draw(t, "tlen")
	b := make([]byte, 0, n)
	for i := 0; i < n; i++ {
		var c byte
		switch rapid.IntRange(0, 5).Draw(t, "bk") {
		case 0, 1:
			c = hostileBytes[rapid.IntRange(0, len(hostileBytes)-1).Draw(t, "hb")]
		case 2:
			c = rapid.Byte().Draw(t, "anyb")
		case 3:
			// a multi-byte rune
			r := rapid.SampledFrom([]string{"é", "日", "😀", "ß", " "}).Draw(t, "rune")
			b = append(b, r...)
			continue
		default:
			c = byte(rapid.IntRange(0x20, 0x7e).Draw(t, "ascii"))
		}
		if len(b) > 0 && b[len(b)-1] == '{' && (c == '{' || c == '%' || c == '#') {
			c = 'x'
		}
		b = append(b, c)
	}
	return string(b)
}

// fixTextBeforeTag applies the construction rule for text that is directly followed by a tag:
// it must not end in `{` (would become part of the delimiter) nor in `\` (the tokenizer's
// undocumented escape) — excluded, counted by the caller.
func fixTextBeforeTag(s string) (string, bool) {
	changed := false
	for len(s) > 0 && (s[len(s)-1] == '{' || s[len(s)-1] == '\\') {
		s = s[:len(s)-1]
		changed = true
	}
	return s, changed
}

var commentSeeds = []string{"{{ spy(1) }}", "{% include 'missing' %}", "{% if %}", "{{ v0|spyf }}", "{% for x in spy(2) %}", "{{", "{%", "}}", "%}", "{# nested", "{{ v0 }}", "\\", "#", "# }"}

func genCommentBody(t *rapid.T) string {
	var b strings.Builder
	n := rapid.IntRange(0, 3).Draw(t, "ncp")
	for i := 0; i < n; i++ {
		if rapid.Bool().Draw(t, "seed") {
			b.WriteString(rapid.SampledFrom(commentSeeds).Draw(t, "cseed"))
		} else {
			b.WriteString(genText(t, 12))
		}
	}
	s := strings.ReplaceAll(b.String(), "#}", "# }")
	return s
}

var verbatimTags = []string{"{% EndVerbatim %}", "{% ENDVERBATIM %}", "{% Verbatim %}", "{% end verbatim %}", "{{ v0 -}}", "{{- v1 }}", "{%- if v0 -%}", "{{- spy(5) -}}", "{#- c -#}", "{{ v0 }}", "{{ v1|upper }}", "{% if v0 %}", "{% endif %}", "{{ spy(3) }}", "{% set q = spy(4) %}", "{# c #}", "{{ 'lit' ~ v0 }}", "{% for i in v0 %}", "{% endfor %}", "{% include v1 %}"}

func genVerbatimBody(t *rapid.T) (string, bool) {
	var b strings.Builder
	hasTags := false
	n := rapid.IntRange(1, 4).Draw(t, "nvp")
	for i := 0; i < n; i++ {
		if rapid.IntRange(0, 2).Draw(t, "vtag") == 0 {
			b.WriteString(rapid.SampledFrom(verbatimTags).Draw(t, "vt"))
			hasTags = true
		} else {
			s, _ := fixTextBeforeTag(genText(t, 10))
			b.WriteString(s)
		}
	}
	return b.String(), hasTags
}

const c04Marker0 = "MARK<zero>"
const c04Marker1 = "MARK<one>"

func genC04(t *rapid.T, r *Rec) C04Case {
	c := C04Case{Vals: map[string]BStr{}}
	nv := rapid.IntRange(1, 3).Draw(t, "nvals")
	for i := 0; i < nv; i++ {
		c.Vals[fmt.Sprintf("p%d", i)] = BStr(genText(t, 8) + rapid.SampledFrom([]string{"", "{{ x }}", "{% y %}", "<b>", "&"}).Draw(t, "valtail"))
	}
	nmac := 0
	var gen func(d int) []*S
	gen = func(d int) []*S {
		n := rapid.IntRange(1, 6).Draw(t, "nsegs")
		if rapid.IntRange(0, 3).Draw(t, "manysegs") == 0 {
			// longer node lists, at every nesting level (bodies of 7..18 segments)
			n = rapid.IntRange(7, 18).Draw(t, "nsegs2")
		}
		var out []*S
		for i := 0; i < n; i++ {
			k := rapid.IntRange(0, 11).Draw(t, "segkind")
			if d <= 0 && k >= 10 {
				k = 0
			}
			switch k {
			case 0, 1, 2, 3:
				maxLen := 24
				if rapid.IntRange(0, 19).Draw(t, "long") == 0 {
					maxLen = scale(300, 3000)
				}
				out = append(out, Text(genText(t, maxLen)))
			case 4, 5:
				out = append(out, Print(Var(fmt.Sprintf("p%d", rapid.IntRange(0, nv-1).Draw(t, "pv")))))
			case 6:
				lit := rapid.SampledFrom([]string{"", "a", "x y", "<i>", "é", "-", "#", "%"}).Draw(t, "plit")
				out = append(out, Print(Str(lit)))
			case 7:
				out = append(out, &S{K: "comment", T: BStr(genCommentBody(t))})
			case 8:
				body, _ := genVerbatimBody(t)
				out = append(out, &S{K: "verbatim", T: BStr(body)})
			case 9:
				out = append(out, SetS("zz", Int(1)))
			case 10:
				if rapid.IntRange(0, 2).Draw(t, "macrowrap") == 0 {
					// text, comments and verbatim bodies inside a macro body, called once with
					// marker arguments named like the names verbatim bodies mention
					var inner []*S
					for _, s := range gen(0) {
						if s.K == "text" || s.K == "comment" || s.K == "verbatim" {
							inner = append(inner, s)
						}
					}
					nmac++
					name := fmt.Sprintf("mq%d", nmac)
					out = append(out, &S{K: "macro", Name: name, Params: []Param{{Name: "v0"}, {Name: "v1"}}, Body: inner},
						Print(&E{K: "mcall", S: name, M: "local", A: []*E{Str(c04Marker0), Str(c04Marker1)}}))
					continue
				}
				out = append(out, &S{K: "if", Conds: []*E{Bool(true)}, Bodies: [][]*S{gen(d - 1)}})
			default:
				out = append(out, &S{K: "for", Name: "qq", E: List(Int(1), Int(2)), Body: gen(d - 1)})
			}
		}
		return out
	}
	c.Segs = gen(2)
	// a long tail so that the second tokenizer (templates above 4096 bytes) runs as well
	if rapid.IntRange(0, 5).Draw(t, "big") == 0 {
		c.Segs = append(c.Segs, Text(strings.Repeat("p{ad}%#", 700)))
	}
	return c
}

// c04Normalise merges adjacent texts and applies the text-before-tag rule everywhere;
// returns the number of exclusions applied.
func c04Normalise(segs []*S) ([]*S, int) {
	excl := 0
	var out []*S
	for _, s := range segs {
		cp := *s
		if cp.K == "if" {
			b, n := c04Normalise(cp.Bodies[0])
			cp.Bodies = [][]*S{b}
			excl += n
		}
		if cp.K == "for" || cp.K == "macro" {
			b, n := c04Normalise(cp.Body)
			cp.Body = b
			excl += n
		}
		if cp.K == "text" && len(out) > 0 && out[len(out)-1].K == "text" {
			out[len(out)-1] = Text(string(out[len(out)-1].T) + string(cp.T))
			continue
		}
		out = append(out, &cp)
	}
	// texts followed by a tag inside this body (the tag after the body's last text belongs
	// to the enclosing construct's closing tag, so the rule applies there too except at the
	// very end of the template — applying it everywhere is sound, only slightly narrower)
	for i, s := range out {
		if s.K == "text" {
			t := string(s.T)
			// no opening delimiter may arise inside the merged text
			t = breakDelims(t)
			fixed, ch := fixTextBeforeTag(t)
			if ch {
				excl++
			}
			out[i] = Text(fixed)
		}
	}
	return out, excl
}

// breakDelims inserts a space wherever merging text segments would create an opening delimiter.
func breakDelims(t string) string {
	var b strings.Builder
	for i := 0; i < len(t); i++ {
		if i > 0 && t[i-1] == '{' && (t[i] == '{' || t[i] == '%' || t[i] == '#') {
			b.WriteByte(' ')
		}
		b.WriteByte(t[i])
	}
	return b.String()
}

func c04Expect(segs []*S, vals map[string]BStr, w *bytes.Buffer, exactVerbatim *bool) {
	macros := map[string]*S{}
	for _, s := range segs {
		if s.K == "macro" {
			macros[s.Name] = s
		}
	}
	for _, s := range segs {
		switch s.K {
		case "macro":
			// a definition produces no output
			continue
		case "text":
			w.WriteString(string(s.T))
		case "print":
			if s.E.K == "mcall" {
				if m := macros[s.E.S]; m != nil {
					c04Expect(m.Body, vals, w, exactVerbatim)
				}
			} else if s.E.K == "var" {
				w.WriteString(string(vals[s.E.S]))
			} else {
				w.WriteString(s.E.S)
			}
		case "verbatim":
			if strings.Contains(string(s.T), "{{") || strings.Contains(string(s.T), "{%") || strings.Contains(string(s.T), "{#") {
				*exactVerbatim = false
			}
			w.WriteString("\x01VERB\x02" + c04VerbatimPattern(string(s.T)) + "\x01/VERB\x02")
		case "if":
			c04Expect(s.Bodies[0], vals, w, exactVerbatim)
		case "for":
			c04Expect(s.Body, vals, w, exactVerbatim)
			c04Expect(s.Body, vals, w, exactVerbatim)
		}
	}
}

const c04Gap = "\x01GAP\x02"

// c04VerbatimPattern replaces every tag-shaped span of a verbatim body by a gap marker: how the
// engine spells such a span in the output is not fixed by the statement, but the text between the
// spans is literal text and must come out in order. The whitespace next to a dashed delimiter is
// dropped from the expectation (the gap absorbs it if the engine keeps it).
func c04VerbatimPattern(body string) string {
	var b strings.Builder
	rest := body
	for {
		i := -1
		var closer string
		for _, d := range [][2]string{{"{{", "}}"}, {"{%", "%}"}, {"{#", "#}"}} {
			if j := strings.Index(rest, d[0]); j >= 0 && (i < 0 || j < i) {
				i, closer = j, d[1]
			}
		}
		if i < 0 {
			b.WriteString(rest)
			return b.String()
		}
		text, tail := rest[:i], rest[i+2:]
		end := strings.Index(tail, closer)
		if end < 0 {
			// an opening delimiter that is never closed inside the body: everything after it is a gap
			b.WriteString(text + c04Gap)
			return b.String()
		}
		if strings.HasPrefix(tail, "-") {
			text = strings.TrimRight(text, " \t\r\n")
		}
		b.WriteString(text + c04Gap)
		rest = tail[end+2:]
		if end > 0 && tail[end-1] == '-' {
			rest = strings.TrimLeft(rest, " \t\r\n")
		}
	}
}

// c04MatchPattern: out consists of the chunks of pattern (split at the gap markers) in order,
// the first one as a prefix and the last one as a suffix, with anything in the gaps.
func c04MatchPattern(pattern, out string) bool {
	chunks := strings.Split(pattern, c04Gap)
	if len(chunks) == 1 {
		return out == pattern
	}
	if !strings.HasPrefix(out, chunks[0]) {
		return false
	}
	pos := len(chunks[0])
	for _, ch := range chunks[1 : len(chunks)-1] {
		j := strings.Index(out[pos:], ch)
		if j < 0 {
			return false
		}
		pos += j + len(ch)
	}
	last := chunks[len(chunks)-1]
	return len(out)-len(last) >= pos && strings.HasSuffix(out, last)
}

func hasVerbatimTags(segs []*S) bool {
	for _, s := range segs {
		switch s.K {
		case "verbatim":
			t := string(s.T)
			if strings.Contains(t, "{{") || strings.Contains(t, "{%") || strings.Contains(t, "{#") {
				return true
			}
		case "if":
			if hasVerbatimTags(s.Bodies[0]) {
				return true
			}
		case "for", "macro":
			if hasVerbatimTags(s.Body) {
				return true
			}
		}
	}
	return false
}

// stripVerbatimTagged removes verbatim segments whose body contains tag syntax (they are
// checked by the context-independence oracle instead of byte equality).
func splitVerbatim(segs []*S) []*S {
	var out []*S
	for _, s := range segs {
		cp := *s
		switch s.K {
		case "verbatim":
			t := string(s.T)
			if strings.Contains(t, "{{") || strings.Contains(t, "{%") || strings.Contains(t, "{#") {
				continue
			}
		case "if":
			cp.Bodies = [][]*S{splitVerbatim(s.Bodies[0])}
		case "for", "macro":
			cp.Body = splitVerbatim(s.Body)
		}
		out = append(out, &cp)
	}
	return out
}

func checkC04(c C04Case) error {
	segs, _ := c04Normalise(c.Segs)
	ctx := map[string]interface{}{}
	for k, v := range c.Vals {
		ctx[k] = string(v)
	}
	ctx["v0"] = c04Marker0
	ctx["v1"] = c04Marker1
	run := func(segs []*S, ctx map[string]interface{}) (Res, *Spies, string) {
		src := PrintBody(segs, SPrint{})
		e := newEngine(map[string]string{"main": src})
		sp := NewSpies()
		sp.Install(e)
		return render(e, "main", ctx), sp, src
	}
	// (1) byte equality on the template without tag-bearing verbatim bodies
	exactSegs := splitVerbatim(segs)
	var want bytes.Buffer
	exact := true
	c04Expect(exactSegs, c.Vals, &want, &exact)
	wantS := strings.NewReplacer("\x01VERB\x02", "", "\x01/VERB\x02", "").Replace(want.String())
	r, sp, src := run(exactSegs, ctx)
	if r.Failed() {
		return fmt.Errorf("render failed: %v; source %s", r, q(src))
	}
	if r.Out != wantS {
		return fmt.Errorf("output differs from the literal segments: got %s want %s; source %s", q(r.Out), q(wantS), q(src))
	}
	if sp.Count() != 0 {
		return fmt.Errorf("something inside a comment or verbatim body was evaluated: spy calls %v; source %s", sp.Log, q(src))
	}
	// the same bytes reach a writer that is not an in-memory buffer, whole or as a clean prefix
	mk := func() *twig.Engine { e := newEngine(map[string]string{"main": src}); NewSpies().Install(e); return e }
	if err := writersAgree(mk, "main", ctx, r); err != nil {
		return fmt.Errorf("%v; source %s", err, q(src))
	}
	// ... and come out of a template that went through the compiled form
	rc := guard(func() (string, error) {
		data, err := twig.SerializeCompiledTemplate(&twig.CompiledTemplate{Name: "main", Source: src, LastModified: 1700000000, CompileTime: 1700000001})
		if err != nil {
			return "", err
		}
		e2 := twig.New()
		NewSpies().Install(e2)
		if err := e2.LoadFromCompiledData(data); err != nil {
			return "", err
		}
		return e2.Render("main", ctx)
	})
	if rc.Failed() || rc.Out != wantS {
		return fmt.Errorf("serialised as a compiled template and loaded into a fresh engine the output is %v, want %s; source %s", rc, q(wantS), q(src))
	}
	// (2) verbatim bodies with tag syntax: same output under three contexts, no context
	// data, no evaluation, and the rest of the template still exact
	if hasVerbatimTags(segs) {
		ctxA := map[string]interface{}{}
		for k, v := range c.Vals {
			ctxA[k] = string(v)
		}
		ctxB := map[string]interface{}{}
		for k, v := range ctx {
			ctxB[k] = v
		}
		ctxB["v0"], ctxB["v1"] = c04Marker1, c04Marker0
		var outs []string
		for _, cx := range []map[string]interface{}{ctx, ctxA, ctxB} {
			rr, sp2, src2 := run(segs, cx)
			if rr.Failed() {
				return fmt.Errorf("render with verbatim body failed: %v; source %s", rr, q(src2))
			}
			if sp2.Count() != 0 {
				return fmt.Errorf("a verbatim body was evaluated: spy calls %v; source %s", sp2.Log, q(src2))
			}
			outs = append(outs, rr.Out)
		}
		src2 := PrintBody(segs, SPrint{})
		if outs[0] != outs[1] || outs[0] != outs[2] {
			return fmt.Errorf("verbatim output depends on the context: %s / %s / %s; source %s", q(outs[0]), q(outs[1]), q(outs[2]), q(src2))
		}
		markerPrinted := false
		for _, s := range c.Vals {
			if strings.Contains(string(s), "MARK<") {
				markerPrinted = true
			}
		}
		if !markerPrinted && strings.Contains(outs[0], "MARK<") {
			return fmt.Errorf("verbatim output contains context data: %s; source %s", q(outs[0]), q(src2))
		}
		// the text around the tag-shaped spans of the bodies, and everything outside the bodies, is
		// literal text: in the output, in order
		var pat bytes.Buffer
		c04Expect(segs, c.Vals, &pat, &exact)
		patS := strings.NewReplacer("\x01VERB\x02", "", "\x01/VERB\x02", "").Replace(pat.String())
		if !c04MatchPattern(patS, outs[0]) {
			return fmt.Errorf("literal text around the tags of a verbatim body is missing or out of order: got %s, want %s (anything at %s); source %s", q(outs[0]), q(patS), q(c04Gap), q(src2))
		}
	}
	return nil
}

func c04NonTrivial(segs []*S) (bool, []string) {
	nt := false
	var cl []string
	var rec func(b []*S)
	rec = func(b []*S) {
		for i, s := range b {
			switch s.K {
			case "text":
				t := string(s.T)
				if !isASCII(t) {
					nt = true
					cl = append(cl, "text-nonascii")
				}
				if strings.ContainsAny(t, "{}%#\\\x00") {
					nt = true
					cl = append(cl, "text-lone-delimiter-char")
				}
				if len(t) > 4096 {
					cl = append(cl, "text>4096")
				}
			case "comment", "verbatim":
				t := string(s.T)
				if strings.Contains(t, "{{") || strings.Contains(t, "{%") || strings.Contains(t, "}}") {
					nt = true
					cl = append(cl, s.K+"-with-tag-syntax")
				}
				cl = append(cl, s.K)
			case "if":
				rec(s.Bodies[0])
			case "for":
				rec(s.Body)
			case "macro":
				cl = append(cl, "inside-macro-body")
				rec(s.Body)
			}
			if i > 0 && s.K != "text" && b[i-1].K != "text" {
				nt = true
				cl = append(cl, "adjacent-tags")
			}
		}
	}
	rec(segs)
	return nt, cl
}

const c04Rule = "templates of 1-30 segments (node lists of 1-18 entries at every nesting level): literal text over all 256 byte values (boosted: braces, percent, hash, dash, backslash, quotes, CR/LF/TAB, NUL, bytes >= 0x80, multi-byte runes; 5% long runs; 1 in 6 templates padded beyond 4096 bytes so the second tokenizer runs), prints of context strings with known bytes, comments and verbatim bodies seeded with spies/includes/unbalanced tags, set, an always-true if and a 2-element for; constructed so that no text contains an opening delimiter or ends in '{' or '\\' before a tag (counted); non-trivial = text with a byte >= 0x80, NUL or a lone delimiter character, adjacent tags, or a comment/verbatim body containing tag syntax; distinct by source + values"

func TestC04Text(t *testing.T) {
	r := NewRec(t, "C04", c04Rule)
	defer r.Flush()
	rapid.Check(t, func(rt *rapid.T) {
		c := genC04(rt, r)
		segs, excl := c04Normalise(c.Segs)
		if excl > 0 {
			r.ClassN("excluded:text-ending-in-brace-or-backslash-before-a-tag (trimmed)", excl)
		}
		nt, cl := c04NonTrivial(segs)
		src := PrintBody(segs, SPrint{})
		sample := src
		if len(sample) > 300 {
			sample = sample[:300] + "…"
		}
		if len(src) > 4096 {
			cl = append(cl, "template>4096")
		}
		r.Case(src+fmt.Sprint(c.Vals), nt, q(sample), cl...)
		if err := checkC04(c); err != nil {
			r.Fail(rt, "C04.text", c, err)
		}
	})
}

// TestC04Bytes: every byte value and every pair of hostile bytes before, between and after
// tags, below and above the 4096-byte tokenizer switch.
func TestC04Bytes(t *testing.T) {
	r := NewRec(t, "C04", "exhaustive: each of the 256 byte values and each of the 16x16 pairs of hostile bytes placed before a tag, between two tags and after a tag ({{ p }}, {% if %}, {# #}), in a short template and in one padded beyond 4096 bytes; '{' and '\\' directly before a tag are excluded (counted); all cases non-trivial")
	defer r.Flush()
	r.SetExhaustive()
	var units []string
	for b := 0; b < 256; b++ {
		units = append(units, string([]byte{byte(b)}))
	}
	for _, a := range hostileBytes {
		for _, b := range hostileBytes {
			units = append(units, string([]byte{a, b}))
		}
	}
	tags := []func() *S{
		func() *S { return Print(Var("p0")) },
		func() *S { return &S{K: "if", Conds: []*E{Bool(true)}, Bodies: [][]*S{{Text("I")}}} },
		func() *S { return &S{K: "comment", T: " c "} },
	}
	for _, u := range units {
		for ti, tg := range tags {
			for _, big := range []bool{false, true} {
				segs := []*S{Text(u), tg(), Text(u), tg(), Text(u)}
				if big {
					segs = append(segs, Text(strings.Repeat("0123456789abcdef", 260)))
				}
				c := C04Case{Segs: segs, Vals: map[string]BStr{"p0": BStr("<" + u + ">")}}
				_, excl := c04Normalise(segs)
				if excl > 0 {
					r.Excl("unit ends in '{' or '\\' directly before a tag")
				}
				r.Case(fmt.Sprint(q(u), ti, big), true, q(PrintBody(segs[:5], SPrint{})), fmt.Sprintf("tag:%d", ti))
				if err := checkC04(c); err != nil {
					r.FailEnum(t, "C04.text", c, err)
				}
			}
		}
	}
}

// ---- the exception: whitespace next to a dashed delimiter ------------------------------------------

type C04DashCase struct {
	Lead  BStr `json:"lead"`
	Core  BStr `json:"core"`
	Trail BStr `json:"trail"`
	Form  int  `json:"form"`
	Big   bool `json:"big,omitempty"`
}

// checkC04Dash: a dash removes the whitespace between its delimiter and the nearest non-blank byte
// of the adjacent text and nothing else: the other end of that text, and its interior, stay.
func checkC04Dash(c C04DashCase) error {
	const ws = " \t\r\n"
	t := string(c.Lead) + string(c.Core) + string(c.Trail)
	var src, want string
	switch c.Form {
	case 0:
		src, want = "{{ p0 }}"+t+"{{- p0 }}Z", "<P>"+strings.TrimRight(t, ws)+"<P>Z"
	case 1:
		src, want = "A{{ p0 -}}"+t+"{{ p0 }}", "A<P>"+strings.TrimLeft(t, ws)+"<P>"
	case 2:
		src, want = "A{% if true -%}"+t+"{%- endif %}Z", "A"+strings.Trim(t, ws)+"Z"
	case 3:
		src, want = "{{ p0 }}"+t+"{%- if true %}"+t+"{% endif -%}"+t+"{{ p0 }}", "<P>"+strings.TrimRight(t, ws)+t+strings.TrimLeft(t, ws)+"<P>"
	default:
		src, want = t+"{{- p0 -}}"+t, strings.TrimRight(t, ws)+"<P>"+strings.TrimLeft(t, ws)
	}
	if c.Big {
		pad := strings.Repeat("0123456789abcdef", 260)
		src, want = src+pad, want+pad
	}
	r := render(newEngine(map[string]string{"main": src}), "main", map[string]interface{}{"p0": "<P>"})
	if r.Failed() {
		return fmt.Errorf("render failed: %v; source %s", r, q(trunc(src)))
	}
	if r.Out != want {
		return fmt.Errorf("a dash removed something other than the whitespace next to its delimiter: got %s, want %s; source %s", q(trunc(r.Out)), q(trunc(want)), q(trunc(src)))
	}
	return nil
}

func TestC04Dashes(t *testing.T) {
	r := NewRec(t, "C04", "exhaustive: text = lead + core + trail with lead, trail out of 7 runs of blanks (none, space, tab, LF, CRLF, mixed, lone CR) and 8 cores with non-blank ends (ASCII, inner blanks, multi-byte, invalid UTF-8, NBSP at either end, empty), placed next to dashed print and block delimiters in 5 arrangements, short and padded beyond 4096 bytes; expectation: exactly the blanks between the dash and the nearest other byte are gone; non-trivial = the text has blanks at the end the dash does not face")
	defer r.Flush()
	r.SetExhaustive()
	blanks := []string{"", " ", "\t", "\n", "\r\n", " \n\t ", "\r"}
	cores := []string{"x", "a b", "a \n b", "\u00e9t\u00e9", "\xffq\xfe", "x\u00a0", "\u00a0x", ""}
	for _, lead := range blanks {
		for _, core := range cores {
			for _, trail := range blanks {
				for form := 0; form < 5; form++ {
					for _, big := range []bool{false, true} {
						c := C04DashCase{Lead: BStr(lead), Core: BStr(core), Trail: BStr(trail), Form: form, Big: big}
						r.Case(fmt.Sprint(q(lead), q(core), q(trail), form, big), lead != "" || trail != "", c, fmt.Sprintf("form:%d", form))
						if err := checkC04Dash(c); err != nil {
							r.FailEnumKey(t, "C04.dash", fmt.Sprint(form, big), c, err)
						}
					}
				}
			}
		}
	}
}

// TestC04LongComments: comments of every size class stay comments.
func TestC04LongComments(t *testing.T) {
	r := NewRec(t, "C04", "exhaustive: one comment whose body has 0..300000 bytes (22 sizes around 256, 4096, 8192, 32768, 65536, 131072) and contains print tags, between two texts, before and after a tag; oracle: the texts, nothing of the comment, no evaluation; all cases non-trivial")
	defer r.Flush()
	r.SetExhaustive()
	for _, n := range []int{0, 1, 255, 256, 257, 4000, 4095, 4096, 4097, 8000, 8191, 8192, 8193, 9000, 32767, 32768, 32769, 65535, 65536, 65537, 131073, 300000} {
		body := " " + strings.Repeat("c {{ spy(1) }} {{ p0 }} ", n/24+1)[:n] + " "
		for form := 0; form < 3; form++ {
			segs := []*S{Text("left "), {K: "comment", T: BStr(body)}, Text(" right")}
			switch form {
			case 1:
				segs = append([]*S{Print(Var("p0"))}, segs...)
			case 2:
				segs = append(segs, Print(Var("p0")), &S{K: "comment", T: BStr(body)}, Text("end"))
			}
			c := C04Case{Segs: segs, Vals: map[string]BStr{"p0": "<P0>"}}
			r.Case(fmt.Sprint(n, form), true, fmt.Sprintf("comment of %d bytes, form %d", n, form))
			if err := checkC04(c); err != nil {
				r.FailEnumKey(t, "C04.text", fmt.Sprint(form), c, err)
			}
		}
	}
}

func init() {
	reg("C04.text", checkC04)
	reg("C04.dash", checkC04Dash)
}
