package vh

// C12 — macros bind arguments positionally with defaults, alike however they are reached.
// Oracles: the reference interpreter for the value; metamorphic equality of the five ways
// of reaching the same macro (local, _self, import as, from import, from import as alias);
// caller probes unchanged after the call.

import (
	"fmt"
	"github.com/semihalev/twig"
	"os"
	"path/filepath"
	"strings"
	"testing"
	"time"

	"pgregory.net/rapid"
)

type C12Case struct {
	Ctx    Ctx  `json:"ctx"`
	Macros []*S `json:"macros"` // the library
	Body   []*S `json:"body"`   // call sites, written with M = "local"
	// Wrap: the including template also defines a macro of its own whose body calls the first
	// library macro the same way the call sites do (a macro reached from inside another macro)
	Wrap bool `json:"wrap,omitempty"`
	// Shadow: where the call sites name the library macros through a module or an alias, the
	// calling template defines a macro of its own under the first library macro's plain name
	Shadow bool `json:"shadow,omitempty"`
	// Style: how the macro names are spelled: 0 as generated (m0, m1, ...), 1 camelCase (renderM0),
	// 2 leading underscore (_m0), 3 upper case (M0), 4 with digits and underscores (m0_2x), 5 the names of
	// parameters and caller variables (m0 -> p, m1 -> q, ...)
	Style int `json:"style,omitempty"`
}

// c12Rename spells the macro names of the case in another style, consistently at definitions,
// call sites, parameter defaults and import lists.
func c12Rename(c C12Case) C12Case {
	names := map[string]bool{}
	for _, m := range c.Macros {
		names[m.Name] = true
	}
	f := func(n string) string {
		if !names[n] {
			return n
		}
		switch c.Style {
		case 1:
			return "render" + strings.ToUpper(n[:1]) + n[1:]
		case 2:
			return "_" + n
		case 3:
			return strings.ToUpper(n)
		case 5:
			// the names that parameters and the caller's variables have (m0 -> p, m1 -> q, ...): a
			// parameter or variable named like a visible macro is still the parameter / variable
			if i := int(n[len(n)-1] - '0'); len(n) == 2 && n[0] == 'm' && i >= 0 && i < len(c12ParamNames) {
				return c12ParamNames[i]
			}
			return n + "_2x"
		default:
			return n + "_2x"
		}
	}
	var fixE func(e *E) *E
	fixE = func(e *E) *E {
		if e == nil {
			return nil
		}
		cp := *e
		if cp.K == "mcall" {
			cp.S = f(cp.S)
		}
		cp.A = make([]*E, len(e.A))
		for i, a := range e.A {
			cp.A[i] = fixE(a)
		}
		return &cp
	}
	var rec func(b []*S)
	rec = func(b []*S) {
		for _, st := range b {
			if st.K == "macro" {
				st.Name = f(st.Name)
			}
			st.E = fixE(st.E)
			st.With = fixE(st.With)
			st.Conds = append([]*E(nil), st.Conds...)
			for i, cd := range st.Conds {
				st.Conds[i] = fixE(cd)
			}
			st.Params = append([]Param(nil), st.Params...)
			for i := range st.Params {
				st.Params[i].Def = fixE(st.Params[i].Def)
			}
			st.Args = append([]*E(nil), st.Args...)
			for i, a := range st.Args {
				st.Args[i] = fixE(a)
			}
			rec(st.Body)
			rec(st.Else)
			for _, bb := range st.Bodies {
				rec(bb)
			}
		}
	}
	out := c
	out.Style = 0
	out.Macros = cloneBodyNoMerge(c.Macros)
	out.Body = cloneBodyNoMerge(c.Body)
	rec(out.Macros)
	rec(out.Body)
	return out
}

var c12Forms = []string{"local", "self", "import", "from", "alias", "fromonly", "rebind"}

func retarget(body []*S, form string) []*S {
	out := cloneBodyNoMerge(body)
	var fixE func(e *E) *E
	fixE = func(e *E) *E {
		if e == nil {
			return nil
		}
		cp := *e
		if cp.K == "mcall" {
			if cp.M == "wrapper" {
				cp.M = "local" // the template's own macro, whatever the form
			} else {
				cp.M = form
			}
		}
		cp.A = make([]*E, len(e.A))
		for i, a := range e.A {
			cp.A[i] = fixE(a)
		}
		return &cp
	}
	var rec func(b []*S)
	rec = func(b []*S) {
		for _, s := range b {
			s.E = fixE(s.E)
			for i, c := range s.Conds {
				s.Conds[i] = fixE(c)
			}
			rec(s.Body)
			rec(s.Else)
			for _, bb := range s.Bodies {
				rec(bb)
			}
		}
	}
	rec(out)
	return out
}

// c12Set builds the template set for one way of reaching the macros.
func c12Set(c C12Case, form string) TSet {
	lib := &Tmpl{Name: "lib", Body: cloneBodyNoMerge(c.Macros)}
	main := &Tmpl{Name: "main"}
	body := c.Body
	if c.Wrap && len(c.Macros) > 0 && form != "import" {
		call := &E{K: "mcall", S: c.Macros[0].Name, M: "local", A: []*E{Var("a"), Int(2)}}
		wrapper := &S{K: "macro", Name: "c12wrap", Params: []Param{{Name: "a"}}, Body: []*S{Text("W["), Print(call), Text("]")}}
		body = append(append([]*S{wrapper}, body...), Print(&E{K: "mcall", S: "c12wrap", M: "wrapper", A: []*E{Int(1)}}))
	}
	if c.Shadow && len(c.Macros) > 0 && (form == "import" || form == "alias") {
		main.Body = append(main.Body, &S{K: "macro", Name: c.Macros[0].Name, Params: []Param{{Name: "zz"}}, Body: []*S{Text("LOCAL-SHADOW")}})
	}
	switch form {
	case "local", "self":
		main.Body = append(main.Body, cloneBodyNoMerge(c.Macros)...)
	case "import":
		main.Body = append(main.Body, &S{K: "import", E: Str("lib"), Name: "lib"})
	case "fromonly":
		// only the macros the call sites name are imported; the helpers they call are not
		used := map[string]bool{}
		var scan func(b []*S)
		scan = func(b []*S) {
			for _, st := range b {
				if st.E != nil && st.E.K == "mcall" {
					used[st.E.S] = true
				}
				scan(st.Body)
				scan(st.Else)
				for _, bb := range st.Bodies {
					scan(bb)
				}
			}
		}
		scan(body)
		s := &S{K: "from", E: Str("lib")}
		for _, m := range c.Macros {
			if used[m.Name] {
				s.Imports = append(s.Imports, Import{Name: m.Name})
			}
		}
		if len(s.Imports) > 0 {
			main.Body = append(main.Body, s)
		}
		form = "from"
	case "rebind":
		// the names were bound to the macros of another library first: the later from-import decides
		decoy := &Tmpl{Name: "lib0"}
		first := &S{K: "from", E: Str("lib0")}
		second := &S{K: "from", E: Str("lib")}
		for _, m := range c.Macros {
			decoy.Body = append(decoy.Body, &S{K: "macro", Name: m.Name, Params: []Param{{Name: "zz"}}, Body: []*S{Text("DECOY-" + m.Name)}})
			first.Imports = append(first.Imports, Import{Name: m.Name})
			second.Imports = append(second.Imports, Import{Name: m.Name})
		}
		if len(c.Macros) > 0 {
			main.Body = append(main.Body, first, Print(&E{K: "mcall", S: c.Macros[0].Name, M: "from", A: []*E{Int(0)}}), second)
		}
		main.Body = append(main.Body, retarget(body, "from")...)
		return TSet{lib, decoy, main}
	case "from", "alias":
		s := &S{K: "from", E: Str("lib")}
		for _, m := range c.Macros {
			im := Import{Name: m.Name}
			if form == "alias" {
				im.Alias = "al_" + m.Name
			}
			s.Imports = append(s.Imports, im)
		}
		main.Body = append(main.Body, s)
	}
	main.Body = append(main.Body, retarget(body, form)...)
	return TSet{lib, main}
}

func checkC12(c C12Case) error {
	if c.Style != 0 {
		c = c12Rename(c)
	}
	// model: the local form
	want := runModel(c12Set(c, "local"), "main", c.Ctx, 0)
	if want.domain {
		return nil
	}
	wantWrap := want
	noWrap := c
	noWrap.Wrap = false
	wantNoWrap := runModel(c12Set(noWrap, "local"), "main", c.Ctx, 0)
	for _, form := range c12Forms {
		// the wrapper macro is not written for the `import ... as` form (see c12Set)
		want = wantWrap
		if form == "import" {
			want = wantNoWrap
			if want.domain {
				continue
			}
		}
		set := c12Set(c, form)
		srcs := set.Sources(SPrint{})
		e := newEngine(srcs)
		NewSpies().Install(e)
		r := render(e, "main", c.Ctx.Go())
		if r.Panic != "" {
			return fmt.Errorf("form %s: engine panicked: %s; templates:%s", form, r.Panic, showSources(srcs))
		}
		if want.failed {
			if r.Err == "" {
				return fmt.Errorf("form %s: model says the render fails (%v) but the engine returned %s; templates:%s", form, want.modelEr, q(r.Out), showSources(srcs))
			}
			continue
		}
		if r.Err != "" {
			return fmt.Errorf("form %s: engine error %s, model output %s; templates:%s", form, firstLine(r.Err), q(want.out), showSources(srcs))
		}
		if form == "rebind" && len(c.Macros) > 0 {
			// the call placed between the two from-imports reaches the first library
			pre := "DECOY-" + c.Macros[0].Name
			if !strings.HasPrefix(r.Out, pre) {
				return fmt.Errorf("form %s: engine %s does not start with the first library's %s; templates:%s", form, q(r.Out), q(pre), showSources(srcs))
			}
			r.Out = r.Out[len(pre):]
		}
		if r.Out != want.out {
			return fmt.Errorf("form %s: engine %s, model %s; templates:%s", form, q(r.Out), q(want.out), showSources(srcs))
		}
	}
	return nil
}

// ---- generator ------------------------------------------------------------------------------

// c12Recursion: whether generated libraries may contain a self-recursive macro. C05 switches it
// off for its process: a token mutation of `m0(n - 1)` (e.g. `n -- 1`) is recursion without a
// terminating condition, which the C05 statement places outside its guarantee.
var c12Recursion = true

type macGen struct {
	t     *rapid.T
	stats map[string]bool
}

func (g *macGen) pick(n int, l string) int { return rapid.IntRange(0, n-1).Draw(g.t, l) }

var c12ParamNames = []string{"p", "q", "r", "x", "y"} // p, q, r also exist in the caller's context

func (g *macGen) lit() *E {
	switch g.pick(5, "lit") {
	case 0:
		return Int(int64(g.pick(90, "li")))
	case 1:
		return Str(rapid.SampledFrom([]string{"", "s", "two words", "<b>"}).Draw(g.t, "ls"))
	case 2:
		return Bin("+", Int(int64(g.pick(9, "la"))), Int(int64(g.pick(9, "lb"))))
	case 3:
		return Bin("~", Str("d"), Int(int64(g.pick(9, "lc"))))
	default:
		return Null()
	}
}

func (g *macGen) macro(idx int, earlier []*S) *S {
	m := &S{K: "macro", Name: fmt.Sprintf("m%d", idx)}
	np := rapid.IntRange(0, 5).Draw(g.t, "nparams")
	perm := rapid.Permutation(c12ParamNames).Draw(g.t, "pnames")
	for i := 0; i < np; i++ {
		p := Param{Name: perm[i]}
		if g.pick(2, "hasdef") == 0 {
			p.Def = g.lit()
			g.stats["has-default"] = true
		}
		m.Params = append(m.Params, p)
	}
	m.Body = append(m.Body, Text(fmt.Sprintf("<m%d", idx)))
	for _, p := range m.Params {
		switch g.pick(4, "use") {
		case 0, 1:
			m.Body = append(m.Body, Text(" "+p.Name+"="), Print(Var(p.Name)))
		case 2:
			m.Body = append(m.Body, Text(" "+p.Name+"~"), Print(Filt(Var(p.Name), "default", Str("nil"))))
		default:
			m.Body = append(m.Body, &S{K: "if", Conds: []*E{Var(p.Name)}, Bodies: [][]*S{{Text(" " + p.Name + "!")}}, HasElse: true, Else: []*S{Text(" " + p.Name + "?")}})
		}
	}
	// assignments in the body are invisible to the caller (z and the parameter names are probed)
	if g.pick(2, "sets") == 0 {
		g.stats["body-sets"] = true
		name := "z"
		switch sp := g.pick(3, "setwhat"); {
		case sp == 0 && np > 0:
			name = m.Params[0].Name
		case sp == 1:
			// a name the caller holds and that is not a parameter here: the assignment creates a
			// variable of the macro and leaves the caller's alone
			for _, cand := range []string{"p", "q", "r"} {
				isParam := false
				for _, pp := range m.Params {
					isParam = isParam || pp.Name == cand
				}
				if !isParam {
					name = cand
					g.stats["body-sets-a-caller-variable"] = true
					break
				}
			}
		}
		m.Body = append(m.Body, SetS(name, Int(int64(700+idx))), Text(" set:"), Print(Var(name)))
	}
	if len(earlier) > 0 && g.pick(2, "nested") == 0 {
		g.stats["calls-sibling"] = true
		callee := earlier[g.pick(len(earlier), "callee")]
		form := "local"
		if g.pick(3, "selfcall") == 0 {
			form = "self"
		}
		call := &E{K: "mcall", S: callee.Name, M: form}
		na := rapid.IntRange(0, len(callee.Params)+1).Draw(g.t, "nestedargs")
		for i := 0; i < na; i++ {
			if len(m.Params) > 0 && g.pick(2, "passparam") == 0 {
				call.A = append(call.A, Var(m.Params[g.pick(len(m.Params), "which")].Name))
			} else {
				call.A = append(call.A, g.lit())
			}
		}
		m.Body = append(m.Body, Text(" ["), Print(call), Text("]"))
	}
	m.Body = append(m.Body, Text(">"))
	return m
}

func (g *macGen) call(macros []*S, extra []*E) *S {
	m := macros[g.pick(len(macros), "callee")]
	call := &E{K: "mcall", S: m.Name, M: "local"}
	na := rapid.IntRange(0, len(m.Params)+2).Draw(g.t, "nargs")
	switch {
	case na < len(m.Params):
		g.stats["fewer-args"] = true
	case na > len(m.Params):
		g.stats["extra-args"] = true
	}
	for i := 0; i < na; i++ {
		switch g.pick(4, "argkind") {
		case 0:
			call.A = append(call.A, Var(rapid.SampledFrom([]string{"p", "q", "r"}).Draw(g.t, "argvar")))
		case 1:
			if len(extra) > 0 {
				call.A = append(call.A, extra[g.pick(len(extra), "extra")])
			} else {
				call.A = append(call.A, g.lit())
			}
		default:
			call.A = append(call.A, g.lit())
		}
	}
	for _, p := range m.Params {
		if p.Name == "p" || p.Name == "q" || p.Name == "r" {
			g.stats["param-shadows-outer"] = true
		}
	}
	return Print(call)
}

func c12Probes() []*S {
	return []*S{Text("("), Print(Var("p")), Text(","), Print(Var("q")), Text(","), Print(Var("r")), Text(","), Print(Filt(Var("z"), "default", Str("-"))), Text(")")}
}

func genC12(t *rapid.T) (C12Case, map[string]bool) {
	g := &macGen{t: t, stats: map[string]bool{}}
	c := C12Case{}
	c.Ctx.Set("p", Int(int64(1+g.pick(9, "p"))))
	c.Ctx.Set("q", Str(rapid.SampledFrom([]string{"Q", "qq"}).Draw(t, "q")))
	c.Ctx.Set("r", Int(0))
	c.Ctx.Set("xs", List(Int(4), Int(5)))
	c.Ctx.Set("dv", Int(int64(10+g.pick(9, "dv"))))
	nm := rapid.IntRange(1, 4).Draw(t, "nmacros")
	forward := nm >= 2 && g.pick(3, "forward") == 0
	if forward {
		// macros call siblings defined further down in the library
		g.stats["calls-later-sibling"] = true
		var later []*S
		for i := nm - 1; i >= 0; i-- {
			m := g.macro(i, later)
			later = append([]*S{m}, later...)
		}
		c.Macros = later
	}
	for i := 0; i < nm && !forward; i++ {
		if i == 0 && c12Recursion && g.pick(4, "recursive") == 0 {
			// a macro that calls itself (bare name or _self), also as the only macro of its library
			g.stats["recursive"] = true
			self := &E{K: "mcall", S: "m0", M: rapid.SampledFrom([]string{"local", "self"}).Draw(t, "recform"), A: []*E{Bin("-", Var("n"), Int(1))}}
			c.Macros = append(c.Macros, &S{K: "macro", Name: "m0", Params: []Param{{Name: "n", Def: Int(2)}}, Body: []*S{Text("<m0 n="), Print(Var("n")),
				{K: "if", Conds: []*E{Bin(">", Var("n"), Int(0))}, Bodies: [][]*S{{Text(" ["), Print(self), Text("]")}}}, Text(">")}})
			c.Body = append(c.Body, Print(&E{K: "mcall", S: "m0", M: "local", A: []*E{Int(int64(g.pick(4, "recdepth")))}}))
			continue
		}
		c.Macros = append(c.Macros, g.macro(i, c.Macros))
	}
	c.Shadow = g.pick(3, "shadow") == 0
	c.Style = []int{0, 0, 0, 1, 2, 3, 4, 5, 5}[g.pick(9, "namestyle")]
	c.Wrap = g.pick(3, "wrap") == 0
	if c.Wrap {
		g.stats["called-from-another-templates-macro"] = true
	}
	ncalls := rapid.IntRange(1, 4).Draw(t, "ncalls")
	for i := 0; i < ncalls; i++ {
		switch g.pick(5, "site") {
		case 0, 1:
			c.Body = append(c.Body, g.call(c.Macros, nil))
		case 2:
			g.stats["call-in-loop"] = true
			c.Body = append(c.Body, &S{K: "for", Name: "i", E: Var("xs"), Body: []*S{g.call(c.Macros, []*E{Var("i"), Attr(Var("loop"), "index")}), Print(Var("i"))}})
		case 3:
			g.stats["call-in-block"] = true
			c.Body = append(c.Body, &S{K: "block", Name: fmt.Sprintf("blk%d", i), Body: []*S{g.call(c.Macros, nil)}})
		default:
			g.stats["call-in-if"] = true
			c.Body = append(c.Body, &S{K: "if", Conds: []*E{Var("p")}, Bodies: [][]*S{{g.call(c.Macros, nil)}}})
		}
		c.Body = append(c.Body, c12Probes()...)
	}
	if g.pick(4, "hashdefault") == 0 {
		// a default that is a hash / list literal built from the caller's variables: it has to be
		// evaluated at every call (the loop variable i changes between calls)
		g.stats["default-built-from-caller-variables"] = true
		c.Macros = append(c.Macros, &S{K: "macro", Name: "mh", Params: []Param{{Name: "h", Def: Hash([]string{"class", "n"}, []*E{Var("i"), Var("dv")})}, {Name: "l", Def: List(Var("i"), Int(0))}},
			Body: []*S{Text("<mh "), Print(Filt(Attr(Var("h"), "class"), "default", Str("-"))), Text("/"), Print(Attr(Var("h"), "n")), Text("/"), Print(Filt(Var("l"), "join", Str(","))), Text(">")}})
		mh := func(args ...*E) *S { return Print(&E{K: "mcall", S: "mh", M: "local", A: args}) }
		// (nothing reads i after the loop: what a loop variable holds then is not part of the claim)
		c.Body = append([]*S{mh(), mh(Hash([]string{"class", "n"}, []*E{Str("X"), Int(1)}))}, c.Body...)
		c.Body = append(c.Body, &S{K: "for", Name: "i", E: Var("xs"), Body: []*S{mh(), Text(";")}})
	}
	return c, g.stats
}

const c12Rule = "libraries of 1-4 macros with 0-5 parameters (names overlapping the caller's variables), any subset with default expressions, bodies that print/test/default their parameters, assign names the caller probes call earlier macros of the library (bare name or _self) or themselves (recursion, also in a one-macro library); a macro of the calling template that calls into the library; siblings defined later in the library; defaults built from the caller's variables (hash and list literals, evaluated at every call); a macro of the calling template named like a library macro that is reached through a module or an alias; call sites with fewer/equal/more arguments at top level, in loops (loop variable and counters as arguments), blocks and conditionals; every case rendered through all five forms (local, _self, import as, from import, from import as alias); non-trivial = argument count != parameter count, or a default is declared, or a parameter shadows an outer variable, or a macro calls a sibling; distinct by (library, call sites)"

func TestC12Macros(t *testing.T) {
	r := NewRec(t, "C12", c12Rule)
	defer r.Flush()
	rapid.Check(t, func(rt *rapid.T) {
		c, st := genC12(rt)
		if runModel(c12Set(c, "local"), "main", c.Ctx, 0).domain {
			r.Excl("outside the modelled domain")
			return
		}
		var cl []string
		for k := range st {
			cl = append(cl, k)
		}
		sortStrings(cl)
		nt := st["fewer-args"] || st["extra-args"] || st["has-default"] || st["param-shadows-outer"] || st["calls-sibling"]
		srcs := c12Set(c, "import").Sources(SPrint{})
		r.Case(showSources(srcs), nt, srcs, cl...)
		if err := checkC12(c); err != nil {
			r.Fail(rt, "C12.macro", c, err)
		}
	})
}

// TestC12Arity: every signature of 0..4 parameters x every subset of defaults (<= 3 params)
// x every argument count 0..6.
type C12DefExprCase struct {
	Expr string `json:"expr"`
	Form int    `json:"form"` // 0 local, 1 import as, 2 from import
}

// checkC12DefExpr: a parameter left out is bound to its default expression, i.e. to what the same
// expression gives when it is passed as the argument.
func checkC12DefExpr(c C12DefExprCase) error {
	lib := "{% macro m0(x = " + c.Expr + ", y = 1) %}<{{ x }}|{{ y }}>{% endmacro %}"
	calls := "{{ m0() }}={{ m0(" + c.Expr + ") }}={{ m0(" + c.Expr + ", 1) }}"
	tm := map[string]string{"main": lib + calls}
	switch c.Form % 3 {
	case 1:
		tm = map[string]string{"lib": lib, "main": "{% import 'lib' as l %}" + strings.ReplaceAll(calls, "m0(", "l.m0(")}
	case 2:
		tm = map[string]string{"lib": lib, "main": "{% from 'lib' import m0 %}" + calls}
	}
	r := render(newEngine(tm), "main", map[string]interface{}{"dv": 14})
	if r.Failed() {
		return nil // an expression the engine does not take in a default is not a binding question
	}
	parts := strings.Split(r.Out, "=")
	if len(parts) != 3 || parts[0] != parts[1] || parts[1] != parts[2] {
		return fmt.Errorf("default %s: the call without the argument, with the same expression as argument, and with both arguments print %s; templates:%s", c.Expr, q(r.Out), showSources(tm))
	}
	return nil
}

func init() { reg("C12.defexpr", checkC12DefExpr) }

// c12DefaultExprs: parameter defaults that are expressions (a default is evaluated like the same
// expression passed as the argument)
func c12DefaultExprs() []*E {
	return []*E{Bin("/", Int(7), Int(2)), Bin("/", Int(1), Int(4)), Bin("/", Int(-7), Int(2)), Bin("+", Bin("/", Int(100), Int(8)), Int(1)), Bin("^", Int(2), Int(3)), Bin("%", Int(7), Int(3)), Bin("%", Int(-7), Int(3)),
		Bin("~", Str("a"), Str("b")), Bin("+", Int(1), Bin("*", Int(2), Int(3))), Bin("-", Bin("-", Int(10), Int(3)), Int(2)), Filt(List(Int(1), Int(2)), "length"), Cond(Bin(">", Int(3), Int(2)), Str("y"), Str("n")),
		Bin("*", Int(3), Bin("/", Int(9), Int(2))), Bin("/", Bin("*", Int(6), Int(3)), Int(4)), Var("dv"), Bin("+", Var("dv"), Int(1)), Str("it's"), Null(), List(), Int(0), Str("")}
}

func TestC12Arity(t *testing.T) {
	r := NewRec(t, "C12", "exhaustive: 21 default expressions (non-exact divisions, modulo, powers, concatenation, conditionals, filters, variables of the caller, empty values) with the argument omitted and with the same expression passed; arity grid: 0..4 parameters x every subset with defaults x 0..6 arguments, each through all five call forms, with a sibling macro calling it with the same arguments; non-trivial = argument count != parameter count or a default is used")
	defer r.Flush()
	r.SetExhaustive()
	ctx := Ctx{}
	ctx.Set("p", Int(5))
	ctx.Set("q", Str("Q"))
	ctx.Set("r", Int(0))
	names := []string{"p", "q", "x", "y"}
	// default expressions: omitted argument vs the same expression passed explicitly
	ctx.Set("dv", Int(14))
	for di, def := range c12DefaultExprs() {
		m := &S{K: "macro", Name: "m0", Params: []Param{{Name: "x", Def: def}, {Name: "y", Def: Int(1)}}, Body: []*S{Text("<"), Print(Var("x")), Text("|"), Print(Var("y")), Text(">")}}
		cp := *def
		body := []*S{Print(&E{K: "mcall", S: "m0", M: "local"}), Text("="), Print(&E{K: "mcall", S: "m0", M: "local", A: []*E{&cp}}), Text("="), Print(&E{K: "mcall", S: "m0", M: "local", A: []*E{&cp, Int(1)}})}
		c := C12Case{Ctx: ctx, Macros: []*S{m}, Body: append(body, c12Probes()...)}
		r.Case(fmt.Sprint("default-expr", di), true, PrintS(m, SPrint{}))
		if err := checkC12(c); err != nil {
			r.FailEnum(t, "C12.macro", c, err)
		}
	}
	for _, ex := range []string{"7 / 2", "1 / 4", "-7 / 2", "100 / 8 + 1", "2 ^ 3", "7 % 3", "-7 % 3", "'a' ~ 'b'", "1 + 2 * 3", "10 - 3 - 2", "[1, 2]|length", "3 > 2 ? 'y' : 'n'", "3 * (9 / 2)", "6 * 3 / 4", "1 / 3", "10 / 4 * 2", "0.5 + 0.25",
		"-1", "60 * 60", "12 / 3", "2 - 5", "7 / 2 / 2", "(7 / 2)|round", "'it\\'s'", "null", "[]", "0", "''"} {
		for form := 0; form < 3; form++ {
			c := C12DefExprCase{Expr: ex, Form: form}
			r.Case(fmt.Sprint("defexpr", ex, form), true, ex)
			if err := checkC12DefExpr(c); err != nil {
				r.FailEnumKey(t, "C12.defexpr", ex, c, err)
			}
		}
	}
	for np := 0; np <= 4; np++ {
		for mask := 0; mask < 1<<uint(np); mask++ {
			for na := 0; na <= 6; na++ {
				m := &S{K: "macro", Name: "m0", Body: []*S{Text("<")}}
				for i := 0; i < np; i++ {
					p := Param{Name: names[i]}
					if mask&(1<<uint(i)) != 0 {
						p.Def = Str(fmt.Sprintf("d%d", i))
					}
					m.Params = append(m.Params, p)
					m.Body = append(m.Body, Print(Filt(Var(names[i]), "default", Str("nil"))), Text(","))
				}
				m.Body = append(m.Body, Text(">"))
				var args []*E
				for i := 0; i < na; i++ {
					args = append(args, Int(int64(10+i)))
				}
				wrapper := &S{K: "macro", Name: "m1", Body: []*S{Text("w["), Print(&E{K: "mcall", S: "m0", M: "local", A: args}), Text("]")}}
				c := C12Case{Ctx: ctx, Macros: []*S{m, wrapper}, Body: append([]*S{Print(&E{K: "mcall", S: "m0", M: "local", A: args}), Print(&E{K: "mcall", S: "m1", M: "local"})}, c12Probes()...)}
				r.Case(fmt.Sprint(np, mask, na), na != np || mask != 0, PrintS(m, SPrint{})+" called with "+fmt.Sprint(na)+" args")
				if err := checkC12(c); err != nil {
					r.FailEnum(t, "C12.macro", c, err)
				}
			}
		}
	}
}

func init() { reg("C12.macro", checkC12) }

// ---- library names made of the words of the import tags ---------------------------------------------------

type C12LibNameCase struct {
	Name BStr `json:"name"`
	Form int  `json:"form"` // 0 import as, 1 from import, 2 from import as alias, 3 import as + from in one template
}

func checkC12LibName(c C12LibNameCase) error {
	name := string(c.Name)
	var src string
	switch c.Form % 4 {
	case 0:
		src = "{% import '" + name + "' as l %}{{ l.m(1) }}"
	case 1:
		src = "{% from \"" + name + "\" import m %}{{ m(1) }}"
	case 2:
		src = "{% from '" + name + "' import m as z, n %}{{ z(1) }}"
	default:
		src = "{% import \"" + name + "\" as l %}{% from '" + name + "' import n as m %}{{ l.m(1) }}"
	}
	tm := map[string]string{"main": src, name: "{% macro m(x) %}<m{{ x }}>{% endmacro %}{% macro n(x) %}<n{{ x }}>{% endmacro %}"}
	r := render(newEngine(tm), "main", nil)
	if r.Failed() || r.Out != "<m1>" {
		return fmt.Errorf("macro m of the library named %s reached by %s: %v, want \"<m1>\"", q(name), q(src), r)
	}
	return nil
}

func TestC12LibNames(t *testing.T) {
	r := NewRec(t, "C12", "exhaustive: 14 library names that contain words of the import tags (as, import, from, with, in, blanks) x {import as, from import, from import as alias, both}; oracle: the macro renders; all cases non-trivial")
	defer r.Flush()
	r.SetExhaustive()
	for _, name := range []string{"lib as x", "a as b", "as", "x as", "a import b", "import", "from lib", "from a import b", "with", "a in b", "two  blanks", "lib.twig", "sub/lib", "a as b import c"} {
		for form := 0; form < 4; form++ {
			c := C12LibNameCase{Name: BStr(name), Form: form}
			r.Case(fmt.Sprint(name, form), true, c)
			if err := checkC12LibName(c); err != nil {
				r.FailEnumKey(t, "C12.libname", name, c, err)
			}
		}
	}
}

func init() { reg("C12.libname", checkC12LibName) }

// ---- parameters named like a macro that is visible where the call is made ---------------------------------

type C12ShadowMacroCase struct {
	Which int `json:"which"`
}

var c12ShadowMacroSets = []struct {
	main, want string
}{
	{"{% from 'lib' import box as b %}{{ b(1, 2) }}", "[12]"},
	{"{% from 'lib' import box as a %}{{ a(1, 2) }}", "[12]"},
	{"{% from 'lib' import box, other as b %}{{ box(1, 2) }}", "[12]"},
	{"{% macro a(a) %}({{ a }}){% endmacro %}{{ a(1) }}", "(1)"},
	{"{% macro m(m0) %}({{ m0 }}){% endmacro %}{% macro m0() %}Z{% endmacro %}{{ m(5) }}", "(5)"},
	{"{% from 'lib' import other as x %}{{ x(7) }}", "<7>"},
	{"{% macro m(m1 = 'd') %}({{ m1 }}){% endmacro %}{% macro m1() %}Z{% endmacro %}{{ m() }}{{ m('e') }}", "(d)(e)"},
	{"{% from 'lib' import box as b %}{{ b(1, null) }}", "[1]"},
	{"{% from 'lib' import box as b %}{% for i in [1, 2] %}{{ b(i, i * 2) }}{% endfor %}", "[12][24]"},
	{"{% import 'lib' as a %}{{ a.box(1, 2) }}{{ a.other(3) }}", "[12]<3>"},
	{"{% from 'lib' import other %}{% set other = 'v' %}{{ other }}", "v"},
	{"{% macro wrap(x) %}{% from 'lib' import other as x2 %}{{ x2(x) }}{% endmacro %}{% from 'lib' import box as x %}{{ wrap(9) }}", "<9>"},
}

// checkC12ShadowMacro: a parameter is bound to its argument also when a macro of that name (an
// alias, a sibling, the macro itself) is visible where the call is made.
func checkC12ShadowMacro(c C12ShadowMacroCase) error {
	s := c12ShadowMacroSets[c.Which%len(c12ShadowMacroSets)]
	tm := map[string]string{"main": s.main, "lib": "{% macro box(a, b = 'B') %}[{{ a }}{{ b }}]{% endmacro %}{% macro other(x) %}<{{ x }}>{% endmacro %}"}
	r := render(newEngine(tm), "main", nil)
	if r.Failed() || r.Out != s.want {
		return fmt.Errorf("a parameter (or variable) named like a visible macro: %s renders %v, want %s", q(s.main), r, q(s.want))
	}
	return nil
}

func TestC12ShadowMacro(t *testing.T) {
	r := NewRec(t, "C12", "exhaustive: 12 templates in which a macro parameter (with an argument, with a default, with null) or a set variable has the name of a macro visible at the call (from-import alias, sibling macro, the macro itself, import module); expected text written out; all cases non-trivial")
	defer r.Flush()
	r.SetExhaustive()
	for i := range c12ShadowMacroSets {
		c := C12ShadowMacroCase{Which: i}
		r.Case(fmt.Sprint(i), true, c12ShadowMacroSets[i].main)
		if err := checkC12ShadowMacro(c); err != nil {
			r.FailEnum(t, "C12.shadowmacro", c, err)
		}
	}
}

func init() { reg("C12.shadowmacro", checkC12ShadowMacro) }

// ---- the value of a macro call wherever it is written -------------------------------------------------------

type C12CallPosCase struct {
	Which int `json:"which"`
}

var c12CallPosSets = []struct {
	main, want string
}{
	{"{{ ok(1) }}", "V1"},
	{"{{ ok(1) ~ 'q' }}", "V1q"},
	{"{{ 'p' ~ ok(2) ~ ok(3) }}", "pV2V3"},
	{"{{ ok(1)|lower }}", "v1"},
	{"{{ ok(1)|length }}", "2"},
	{"{% set v = ok(4) %}[{{ v }}|{{ v }}]", "[V4|V4]"},
	{"{% if ok(1) %}y{% else %}n{% endif %}{% if blank() %}y{% else %}n{% endif %}", "yn"},
	{"{{ ok(1) == 'V1' ? 'same' : 'other' }}", "same"},
	{"{{ [ok(1), ok(2)]|join('+') }}", "V1+V2"},
	{"{% include 'show' with {'v': ok(5)} only %}", "(V5)"},
	{"{{ ok(ok(1)) }}", "VV1"},
	{"{% for i in [1, 2] %}{% set v = ok(i) %}{{ v|lower }}{% endfor %}", "v1v2"},
	{"{% apply upper %}{{ ok('a') ~ 'b' }}{% endapply %}", "VAB"},
	{"{% import 'lib' as l %}{{ l.ok(1) ~ l.ok(2) }}|{% set v = l.ok(3) %}{{ v }}", "V1V2|V3"},
	{"{% from 'lib' import ok as k %}{{ k(1)|lower ~ k(2) }}", "v1V2"},
	{"{{ _self.ok(1) ~ '!' }}", "V1!"},
}

// checkC12CallPos: a macro call has the text its body renders as its value, not only when it is
// the whole of a print tag.
func checkC12CallPos(c C12CallPosCase) error {
	s := c12CallPosSets[c.Which%len(c12CallPosSets)]
	const defs = "{% macro ok(a) %}V{{ a }}{% endmacro %}{% macro blank() %}{% endmacro %}"
	tm := map[string]string{"main": defs + s.main, "lib": defs, "show": "({{ v }})"}
	r := render(newEngine(tm), "main", nil)
	if r.Failed() || r.Out != s.want {
		return fmt.Errorf("macro ok(a) renders V{{ a }}: %s renders %v, want %s", q(s.main), r, q(s.want))
	}
	return nil
}

func TestC12CallPositions(t *testing.T) {
	r := NewRec(t, "C12", "exhaustive: 16 templates in which a macro call (local, _self, import-as, alias) stands next to ~, under a filter, in a set, a condition, a comparison, a list, an include-with value, as the argument of another call or inside apply; expected text written out; all cases non-trivial")
	defer r.Flush()
	r.SetExhaustive()
	for i := range c12CallPosSets {
		c := C12CallPosCase{Which: i}
		r.Case(fmt.Sprint(i), true, c12CallPosSets[i].main)
		if err := checkC12CallPos(c); err != nil {
			r.FailEnum(t, "C12.callpos", c, err)
		}
	}
}

func init() { reg("C12.callpos", checkC12CallPos) }

// ---- where a macro of the template can be called from ----------------------------------------------------------

type C12ReachCase struct {
	Which int `json:"which"`
}

var c12ReachSets = []struct {
	tm   map[string]string
	want string
}{
	{map[string]string{"main": "{% macro max(a, b) %}MACRO{{ a }}{% endmacro %}{{ max(1, 2) }}|{{ _self.max(1, 2) }}"}, "MACRO1|MACRO1"},
	{map[string]string{"main": "{% macro date(a) %}D{{ a }}{% endmacro %}{{ _self.date(1) }}|{{ date(2) }}"}, "D1|D2"},
	{map[string]string{"base": "[{% block c %}{% endblock %}]", "main": "{% extends 'base' %}{% macro k(a) %}K{{ a }}{% endmacro %}{% block c %}{{ k(1) }}{{ _self.k(2) }}{% endblock %}"}, "[K1K2]"},
	{map[string]string{"base": "[{% block c %}{% endblock %}]", "lib": "{% macro k(a) %}K{{ a }}{% endmacro %}", "main": "{% extends 'base' %}{% import 'lib' as l %}{% block c %}{{ l.k(1) }}{% endblock %}"}, "[K1]"},
	{map[string]string{"base": "[{% block c %}{% endblock %}]", "lib": "{% macro k(a) %}K{{ a }}{% endmacro %}", "main": "{% extends 'base' %}{% from 'lib' import k as kk %}{% block c %}{{ kk(1) }}{% endblock %}"}, "[K1]"},
	{map[string]string{"main": "{{ m(1) }}{% macro m(a) %}M{{ a }}{% endmacro %}"}, "M1"},
	// a default that calls a sibling macro, reached by every route
	{map[string]string{"lib": "{% macro border() %}solid{% endmacro %}{% macro box(b = border(), c = _self.border() ~ '!') %}[{{ b }}{{ c }}]{% endmacro %}{{ box() }}{{ _self.box('x') }}", "main": "{% import 'lib' as l %}{{ l.box() }}{% from 'lib' import box %}{{ box() }}{% from 'lib' import box as bx %}{{ bx('y') }}{% include 'lib' %}"}, "[solidsolid!][solidsolid!][ysolid!][solidsolid!][xsolid!]"},
	{map[string]string{"lib": "{% macro k(a) %}K{{ a }}{% endmacro %}{% macro k2(a) %}Q{{ a }}{% endmacro %}", "main": "A {%- from 'lib' import k as kk, k2 -%} B{{ kk(1) }}{{ k2(2) }}"}, "ABK1Q2"},
	{map[string]string{"lib": "{% macro k(a) %}K{{ a }}{% endmacro %}", "main": "A {%- from 'lib' import k -%} B{{ k(1) }} {%- import 'lib' as l -%} C{{ l.k(2) }}"}, "ABK1CK2"},
	{map[string]string{"main": "{% if true %}{{ m(1) }}{% endif %}{% macro m(a) %}M{{ a }}{{ n(a) }}{% endmacro %}{% macro n(a) %}N{{ a }}{% endmacro %}"}, "M1N1"},
	{map[string]string{"base": "[{% block c %}{% endblock %}|{% block d %}{% endblock %}]", "mid": "{% extends 'base' %}{% macro mm(a) %}MID{{ a }}{% endmacro %}{% block c %}{{ mm(1) }}{% endblock %}", "main": "{% extends 'mid' %}{% macro cc(a) %}CH{{ a }}{% endmacro %}{% block d %}{{ cc(2) }}{% endblock %}"}, "[MID1|CH2]"},
	{map[string]string{"base": "[{% block c %}{% endblock %}]", "main": "{% extends 'base' %}{% block c %}{% for i in [1, 2] %}{{ k(i) }}{% endfor %}{% endblock %}{% macro k(a) %}K{{ a }}{% endmacro %}"}, "[K1K2]"},
}

// checkC12Reach: a macro can be called directly in its defining template — also by a name that a
// built-in function has, through _self, before its definition, and from the blocks of a template
// that extends another.
func checkC12Reach(c C12ReachCase) error {
	s := c12ReachSets[c.Which%len(c12ReachSets)]
	r := render(newEngine(s.tm), "main", nil)
	if r.Failed() || r.Out != s.want {
		return fmt.Errorf("templates:%s\nrender %v, want %s", showSources(s.tm), r, q(s.want))
	}
	return nil
}

func TestC12Reach(t *testing.T) {
	r := NewRec(t, "C12", "exhaustive: 12 template sets in which a macro is called directly and through _self under the name of a built-in function, before its definition, and from the blocks of templates that extend another (local macro, import-as, from-import alias, two levels each with its own macro), and after from / import tags written with whitespace-control dashes; expected text written out; all cases non-trivial")
	defer r.Flush()
	r.SetExhaustive()
	for i := range c12ReachSets {
		c := C12ReachCase{Which: i}
		r.Case(fmt.Sprint(i), true, c12ReachSets[i].tm["main"])
		if err := checkC12Reach(c); err != nil {
			r.FailEnum(t, "C12.reach", c, err)
		}
	}
}

func init() { reg("C12.reach", checkC12Reach) }

// ---- macro arguments that are typed nils; libraries that change under a loader --------------------------------

type C12NilArgCase struct {
	Var string `json:"var"`
}

func c12NilArgCtx() map[string]interface{} {
	return map[string]interface{}{"ns": []string(nil), "nm": map[string]int(nil), "np": (*ZStruct)(nil), "ni": []interface{}(nil), "nmi": map[string]interface{}(nil),
		"nn": zNamedStrSlice(nil), "es": []string{}, "em": map[string]int{}, "zero": 0, "empty": "", "no": nil}
}

type zNamedStrSlice []string

// checkC12NilArg: the parameter is bound to the argument itself: every test made on it in the macro
// body answers as the same test made on the argument where the call stands.
func checkC12NilArg(c C12NilArgCase) error {
	const probe = "{{ A is null ? 'null' : 'nn' }},{{ A is iterable ? 'it' : 'ni' }},{{ A == null ? 'eq' : 'ne' }},[{{ A }}],{{ A is defined ? 'd' : 'u' }},{{ A|default('dflt') }},{{ A is empty ? 'e' : 'ne' }},{{ A ? 't' : 'f' }}"
	body := strings.ReplaceAll(probe, "A", "a")
	inline := strings.ReplaceAll(probe, "A", c.Var)
	tm := map[string]string{"main": "{% macro p(a) %}" + body + "{% endmacro %}" + inline + "\x1f{{ p(" + c.Var + ") }}\x1f{{ _self.p(" + c.Var + ") }}\x1f{% import 'lib' as l %}{{ l.p(" + c.Var + ") }}\x1f{% from 'lib' import p as pp %}{{ pp(" + c.Var + ") }}",
		"lib": "{% macro p(a) %}" + body + "{% endmacro %}"}
	r := render(newEngine(tm), "main", c12NilArgCtx())
	if r.Failed() {
		return fmt.Errorf("argument %s: render failed: %v", c.Var, r)
	}
	parts := strings.Split(r.Out, "\x1f")
	for i, got := range parts[1:] {
		if got != parts[0] {
			return fmt.Errorf("argument %s (%T): the tests %s answer %s where the call stands and %s on the parameter inside the macro (call form %d of local, _self, import-as, alias)", c.Var, c12NilArgCtx()[c.Var], q(probe), q(parts[0]), q(got), i)
		}
	}
	return nil
}

func TestC12NilArgs(t *testing.T) {
	r := NewRec(t, "C12", "exhaustive: 11 argument values that are nil or empty in different ways (nil []string, nil map[string]int, nil *struct, nil []interface{}, nil map[string]interface{}, nil named slice, empty slice, empty map, 0, '', null) passed to a macro through four call forms; oracle: eight tests on the parameter (is null, is iterable, == null, print, is defined, default, is empty, truth) answer as on the argument itself; all cases non-trivial")
	defer r.Flush()
	r.SetExhaustive()
	for _, v := range []string{"ns", "nm", "np", "ni", "nmi", "nn", "es", "em", "zero", "empty", "no"} {
		c := C12NilArgCase{Var: v}
		r.Case(v, true, v)
		if err := checkC12NilArg(c); err != nil {
			r.FailEnum(t, "C12.nilarg", c, err)
		}
	}
}

type C12ReloadCase struct {
	Mode int `json:"mode"` // 0 cache off, 1 auto-reload with a file
	Form int `json:"form"` // 0 import as, 1 from import, 2 from import alias
}

// checkC12Reload: a macro reached through an import is the macro the library holds now, as the
// direct call in the library's own template is.
func checkC12Reload(c C12ReloadCase) error {
	root, err := os.MkdirTemp(workDir(), "c12-")
	if err != nil {
		return fmt.Errorf("harness: %v", err)
	}
	defer os.RemoveAll(root)
	lib := func(v string) string {
		return "{% macro greet(n = '" + v + "') %}" + v + ":{{ n }}{% endmacro %}[{{ greet('self') }}]"
	}
	page := []string{"{% import 'lib.twig' as m %}{{ m.greet('a') }}{{ m.greet() }}", "{% from 'lib.twig' import greet %}{{ greet('a') }}{{ greet() }}", "{% from 'lib.twig' import greet as g %}{{ g('a') }}{{ g() }}"}[c.Form%3]
	write := func(name, src string, age time.Duration) error {
		p := filepath.Join(root, name)
		if err := os.WriteFile(p, []byte(src), 0o644); err != nil {
			return err
		}
		tm := time.Now().Add(-age)
		return os.Chtimes(p, tm, tm)
	}
	if err := write("lib.twig", lib("old"), 2*time.Hour); err != nil {
		return fmt.Errorf("harness: %v", err)
	}
	if err := write("page.twig", page, 2*time.Hour); err != nil {
		return fmt.Errorf("harness: %v", err)
	}
	e := twig.New()
	e.RegisterLoader(twig.NewFileSystemLoader([]string{root}))
	if c.Mode%2 == 0 {
		e.SetCache(false)
	} else {
		e.SetAutoReload(true)
	}
	for round, v := range []string{"old", "new", "newer"} {
		if round > 0 {
			if err := write("lib.twig", lib(v), time.Duration(3-round)*20*time.Minute); err != nil {
				return fmt.Errorf("harness: %v", err)
			}
		}
		want := v + ":a" + v + ":" + v
		if r := render(e, "page.twig", nil); r.Failed() || r.Out != want {
			return fmt.Errorf("round %d (%s): the library on disk now says %q; the page %s renders %v, want %s (the library itself renders %v)", round, []string{"cache off", "auto-reload"}[c.Mode%2], v, q(page), r, q(want), render(e, "lib.twig", nil))
		}
	}
	return nil
}

func TestC12Reload(t *testing.T) {
	r := NewRec(t, "C12", "exhaustive: {cache off, auto-reload} x {import as, from import, from import as alias}: a page imports a macro library from a file, the file is rewritten twice (other body, other default, newer time) between renders; oracle: the imported macro is the one the library holds now; all cases non-trivial")
	defer r.Flush()
	r.SetExhaustive()
	for mode := 0; mode < 2; mode++ {
		for form := 0; form < 3; form++ {
			c := C12ReloadCase{Mode: mode, Form: form}
			r.Case(fmt.Sprint(mode, form), true, c)
			if err := checkC12Reload(c); err != nil {
				r.FailEnum(t, "C12.reload", c, err)
			}
		}
	}
}

func init() {
	reg("C12.nilarg", checkC12NilArg)
	reg("C12.reload", checkC12Reload)
}
