package vh

// Reference model, expression part (DESIGN.md Appendix A). It implements exactly the
// semantics written in the properties; where a property is silent there is no rule and
// evaluation reports errDomain, which generators treat as "do not generate this".

import (
	"errors"
	"fmt"
	"math"
	"sort"
	"strconv"
	"strings"
	"unicode/utf8"
)

var errDomain = errors.New("outside the modelled domain")

func domain(format string, a ...interface{}) error {
	return fmt.Errorf("%w: "+format, append([]interface{}{errDomain}, a...)...)
}

// rmErr is a modelled runtime failure of the template (the engine must return an error).
type rmErr struct {
	kind string // "spy", "notfound", "runtime"
	msg  string
}

func (e *rmErr) Error() string { return e.kind + ": " + e.msg }

// Env is the evaluation environment of the model.
type Env struct {
	vars   map[string]interface{}
	parent *Env // macro bodies see the caller's variables behind their own
	m      *Model
	macros map[string]*S // macros callable by bare name
	mods   map[string]map[string]*S
	tmpl   *Tmpl // template whose macros `_self` refers to
}

func (env *Env) lookup(n string) (interface{}, bool) {
	for e := env; e != nil; e = e.parent {
		if v, ok := e.vars[n]; ok {
			return v, true
		}
	}
	return nil, false
}

// Model carries the configuration shared by one evaluation: spies, templates.
type Model struct {
	Set      map[string]*Tmpl
	SpyLog   []string
	FailAt   int // 1-based index of the spy invocation that fails (0 = none)
	spyCount int
	Forbid   map[string]bool // spy names that must not run (sandbox model)
	depth    int
}

func truthy(v interface{}) bool {
	switch x := v.(type) {
	case nil:
		return false
	case bool:
		return x
	case int64:
		return x != 0
	case string:
		return x != ""
	case []interface{}:
		return len(x) > 0
	case map[string]interface{}:
		return len(x) > 0
	}
	return true
}

const maxExact = int64(1) << 53

func toText(v interface{}) (string, error) {
	switch x := v.(type) {
	case nil:
		return "", nil
	case int64:
		return strconv.FormatInt(x, 10), nil
	case string:
		return x, nil
	}
	return "", domain("printing a %T is not specified", v)
}

func looksNumeric(s string) bool {
	_, err := strconv.ParseFloat(s, 64)
	return err == nil
}

func (m *Model) spy(name string, arg interface{}) (interface{}, error) {
	m.spyCount++
	m.SpyLog = append(m.SpyLog, name+"("+showModel(arg)+")")
	if m.FailAt == m.spyCount {
		return nil, &rmErr{"spy", name}
	}
	return arg, nil
}

func (env *Env) evalArgs(args []*E) ([]interface{}, error) {
	out := make([]interface{}, len(args))
	for i, a := range args {
		v, err := env.Eval(a)
		if err != nil {
			return nil, err
		}
		out[i] = v
	}
	return out, nil
}

func asInt(v interface{}) (int64, bool) { i, ok := v.(int64); return i, ok }

func checkRange(i int64) (int64, error) {
	if i > maxExact || i < -maxExact {
		return 0, domain("integer beyond 2^53")
	}
	return i, nil
}

// Eval evaluates an expression.
func (env *Env) Eval(e *E) (interface{}, error) {
	switch e.K {
	case "int":
		return e.I, nil
	case "str":
		return e.S, nil
	case "bool":
		return e.I != 0, nil
	case "null":
		return nil, nil
	case "var":
		v, _ := env.lookup(e.S)
		if _, p := v.(poison); p {
			return nil, domain("reading %s, whose value no rule defines at this point", e.S)
		}
		return v, nil
	case "attr":
		o, err := env.Eval(e.A[0])
		if err != nil {
			return nil, err
		}
		if mp, ok := o.(map[string]interface{}); ok {
			return mp[e.S], nil
		}
		if o == nil {
			return nil, nil
		}
		return nil, domain("attribute of %T", o)
	case "idx":
		o, err := env.Eval(e.A[0])
		if err != nil {
			return nil, err
		}
		i, err := env.Eval(e.A[1])
		if err != nil {
			return nil, err
		}
		switch c := o.(type) {
		case []interface{}:
			n, ok := asInt(i)
			if !ok || n < 0 || n >= int64(len(c)) {
				return nil, domain("list index out of range / not an int")
			}
			return c[n], nil
		case map[string]interface{}:
			k, ok := i.(string)
			if !ok {
				return nil, domain("map index not a string")
			}
			return c[k], nil
		}
		return nil, domain("index into %T", o)
	case "un":
		v, err := env.Eval(e.A[0])
		if err != nil {
			return nil, err
		}
		switch e.S {
		case "not":
			return !truthy(v), nil
		case "-":
			n, ok := asInt(v)
			if !ok {
				return nil, domain("negating %T", v)
			}
			return -n, nil
		case "+":
			n, ok := asInt(v)
			if !ok {
				return nil, domain("unary plus on %T", v)
			}
			return n, nil
		}
	case "bin":
		return env.evalBin(e)
	case "cond":
		c, err := env.Eval(e.A[0])
		if err != nil {
			return nil, err
		}
		if truthy(c) {
			return env.Eval(e.A[1])
		}
		return env.Eval(e.A[2])
	case "list":
		vs, err := env.evalArgs(e.A)
		if err != nil {
			return nil, err
		}
		return vs, nil
	case "hash":
		// entries are evaluated in source order in the model; generators never put two
		// observable effects (spies) into one hash literal, so the order cannot matter
		out := make(map[string]interface{}, len(e.A))
		for i, a := range e.A {
			v, err := env.Eval(a)
			if err != nil {
				return nil, err
			}
			out[e.Ks[i]] = v
		}
		return out, nil
	case "call":
		return env.evalCall(e)
	case "filt":
		return env.evalFilter(e)
	case "test":
		return env.evalTest(e)
	}
	return nil, domain("expression kind %s", e.K)
}

func (env *Env) evalBin(e *E) (interface{}, error) {
	op := e.S
	l, err := env.Eval(e.A[0])
	if err != nil {
		return nil, err
	}
	if op == "and" {
		if !truthy(l) {
			return false, nil
		}
		r, err := env.Eval(e.A[1])
		if err != nil {
			return nil, err
		}
		return truthy(r), nil
	}
	if op == "or" {
		if truthy(l) {
			return true, nil
		}
		r, err := env.Eval(e.A[1])
		if err != nil {
			return nil, err
		}
		return truthy(r), nil
	}
	r, err := env.Eval(e.A[1])
	if err != nil {
		return nil, err
	}
	switch op {
	case "+", "-", "*", "/", "%", "^", "<", ">", "<=", ">=":
		a, ok1 := asInt(l)
		b, ok2 := asInt(r)
		if !ok1 || !ok2 {
			return nil, domain("%s on %T,%T", op, l, r)
		}
		switch op {
		case "+":
			return checkRange(a + b)
		case "-":
			return checkRange(a - b)
		case "*":
			if a != 0 && (abs64(b) > maxExact/abs64(a)) {
				return nil, domain("product beyond 2^53")
			}
			return checkRange(a * b)
		case "/":
			if b == 0 {
				return nil, &rmErr{"runtime", "division by zero"}
			}
			if a%b != 0 {
				return nil, domain("inexact division")
			}
			return a / b, nil
		case "%":
			if b == 0 {
				return nil, &rmErr{"runtime", "modulo by zero"}
			}
			return a % b, nil
		case "^":
			if b < 0 || b > 20 {
				return nil, domain("exponent out of modelled range")
			}
			f := math.Pow(float64(a), float64(b))
			if math.Abs(f) > float64(maxExact) {
				return nil, domain("power beyond 2^53")
			}
			res := int64(1)
			for i := int64(0); i < b; i++ {
				res *= a
			}
			return res, nil
		case "<":
			return a < b, nil
		case ">":
			return a > b, nil
		case "<=":
			return a <= b, nil
		case ">=":
			return a >= b, nil
		}
	case "~":
		ls, err := toText(l)
		if err != nil {
			return nil, err
		}
		rs, err := toText(r)
		if err != nil {
			return nil, err
		}
		return ls + rs, nil
	case "==", "!=":
		eq, err := modelEq(l, r)
		if err != nil {
			return nil, err
		}
		if op == "!=" {
			return !eq, nil
		}
		return eq, nil
	case "in", "not in":
		in, err := modelIn(l, r)
		if err != nil {
			return nil, err
		}
		if op == "not in" {
			return !in, nil
		}
		return in, nil
	case "starts with", "ends with":
		a, ok1 := l.(string)
		b, ok2 := r.(string)
		if !ok1 || !ok2 {
			return nil, domain("%s on non-strings", op)
		}
		if op == "starts with" {
			return strings.HasPrefix(a, b), nil
		}
		return strings.HasSuffix(a, b), nil
	case "matches":
		a, ok1 := l.(string)
		b, ok2 := r.(string)
		// /letters/ and /letters/i (case-insensitive) are modelled
		fold := false
		if ok2 && strings.HasSuffix(b, "/i") {
			fold = true
			b = b[:len(b)-1]
		}
		if !ok1 || !ok2 || len(b) < 2 || b[0] != '/' || b[len(b)-1] != '/' {
			return nil, domain("matches outside the modelled pattern form")
		}
		pat := b[1 : len(b)-1]
		for _, c := range pat {
			if !(c >= 'a' && c <= 'z' || c >= 'A' && c <= 'Z') {
				return nil, domain("matches: only literal letter patterns are modelled")
			}
		}
		if fold {
			// ASCII letters only in the pattern; the subject is folded on ASCII letters as well
			lower := func(x string) string {
				bs := []byte(x)
				for i, ch := range bs {
					if ch >= 'A' && ch <= 'Z' {
						bs[i] = ch + 32
					}
				}
				return string(bs)
			}
			return strings.Contains(lower(a), lower(pat)), nil
		}
		return strings.Contains(a, pat), nil
	}
	return nil, domain("operator %s", op)
}

func abs64(a int64) int64 {
	if a < 0 {
		return -a
	}
	return a
}

// modelEq: equality on same-typed operands whose strings do not look numeric.
func modelEq(l, r interface{}) (bool, error) {
	switch a := l.(type) {
	case int64:
		if b, ok := r.(int64); ok {
			return a == b, nil
		}
	case bool:
		if b, ok := r.(bool); ok {
			return a == b, nil
		}
	case string:
		if b, ok := r.(string); ok {
			if looksNumeric(a) || looksNumeric(b) {
				return false, domain("== on numeric-looking strings")
			}
			return a == b, nil
		}
	}
	return false, domain("== on %T and %T", l, r)
}

func modelIn(item, container interface{}) (bool, error) {
	switch c := container.(type) {
	case string:
		s, ok := item.(string)
		if !ok {
			return false, domain("non-string in string")
		}
		return strings.Contains(c, s), nil
	case []interface{}:
		for _, x := range c {
			eq, err := modelEq(item, x)
			if err != nil {
				return false, err
			}
			if eq {
				return true, nil
			}
		}
		return false, nil
	}
	return false, domain("in %T", container)
}

func (env *Env) evalCall(e *E) (interface{}, error) {
	args, err := env.evalArgs(e.A)
	if err != nil {
		return nil, err
	}
	switch e.S {
	case "spy", "spy2", "forbid_fn":
		if len(args) != 1 {
			return nil, domain("spy arity")
		}
		return env.m.spy(e.S, args[0])
	case "id":
		if len(args) != 1 {
			return nil, domain("id arity")
		}
		return args[0], nil
	case "max", "min":
		if len(args) < 2 {
			return nil, domain("max/min of a list not modelled")
		}
		best, ok := asInt(args[0])
		if !ok {
			return nil, domain("max/min on %T", args[0])
		}
		for _, a := range args[1:] {
			n, ok := asInt(a)
			if !ok {
				return nil, domain("max/min on %T", a)
			}
			if (e.S == "max" && n > best) || (e.S == "min" && n < best) {
				best = n
			}
		}
		return best, nil
	case "range":
		if len(args) < 2 || len(args) > 3 {
			return nil, domain("range arity")
		}
		a, ok1 := asInt(args[0])
		b, ok2 := asInt(args[1])
		st := int64(1)
		ok3 := true
		if len(args) == 3 {
			st, ok3 = asInt(args[2])
		}
		if !ok1 || !ok2 || !ok3 {
			return nil, domain("range on non-ints")
		}
		if st == 0 {
			return nil, &rmErr{"runtime", "range step 0"}
		}
		if (b-a)/st > 100000 {
			return nil, domain("range too long")
		}
		out := []interface{}{}
		if st > 0 {
			for i := a; i <= b; i += st {
				out = append(out, i)
			}
		} else {
			for i := a; i >= b; i += st {
				out = append(out, i)
			}
		}
		return out, nil
	}
	return nil, domain("function %s", e.S)
}

func runeLen(s string) int { return utf8.RuneCountInString(s) }

func (env *Env) evalFilter(e *E) (interface{}, error) {
	v, err := env.Eval(e.A[0])
	if err != nil {
		return nil, err
	}
	args, err := env.evalArgs(e.A[1:])
	if err != nil {
		return nil, err
	}
	switch e.S {
	case "spyf", "forbid":
		return env.m.spy("|"+e.S, v)
	case "abs":
		n, ok := asInt(v)
		if !ok {
			return nil, domain("abs on %T", v)
		}
		return abs64(n), nil
	case "upper", "lower":
		s, ok := v.(string)
		if !ok || !isASCII(s) {
			return nil, domain("%s on non-ASCII/non-string", e.S)
		}
		if e.S == "upper" {
			return strings.ToUpper(s), nil
		}
		return strings.ToLower(s), nil
	case "length":
		switch x := v.(type) {
		case string:
			return int64(runeLen(x)), nil
		case []interface{}:
			return int64(len(x)), nil
		case map[string]interface{}:
			return int64(len(x)), nil
		}
		return nil, domain("length of %T", v)
	case "default":
		if len(args) != 1 {
			return nil, domain("default arity")
		}
		if !truthy(v) {
			return args[0], nil
		}
		return v, nil
	case "first", "last":
		l, ok := v.([]interface{})
		if !ok || len(l) == 0 {
			return nil, domain("%s on %T / empty", e.S, v)
		}
		if e.S == "first" {
			return l[0], nil
		}
		return l[len(l)-1], nil
	case "join":
		l, ok := v.([]interface{})
		sep := ""
		if len(args) > 0 {
			s, ok2 := args[0].(string)
			if !ok2 {
				return nil, domain("join separator")
			}
			sep = s
		}
		if !ok {
			return nil, domain("join on %T", v)
		}
		parts := make([]string, len(l))
		for i, x := range l {
			t, err := toText(x)
			if err != nil {
				return nil, err
			}
			parts[i] = t
		}
		return strings.Join(parts, sep), nil
	case "reverse":
		l, ok := v.([]interface{})
		if !ok {
			return nil, domain("reverse on %T", v)
		}
		out := make([]interface{}, len(l))
		for i, x := range l {
			out[len(l)-1-i] = x
		}
		return out, nil
	case "slice":
		l, ok := v.([]interface{})
		if !ok || len(args) != 2 {
			return nil, domain("slice on %T / arity", v)
		}
		from, ok1 := asInt(args[0])
		n, ok2 := asInt(args[1])
		if !ok1 || !ok2 || from < 0 || n < 0 {
			return nil, domain("slice bounds")
		}
		if from > int64(len(l)) {
			from = int64(len(l))
		}
		to := from + n
		if to > int64(len(l)) {
			to = int64(len(l))
		}
		return append([]interface{}{}, l[from:to]...), nil
	case "sort":
		l, ok := v.([]interface{})
		if !ok {
			return nil, domain("sort on %T", v)
		}
		out := append([]interface{}{}, l...)
		for _, x := range out {
			if _, isInt := x.(int64); !isInt {
				return nil, domain("sort on a list with %T", x)
			}
		}
		sort.SliceStable(out, func(i, j int) bool { return out[i].(int64) < out[j].(int64) })
		return out, nil
	case "keys":
		mp, ok := v.(map[string]interface{})
		if !ok {
			return nil, domain("keys on %T", v)
		}
		ks := make([]string, 0, len(mp))
		for k := range mp {
			ks = append(ks, k)
		}
		sort.Strings(ks)
		out := make([]interface{}, len(ks))
		for i, k := range ks {
			out[i] = k
		}
		return out, nil
	case "raw":
		return v, nil
	case "escape", "e":
		s, err := toText(v)
		if err != nil {
			return nil, err
		}
		return strings.NewReplacer("&", "&amp;", "<", "&lt;", ">", "&gt;", "\"", "&#34;", "'", "&#39;").Replace(s), nil
	}
	return nil, domain("filter %s", e.S)
}

func (env *Env) evalTest(e *E) (interface{}, error) {
	var res bool
	switch e.S {
	case "defined":
		if e.A[0].K != "var" {
			return nil, domain("defined on non-variable")
		}
		v, ok := env.lookup(e.A[0].S)
		res = ok && v != nil // a null value counts as not defined (README: undefined and null print alike)
		if ok && v == nil {
			return nil, domain("defined on a null-valued variable is not specified")
		}
	case "null", "none":
		v, err := env.Eval(e.A[0])
		if err != nil {
			return nil, err
		}
		res = v == nil
	case "even", "odd":
		v, err := env.Eval(e.A[0])
		if err != nil {
			return nil, err
		}
		n, ok := asInt(v)
		if !ok {
			return nil, domain("even/odd on %T", v)
		}
		res = (n%2 == 0) == (e.S == "even")
	case "spyt":
		v, err := env.Eval(e.A[0])
		if err != nil {
			return nil, err
		}
		r, err := env.m.spy("is spyt", v)
		if err != nil {
			return nil, err
		}
		res = truthy(r)
	default:
		return nil, domain("test %s", e.S)
	}
	if e.N {
		res = !res
	}
	return res, nil
}
