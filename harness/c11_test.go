package vh

// C11 — include renders in the right scope and never changes the includer's state.
// Oracle: reference interpreter; in particular every probe of the includer's variables after
// the include equals its value before.

import (
	"errors"
	"fmt"
	"io/fs"
	"os"
	"path/filepath"
	"strings"
	"testing"
	"time"

	"github.com/semihalev/twig"
	"pgregory.net/rapid"
)

// allowAll is a harness security policy that permits everything (sandboxed includes need
// a policy to exist; confinement itself is C06's subject).
type allowAll struct{}

func (allowAll) IsFunctionAllowed(string) bool { return true }
func (allowAll) IsFilterAllowed(string) bool   { return true }
func (allowAll) IsTagAllowed(string) bool      { return true }

var _ twig.SecurityPolicy = allowAll{}

var c11Names = []string{"p", "q", "r", "n1", "n2"}

func definedProbe(name string) *S {
	return Print(Cond(Test(Var(name), "defined", false), Str("D"), Str("U")))
}

// probes prints every name in play: value of the context names, definedness of new names.
func c11Probes() []*S {
	out := []*S{Text("(")}
	for _, n := range c11Names[:3] {
		out = append(out, Print(Var(n)), Text(","))
	}
	for _, n := range c11Names[3:] {
		out = append(out, definedProbe(n))
	}
	return append(out, Text(")"))
}

type incGen struct {
	t     *rapid.T
	stats map[string]bool
}

func (g *incGen) pick(n int, l string) int { return rapid.IntRange(0, n-1).Draw(g.t, l) }

// includedBody: what an included template does: reads names, writes includer names and new
// names, loops with the includer's loop variable name, defines blocks/macros the includer
// also has.
func (g *incGen) includedBody(tag string, nested *S) []*S {
	body := []*S{Text("<" + tag + ":")}
	for _, n := range c11Names[:3] {
		body = append(body, Print(Var(n)), Text(","))
	}
	body = append(body, Print(Var("w1")), Text(","), Print(Filt(Var("i"), "default", Str("-"))))
	n := rapid.IntRange(1, 4).Draw(g.t, "nwrites")
	for k := 0; k < n; k++ {
		switch g.pick(8, "write") {
		case 6:
			// null assigned over an includer name: the included template reads null from then on
			g.stats["sets-includer-name-to-null"] = true
			nm := rapid.SampledFrom(c11Names[:3]).Draw(g.t, "nullname")
			body = append(body, SetS(nm, Null()), Text("~"), Print(Filt(Var(nm), "default", Str("NUL"))), Text("~"))
		case 7:
			// a null loop value under the includer's loop-variable name
			g.stats["loops-with-includer-loop-var"] = true
			body = append(body, &S{K: "for", Name: "i", E: List(Null(), Int(8)), Body: []*S{Print(Filt(Var("i"), "default", Str("N"))), Print(Attr(Var("loop"), "index"))}})
		case 0:
			g.stats["sets-includer-name"] = true
			body = append(body, SetS(rapid.SampledFrom(c11Names[:3]).Draw(g.t, "setname"), Int(int64(900+k))))
		case 1:
			g.stats["sets-new-name"] = true
			body = append(body, SetS(rapid.SampledFrom(c11Names[3:]).Draw(g.t, "newname"), Int(int64(800+k))))
		case 2:
			g.stats["loops-with-includer-loop-var"] = true
			body = append(body, &S{K: "for", Name: "i", E: List(Int(7), Int(8)), Body: []*S{Print(Var("i")), Print(Attr(Var("loop"), "index"))}})
		case 3:
			// (once per template: a template defines a block name once)
			if g.stats["defines-same-block"] {
				body = append(body, Text("[no-second-block]"))
				break
			}
			g.stats["defines-same-block"] = true
			body = append(body, &S{K: "block", Name: "bk", Body: []*S{Text("[inc-block]")}})
		case 4:
			g.stats["defines-same-macro"] = true
			body = append(body, &S{K: "macro", Name: "mc", Body: []*S{Text("[inc-macro]")}}, Print(&E{K: "mcall", S: "mc", M: "local"}))
		default:
			body = append(body, Print(Bin("+", Filt(Var("p"), "default", Int(0)), Int(1))))
		}
	}
	if nested != nil {
		body = append(body, nested)
	}
	// reads after its own writes
	body = append(body, Text("|"), Print(Var("p")), Text(">"))
	return body
}

func (g *incGen) includeStmt(target string, placementLoop bool) *S {
	s := &S{K: "include"}
	switch g.pick(4, "nameform") {
	case 0:
		s.E = Var("tn_" + target)
		g.stats["computed-name"] = true
	case 1:
		s.E = Bin("~", Str(target[:1]), Str(target[1:]))
		g.stats["computed-name"] = true
	default:
		s.E = Str(target)
	}
	if g.pick(2, "with") == 0 {
		g.stats["with"] = true
		keys := []string{"w1"}
		vals := []*E{Int(int64(50 + g.pick(9, "w1v")))}
		if g.pick(2, "withover") == 0 {
			// overrides an includer variable for the included template only
			keys = append(keys, rapid.SampledFrom(c11Names[:3]).Draw(g.t, "overname"))
			if g.pick(3, "overnull") == 0 {
				// null is a value like any other: it hides the includer's variable
				vals = append(vals, rapid.SampledFrom([]*E{Null(), Var("undefined_name")}).Draw(g.t, "nullval"))
				g.stats["with-overrides-by-null"] = true
			} else {
				vals = append(vals, Bin("+", Var("q"), Int(100)))
			}
			g.stats["with-overrides-includer-var"] = true
		}
		if placementLoop && g.pick(2, "passloop") == 0 {
			keys = append(keys, "w2")
			vals = append(vals, Var("i"))
		}
		s.With = Hash(keys, vals)
	}
	if g.pick(3, "only") == 0 {
		s.Only = true
		g.stats["only"] = true
	}
	if g.pick(4, "ignmiss") == 0 {
		s.IgnMiss = true
		g.stats["ignore-missing"] = true
	}
	if g.pick(4, "sandboxed") == 0 {
		s.Sandbox = true
		g.stats["sandboxed"] = true
	}
	return s
}

func genC11(t *rapid.T) (SetCase, map[string]bool) {
	g := &incGen{t: t, stats: map[string]bool{}}
	ctx := Ctx{}
	ctx.Set("p", Int(int64(rapid.IntRange(1, 9).Draw(t, "p"))))
	ctx.Set("q", Int(int64(rapid.IntRange(10, 19).Draw(t, "q"))))
	ctx.Set("r", Str(rapid.SampledFrom([]string{"rr", "x", ""}).Draw(t, "r")))
	for _, n := range []string{"inc1", "inc2", "inc3", "gone"} {
		ctx.Set("tn_"+n, Str(n))
	}
	depth := rapid.IntRange(1, 3).Draw(t, "chain")
	var set TSet
	// build the chain from the innermost template outwards
	var nested *S
	if rapid.IntRange(0, 7).Draw(t, "innermissing") == 0 {
		// the innermost template includes a template that does not exist, without `ignore
		// missing`: that failure must surface even when an outer include says `ignore missing`
		nested = &S{K: "include", E: Str("gone")}
		g.stats["missing-template-below-an-existing-one"] = true
	}
	for d := depth; d >= 1; d-- {
		name := fmt.Sprintf("inc%d", d)
		body := g.includedBody(name, nested)
		if g.pick(4, "extends") == 0 {
			// the included template uses inheritance: its layout reads the includer's names too
			g.stats["included-template-extends"] = true
			lay := "lay" + name
			set = append(set, &Tmpl{Name: lay, Body: []*S{Text("L["), {K: "block", Name: "cb", Body: []*S{Text("dflt")}}, Print(Var("p")), Text(","), Print(Var("q")), Text(","), Print(Var("w1")), Text("]")}})
			set = append(set, &Tmpl{Name: name, Extends: Str(lay), Body: []*S{{K: "block", Name: "cb", Body: body}}})
		} else {
			set = append(set, &Tmpl{Name: name, Body: body})
		}
		nested = g.includeStmt(name, false)
	}
	if depth >= 2 {
		g.stats["nested-include"] = true
	}
	placement := g.pick(5, "placement")
	target := "inc1"
	missing := g.pick(6, "missing") == 0
	if missing {
		target = "gone"
		g.stats["missing-template"] = true
	}
	inc := g.includeStmt(target, placement == 1)
	main := &Tmpl{Name: "main"}
	main.Body = append(main.Body, &S{K: "block", Name: "bk", Body: []*S{Text("[main-block]")}},
		&S{K: "macro", Name: "mc", Body: []*S{Text("[main-macro]")}})
	main.Body = append(main.Body, c11Probes()...)
	switch placement {
	case 0:
		main.Body = append(main.Body, inc)
	case 1:
		g.stats["include-in-loop"] = true
		main.Body = append(main.Body, &S{K: "for", Name: "i", E: List(Int(1), Int(2)), Body: append([]*S{Print(Var("i")), inc}, append(c11Probes(), Print(Attr(Var("loop"), "index")), Print(Var("i")))...)})
	case 2:
		g.stats["include-in-block"] = true
		main.Body = append(main.Body, &S{K: "block", Name: "outer", Body: append([]*S{inc}, c11Probes()...)})
	case 3:
		g.stats["include-in-macro"] = true
		main.Body = append(main.Body, &S{K: "macro", Name: "wrap", Params: []Param{{Name: "p"}}, Body: append([]*S{inc}, c11Probes()...)},
			Print(&E{K: "mcall", S: "wrap", M: "local", A: []*E{Int(77)}}))
	default:
		g.stats["include-in-if"] = true
		main.Body = append(main.Body, &S{K: "if", Conds: []*E{Var("p")}, Bodies: [][]*S{{inc}}})
	}
	main.Body = append(main.Body, c11Probes()...)
	main.Body = append(main.Body, Print(&E{K: "mcall", S: "mc", M: "local"}))
	set = append(set, main)
	return SetCase{Ctx: ctx, Set: set, Main: "main"}, g.stats
}

func checkC11(c SetCase) error {
	want := runModel(c.Set, "main", c.Ctx, 0)
	if want.domain {
		return nil
	}
	srcs := c.Set.Sources(SPrint{})
	e := newEngine(srcs)
	e.EnableSandbox(allowAll{})
	NewSpies().Install(e)
	r := render(e, "main", c.Ctx.Go())
	if r.Panic != "" {
		return fmt.Errorf("engine panicked: %s; templates:%s", r.Panic, showSources(srcs))
	}
	if want.failed {
		if r.Err == "" {
			return fmt.Errorf("model says the render fails (%v) but the engine returned %s; templates:%s", want.modelEr, q(r.Out), showSources(srcs))
		}
		return nil
	}
	if r.Err != "" {
		return fmt.Errorf("engine error %s, model output %s; templates:%s", firstLine(r.Err), q(want.out), showSources(srcs))
	}
	if r.Out != want.out {
		return fmt.Errorf("engine %s, model %s; templates:%s", q(r.Out), q(want.out), showSources(srcs))
	}
	return nil
}

const c11Rule = "includer + chains of 1-3 included templates; every combination of with{...}/only/ignore missing/sandboxed, static and computed names, placement at top level, in a loop (loop variable passed via with), in a block, in a macro, in an if; the included templates read the includer's names, set includer names (also to null) and new names, receive null through with, loop with the includer's loop-variable name, define blocks and macros the includer also has; the includer probes all names (values and definedness), its macro and its loop state after the include; missing templates with and without ignore missing; non-trivial = the included template writes a name the includer probes, or with/only is present; distinct by source set"

func TestC11Include(t *testing.T) {
	r := NewRec(t, "C11", c11Rule)
	defer r.Flush()
	rapid.Check(t, func(rt *rapid.T) {
		c, st := genC11(rt)
		if runModel(c.Set, "main", c.Ctx, 0).domain {
			r.Excl("outside the modelled domain")
			return
		}
		var cl []string
		for k := range st {
			cl = append(cl, k)
		}
		sortStrings(cl)
		nt := st["sets-includer-name"] || st["sets-new-name"] || st["with"] || st["only"] || st["loops-with-includer-loop-var"]
		srcs := c.Set.Sources(SPrint{})
		r.Case(showSources(srcs), nt, srcs, cl...)
		if err := checkC11(c); err != nil {
			r.Fail(rt, "C11.include", c, err)
		}
	})
}

// TestC11Options: all 16 option combinations x 4 placements x {existing, missing} with a
// fixed writing included template.
func TestC11Options(t *testing.T) {
	r := NewRec(t, "C11", "exhaustive: with/only/ignore missing/sandboxed in all 16 combinations x placement {top level, loop, block, macro} x {existing template, missing template, template that fails for another reason, template whose loader fails with an I/O error while a second loader lacks it}; the included template sets an includer name, a new name and loops with the includer's loop variable; all cases non-trivial")
	defer r.Flush()
	r.SetExhaustive()
	ctx := Ctx{}
	ctx.Set("p", Int(3))
	ctx.Set("q", Int(14))
	ctx.Set("r", Str("rr"))
	incBody := []*S{Text("<"), Print(Var("p")), Text(","), Print(Var("q")), Text(","), Print(Var("w1")), SetS("p", Int(901)), SetS("n1", Int(801)),
		{K: "for", Name: "i", E: List(Int(7)), Body: []*S{Print(Var("i"))}}, Print(Var("p")), Text(">")}
	for opts := 0; opts < 16; opts++ {
		for placement := 0; placement < 4; placement++ {
			for target := 0; target < 3; target++ {
				inc := &S{K: "include", E: Str([]string{"inc", "gone", "bad"}[target])}
				if opts&1 != 0 {
					inc.With = Hash([]string{"w1", "q"}, []*E{Int(55), Int(66)})
				}
				inc.Only = opts&2 != 0
				inc.IgnMiss = opts&4 != 0
				inc.Sandbox = opts&8 != 0
				main := &Tmpl{Name: "main", Body: c11Probes()}
				switch placement {
				case 0:
					main.Body = append(main.Body, inc)
				case 1:
					main.Body = append(main.Body, &S{K: "for", Name: "i", E: List(Int(1), Int(2)), Body: append([]*S{inc, Print(Var("i")), Print(Attr(Var("loop"), "index"))}, c11Probes()...)})
				case 2:
					main.Body = append(main.Body, &S{K: "block", Name: "outer", Body: append([]*S{inc}, c11Probes()...)})
				default:
					main.Body = append(main.Body, &S{K: "macro", Name: "wrap", Params: []Param{{Name: "p"}}, Body: append([]*S{inc}, c11Probes()...)},
						Print(&E{K: "mcall", S: "wrap", M: "local", A: []*E{Int(77)}}))
				}
				main.Body = append(main.Body, c11Probes()...)
				set := TSet{{Name: "inc", Body: incBody}, {Name: "bad", Body: []*S{Text("x"), Print(Bin("/", Int(1), Int(0)))}}, main}
				c := SetCase{Ctx: ctx, Set: set, Main: "main"}
				r.Case(fmt.Sprint(opts, placement, target), true, PrintS(inc, SPrint{}), fmt.Sprintf("placement:%d", placement))
				if err := checkC11(c); err != nil {
					r.FailEnum(t, "C11.include", c, err)
				}
				if target == 0 {
					// the included template exists, but the loader that has it fails with an
					// I/O style error while another loader simply lacks it: "every other failure
					// is reported", with or without `ignore missing`, in either loader order, registered one by one or as one ChainLoader
					for order := 0; order < 4; order++ {
						cc := C11IOCase{Case: c, Order: order}
						r.Case(fmt.Sprint("ioerr", opts, placement, order), true, PrintS(inc, SPrint{}), "loader-failure")
						if err := checkC11IO(cc); err != nil {
							r.FailEnum(t, "C11.ioerr", cc, err)
						}
					}
				}
			}
		}
	}
}

type C11IOCase struct {
	Case  SetCase `json:"case"`
	Order int     `json:"order"`
}

// c11FailFor serves nothing and fails with a wrapped sentinel for one name
type c11FailFor struct{ name string }

func (l c11FailFor) Load(name string) (string, error) {
	if name == l.name {
		return "", fmt.Errorf("read %s: backend unavailable: %w", name, errSentinel)
	}
	return "", fmt.Errorf("%w: %s", twig.ErrTemplateNotFound, name)
}
func (l c11FailFor) Exists(name string) bool { return name == l.name }

func checkC11IO(c C11IOCase) error {
	srcs := c.Case.Set.Sources(SPrint{})
	rest := copyMap(srcs)
	delete(rest, "inc")
	e := twig.New()
	switch {
	case c.Order == 2:
		// the same two loaders as members of one ChainLoader
		e.RegisterLoader(twig.NewChainLoader([]twig.Loader{c11FailFor{"inc"}, twig.NewArrayLoader(rest)}))
	case c.Order == 3:
		e.RegisterLoader(twig.NewChainLoader([]twig.Loader{twig.NewArrayLoader(rest), c11FailFor{"inc"}}))
	case c.Order == 0:
		e.RegisterLoader(c11FailFor{"inc"})
		e.RegisterLoader(twig.NewArrayLoader(rest))
	default:
		e.RegisterLoader(twig.NewArrayLoader(rest))
		e.RegisterLoader(c11FailFor{"inc"})
	}
	e.EnableSandbox(allowAll{})
	NewSpies().Install(e)
	r := render(e, "main", c.Case.Ctx.Go())
	if r.Panic != "" {
		return fmt.Errorf("engine panicked: %s", r.Panic)
	}
	if r.Err == "" {
		return fmt.Errorf("the loader holding 'inc' failed with an I/O error (another loader lacks the name) but the render returned %s without an error; main: %s", q(r.Out), q(srcs["main"]))
	}
	if !errors.Is(r.Error(), errSentinel) {
		return fmt.Errorf("the render failed but the error does not wrap the loader's failure: %s", firstLine(r.Err))
	}
	return nil
}

func init() { reg("C11.ioerr", checkC11IO) }

func init() { reg("C11.include", checkC11) }

// ---- relative names in a sub-directory ---------------------------------------------------------

type C11RelCase struct {
	Opts   int `json:"opts"`   // bit0 with, bit1 only, bit2 ignore missing, bit3 sandboxed
	Target int `json:"target"` // 0 existing, 1 missing, 2 the as-written name fails in the loader, 3 existing but broken
}

type c11MapLoader struct {
	tmpls   map[string]string
	failing map[string]bool
}

func (l c11MapLoader) Load(name string) (string, error) {
	if l.failing[name] {
		return "", fmt.Errorf("read %s: backend unavailable: %w", name, errSentinel)
	}
	if s, ok := l.tmpls[name]; ok {
		return s, nil
	}
	return "", fmt.Errorf("%w: %s", twig.ErrTemplateNotFound, name)
}
func (l c11MapLoader) Exists(name string) bool { _, ok := l.tmpls[name]; return ok || l.failing[name] }

// checkC11Rel: an includer in a sub-directory names the included template relative to itself.
// (0) an existing template: same output as with its full name; (1) a missing one: empty output
// with `ignore missing`, an error without; (2) nothing at the resolved name and a loader failure
// (not "not found") for the name as written; (3) a template that exists but does not parse:
// both are "other failures" and must be reported, `ignore missing` or not.
func checkC11Rel(c C11RelCase) error {
	opts := ""
	if c.Opts&4 != 0 {
		opts += " ignore missing"
	}
	if c.Opts&1 != 0 {
		opts += " with {'w1': 55, 'q': 66}"
	}
	if c.Opts&2 != 0 {
		opts += " only"
	}
	if c.Opts&8 != 0 {
		opts += " sandboxed"
	}
	if c.Target == 4 {
		return checkC11Unreadable(opts)
	}
	rel := []string{"./inc", "./gone", "./bad", "./broken"}[c.Target]
	abs := []string{"pages/inc", "pages/gone", "pages/bad", "pages/broken"}[c.Target]
	mk := func(name string) (*twig.Engine, map[string]string) {
		tm := map[string]string{
			"pages/main":   "A({{ p }},{{ q }}){% include '" + name + "'" + opts + " %}B({{ p }},{{ q }})",
			"pages/inc":    "<{{ p }},{{ q }},{{ w1 }}{% set p = 901 %}{{ p }}>",
			"pages/broken": "{% if x %}never closed",
			"inc":          "WRONG-DIRECTORY",
		}
		e := twig.New()
		e.RegisterLoader(c11MapLoader{tm, map[string]bool{"./bad": true}})
		e.EnableSandbox(allowAll{})
		return e, tm
	}
	ctx := func() map[string]interface{} { return map[string]interface{}{"p": 3, "q": 14} }
	eR, tm := mk(rel)
	rr := render(eR, "pages/main", ctx())
	eA, _ := mk(abs)
	ra := render(eA, "pages/main", ctx())
	if rr.Panic != "" || ra.Panic != "" {
		return fmt.Errorf("panic: %v / %v", rr, ra)
	}
	switch c.Target {
	case 0:
		if rr.Failed() || ra.Failed() || rr.Out != ra.Out {
			return fmt.Errorf("include of %s from pages/main renders %v, include of %s renders %v; main: %s", rel, rr, abs, ra, q(tm["pages/main"]))
		}
	case 1:
		if c.Opts&4 != 0 {
			if rr.Failed() || rr.Out != "A(3,14)B(3,14)" {
				return fmt.Errorf("include of the missing %s with ignore missing renders %v; main: %s", rel, rr, q(tm["pages/main"]))
			}
		} else if rr.Err == "" || !errors.Is(rr.Error(), twig.ErrTemplateNotFound) {
			return fmt.Errorf("include of the missing %s: %v (want an error matching ErrTemplateNotFound); main: %s", rel, rr, q(tm["pages/main"]))
		}
	case 2:
		if rr.Err == "" || !errors.Is(rr.Error(), errSentinel) {
			return fmt.Errorf("the loader fails (I/O) for the name as written, nothing exists at the resolved name: render gives %v, want an error wrapping the loader's; main: %s", rr, q(tm["pages/main"]))
		}
	case 3:
		if rr.Err == "" || errors.Is(rr.Error(), twig.ErrTemplateNotFound) {
			return fmt.Errorf("the included template exists but does not parse: render gives %v, want the parse error; main: %s", rr, q(tm["pages/main"]))
		}
	}
	return nil
}

// checkC11Unreadable: on a real FileSystemLoader the included template is present but cannot
// be read (a directory stands where the file should be). That is not "does not exist".
func checkC11Unreadable(opts string) error {
	root, err := os.MkdirTemp(workDir(), "c11-")
	if err != nil {
		return fmt.Errorf("harness: %v", err)
	}
	defer os.RemoveAll(root)
	if err := writeTree(root, map[string]string{"pages/main.twig": "A{% include './part'" + opts + " %}B{% include 'top'" + opts + " %}C", "pages/ok.twig": "ok"}); err != nil {
		return fmt.Errorf("harness: %v", err)
	}
	os.MkdirAll(filepath.Join(root, "pages", "part.twig"), 0o755)
	os.MkdirAll(filepath.Join(root, "top.twig"), 0o755)
	e := twig.New()
	e.RegisterLoader(twig.NewFileSystemLoader([]string{root}))
	e.EnableSandbox(allowAll{})
	r := render(e, "pages/main", map[string]interface{}{"p": 1})
	if r.Panic != "" {
		return fmt.Errorf("panic: %s", r.Panic)
	}
	var pe *fs.PathError
	if r.Err == "" || errors.Is(r.Error(), twig.ErrTemplateNotFound) || !errors.As(r.Error(), &pe) {
		return fmt.Errorf("the included template is present but unreadable (a directory named part.twig): render gives %v, want an error wrapping the read failure and not matching ErrTemplateNotFound (options%s)", r, opts)
	}
	return nil
}

func TestC11Relative(t *testing.T) {
	r := NewRec(t, "C11", "exhaustive: an includer in a sub-directory includes by relative name, all 16 option combinations x {existing template (compared with the include by full name), missing template, loader I/O failure for the name as written, existing template that does not parse, template that is present on a real file-system loader but unreadable}; all cases non-trivial")
	defer r.Flush()
	r.SetExhaustive()
	for opts := 0; opts < 16; opts++ {
		for target := 0; target < 5; target++ {
			c := C11RelCase{Opts: opts, Target: target}
			r.Case(fmt.Sprint(opts, target), true, c)
			if err := checkC11Rel(c); err != nil {
				r.FailEnum(t, "C11.rel", c, err)
			}
		}
	}
}

// ---- a template that does not exist yet, then does ---------------------------------------------------

type C11LaterCase struct {
	Opts int  `json:"opts"` // bit0 with, bit1 only, bit2 ignore missing, bit3 sandboxed
	Rel  bool `json:"rel"`  // the include names the template relative to the includer
	Reps int  `json:"reps"` // renders while the template is missing
}

// checkC11Later: `ignore missing` (and the error without it) describe the moment of the render: once
// a loader has the template, the same include renders it.
func checkC11Later(c C11LaterCase) error {
	opts := ""
	if c.Opts&4 != 0 {
		opts += " ignore missing"
	}
	if c.Opts&1 != 0 {
		opts += " with {'w': 5}"
	}
	if c.Opts&2 != 0 {
		opts += " only"
	}
	if c.Opts&8 != 0 {
		opts += " sandboxed"
	}
	name, written := "sub/late", "'sub/late'"
	if c.Rel {
		written = "'./late'"
	}
	tm := map[string]string{"sub/main": "A{% include " + written + opts + " %}B"}
	e := twig.New()
	e.RegisterLoader(c11MapLoader{tm, nil})
	e.EnableSandbox(allowAll{})
	for i := 0; i < c.Reps; i++ {
		r := render(e, "sub/main", map[string]interface{}{"p": 1})
		if r.Panic != "" {
			return fmt.Errorf("panic: %s", r.Panic)
		}
		if c.Opts&4 != 0 {
			if r.Failed() || r.Out != "AB" {
				return fmt.Errorf("render %d with the template missing: %v, want \"AB\"; includer %s", i+1, r, q(tm["sub/main"]))
			}
		} else if r.Err == "" || !errors.Is(r.Error(), twig.ErrTemplateNotFound) {
			return fmt.Errorf("render %d with the template missing: %v, want an error matching ErrTemplateNotFound; includer %s", i+1, r, q(tm["sub/main"]))
		}
	}
	tm[name] = "(late{{ w }})"
	want := "A(late)B"
	if c.Opts&1 != 0 {
		want = "A(late5)B"
	}
	r := render(e, "sub/main", map[string]interface{}{"p": 1})
	if r.Failed() || r.Out != want {
		return fmt.Errorf("after %d render(s) without it the loader has %q now: the include renders %v, want %s; includer %s", c.Reps, name, r, q(want), q(tm["sub/main"]))
	}
	return nil
}

func TestC11Later(t *testing.T) {
	r := NewRec(t, "C11", "exhaustive: an include of a template no loader has, rendered 1 / 2 / 5 times (empty with `ignore missing`, an error without), then the loader gains the template and the same include must render it; all 16 option combinations x {full name, relative name}; all cases non-trivial")
	defer r.Flush()
	r.SetExhaustive()
	for opts := 0; opts < 16; opts++ {
		for _, rel := range []bool{false, true} {
			for _, reps := range []int{1, 2, 5} {
				c := C11LaterCase{Opts: opts, Rel: rel, Reps: reps}
				r.Case(fmt.Sprint(opts, rel, reps), true, c)
				if err := checkC11Later(c); err != nil {
					r.FailEnum(t, "C11.later", c, err)
				}
			}
		}
	}
}

// ---- includes nested deep, and a template that goes away -----------------------------------------------

type C11DeepCase struct {
	Depth int  `json:"depth"`
	Chain bool `json:"chain"` // a chain of distinct templates instead of one that includes itself
	With  bool `json:"with"`
}

// checkC11Deep: the innermost of Depth nested includes still reads the variables of the outermost
// template and of the Render call.
func checkC11Deep(c C11DeepCase) error {
	tm := map[string]string{}
	var want strings.Builder
	if c.Chain {
		for i := 0; i < c.Depth; i++ {
			with := ""
			if c.With {
				with = fmt.Sprintf(" with {'k%d': %d}", i, i)
			}
			tm[fmt.Sprintf("c%d", i)] = fmt.Sprintf("%d{{ top }}{%% include 'c%d'%s %%}", i%10, i+1, with)
			want.WriteString(fmt.Sprintf("%dT", i%10))
		}
		tm[fmt.Sprintf("c%d", c.Depth)] = "<{{ top }}{{ outer }}{{ k0 }}>"
		want.WriteString("<TO")
		if c.With {
			want.WriteString("0")
		}
		want.WriteString(">")
		tm["main"] = "{% set outer = 'O' %}{% include 'c0' %}"
	} else {
		with := ""
		if c.With {
			with = " with {'n': n + 1}"
		} else {
			with = " with {'n': n + 1} only"
			_ = with
			with = " with {'n': n + 1}"
		}
		tm["rec"] = "{{ n % 10 }}{% if n < max %}{% include 'rec'" + with + " %}{% endif %}{{ sep }}"
		tm["main"] = "{% set sep = ';' %}{% include 'rec' with {'n': 0} %}"
		for i := 0; i <= c.Depth; i++ {
			want.WriteString(fmt.Sprint(i % 10))
		}
		want.WriteString(strings.Repeat(";", c.Depth+1))
	}
	r := render(newEngine(tm), "main", map[string]interface{}{"top": "T", "max": c.Depth})
	if r.Failed() || r.Out != want.String() {
		return fmt.Errorf("%d nested includes (chain=%v, with=%v): %s, want %s", c.Depth, c.Chain, c.With, trunc(fmt.Sprint(r)), q(trunc(want.String())))
	}
	return nil
}

type C11GoneCase struct {
	Opts int `json:"opts"` // bit2 ignore missing
	How  int `json:"how"`  // 0 the included file is removed, 1 rewritten with a syntax error, 2 replaced by a directory, 3 (compiled loader) truncated
	Mode int `json:"mode"` // 0 cache on + auto-reload, 1 cache off, 2 a CompiledLoader over .twig.compiled files (cache off)
}

// checkC11Gone: auto-reload on, file-system loader; after a successful render the included file goes
// away or breaks. A missing template is empty under `ignore missing` and ErrTemplateNotFound without;
// a broken one is reported either way. The earlier copy is not served.
func checkC11Gone(c C11GoneCase) error {
	root, err := os.MkdirTemp(workDir(), "c11gone-")
	if err != nil {
		return fmt.Errorf("harness: %v", err)
	}
	defer os.RemoveAll(root)
	opts := ""
	if c.Opts&4 != 0 {
		opts = " ignore missing"
	}
	write := func(name, src string, ts int64) {
		p := filepath.Join(root, name+".twig")
		os.WriteFile(p, []byte(src), 0o644)
		os.Chtimes(p, time.Unix(ts, 0), time.Unix(ts, 0))
	}
	if c.Mode == 2 {
		return checkC11GoneCompiled(c, root, opts)
	}
	write("main", "A{% include 'part'"+opts+" %}B", 1700000000)
	write("part", "(part{{ v }})", 1700000000)
	e := twig.New()
	e.RegisterLoader(twig.NewFileSystemLoader([]string{root}))
	if c.Mode == 1 {
		e.SetCache(false)
	} else {
		e.SetAutoReload(true)
	}
	if r := render(e, "main", map[string]interface{}{"v": 1}); r.Failed() || r.Out != "A(part1)B" {
		return fmt.Errorf("first render: %v", r)
	}
	switch c.How {
	case 0:
		os.Remove(filepath.Join(root, "part.twig"))
	case 1:
		write("part", "(part{% if %}", 1700000100)
	default:
		os.Remove(filepath.Join(root, "part.twig"))
		os.Mkdir(filepath.Join(root, "part.twig"), 0o755)
	}
	r := render(e, "main", map[string]interface{}{"v": 2})
	if r.Panic != "" {
		return fmt.Errorf("panic: %s", r.Panic)
	}
	what := []string{"was removed", "was rewritten with a syntax error", "was replaced by a directory"}[c.How] + []string{" (cache on, auto-reload on)", " (cache off)"}[c.Mode]
	switch {
	case c.How == 0 && c.Opts&4 != 0:
		if r.Failed() || r.Out != "AB" {
			return fmt.Errorf("the included file %s (`ignore missing`): %v, want \"AB\"", what, r)
		}
	case c.How == 0:
		if r.Err == "" || !errors.Is(r.Error(), twig.ErrTemplateNotFound) {
			return fmt.Errorf("the included file %s: %v, want an error matching ErrTemplateNotFound", what, r)
		}
	default:
		if r.Err == "" {
			return fmt.Errorf("the included file %s: the render returned %s without an error", what, q(r.Out))
		}
	}
	return nil
}

// checkC11GoneCompiled: the same through a CompiledLoader: the compiled file of the included template
// is removed (missing) or cut short (damaged: reported, `ignore missing` or not).
func checkC11GoneCompiled(c C11GoneCase, root, opts string) error {
	src := newEngine(map[string]string{"main": "A{% include 'part'" + opts + " %}B", "part": "(part{{ v }})"})
	cl := twig.NewCompiledLoader(root)
	for _, n := range []string{"main", "part"} {
		if err := cl.SaveCompiled(src, n); err != nil {
			return fmt.Errorf("harness: SaveCompiled: %v", err)
		}
	}
	e := twig.New()
	e.RegisterLoader(twig.NewCompiledLoader(root))
	e.SetCache(false)
	if r := render(e, "main", map[string]interface{}{"v": 1}); r.Failed() || r.Out != "A(part1)B" {
		return fmt.Errorf("first render through the compiled loader: %v", r)
	}
	p := filepath.Join(root, "part.twig.compiled")
	if c.How == 0 {
		os.Remove(p)
	} else {
		data, _ := os.ReadFile(p)
		os.WriteFile(p, data[:len(data)/2], 0o644)
	}
	r := render(e, "main", map[string]interface{}{"v": 2})
	if r.Panic != "" {
		return fmt.Errorf("panic: %s", r.Panic)
	}
	switch {
	case c.How == 0 && c.Opts&4 != 0:
		if r.Failed() || r.Out != "AB" {
			return fmt.Errorf("compiled file of the included template removed, `ignore missing`: %v, want \"AB\"", r)
		}
	case c.How == 0:
		if r.Err == "" || !errors.Is(r.Error(), twig.ErrTemplateNotFound) {
			return fmt.Errorf("compiled file of the included template removed: %v, want an error matching ErrTemplateNotFound", r)
		}
	default:
		if r.Err == "" {
			return fmt.Errorf("compiled file of the included template cut short (it is there, but damaged): the render returned %s without an error", q(r.Out))
		}
	}
	return nil
}

func TestC11Deep(t *testing.T) {
	r := NewRec(t, "C11", "exhaustive: includes nested 1, 2, 10, 31, 32, 33, 47..51, 64, 100, 150 levels (one template including itself with a counter, and a chain of distinct templates, with and without `with`), the innermost reading variables of the outermost template and of the Render call; an included file that is removed / broken / replaced by a directory after a successful render (cache on with auto-reload, cache off, and through a CompiledLoader whose file is removed or cut short), with and without `ignore missing`; expected text computed directly; non-trivial = depth >= 10 or the file changes")
	defer r.Flush()
	r.SetExhaustive()
	for _, d := range []int{1, 2, 10, 31, 32, 33, 47, 48, 49, 50, 51, 64, 100, 150} {
		for _, chain := range []bool{false, true} {
			for _, with := range []bool{false, true} {
				c := C11DeepCase{Depth: d, Chain: chain, With: with}
				r.Case(fmt.Sprint(c), d >= 10, c)
				if err := checkC11Deep(c); err != nil {
					r.FailEnumKey(t, "C11.deep", fmt.Sprint(chain, with), c, err)
				}
			}
		}
	}
	for _, hm := range [][2]int{{0, 0}, {1, 0}, {2, 0}, {0, 1}, {1, 1}, {2, 1}, {0, 2}, {3, 2}} {
		for _, opts := range []int{0, 4} {
			c := C11GoneCase{Opts: opts, How: hm[0], Mode: hm[1]}
			r.Case(fmt.Sprint("gone", c), true, c)
			if err := checkC11Gone(c); err != nil {
				r.FailEnum(t, "C11.gone", c, err)
			}
		}
	}
}

// ---- template names that contain the words of the include tag -------------------------------------------

type C11NameCase struct {
	Name  BStr `json:"name"`
	Opts  int  `json:"opts"`  // bit0 with, bit1 only, bit2 ignore missing, bit3 sandboxed
	Quote int  `json:"quote"` // 0 single quotes, 1 double quotes, 2 the name comes from a variable
}

// checkC11Name: an include renders the named template, whatever the name is made of.
func checkC11Name(c C11NameCase) error {
	name := string(c.Name)
	opts, want := "", "A[inc:|outer]B"
	if c.Opts&4 != 0 {
		opts += " ignore missing"
	}
	if c.Opts&1 != 0 {
		// one new name, and the includer's own variable handed on under its own name
		if c.Quote == 0 {
			opts += " with {w: 'W', o: o}"
		} else {
			opts += " with {'w': 'W', 'o': o}"
		}
		want = "A[inc:W|outer]B"
	}
	if c.Opts&2 != 0 {
		opts += " only"
		if c.Opts&1 == 0 {
			want = strings.Replace(want, "|outer", "|", 1)
		}
	}
	if c.Opts&8 != 0 {
		opts += " sandboxed"
	}
	written := "'" + name + "'"
	switch c.Quote {
	case 1:
		written = "\"" + name + "\""
	case 2:
		written = "nm"
	}
	tm := map[string]string{"main": "A{% include " + written + opts + " %}B", name: "[inc:{{ w }}|{{ o }}]"}
	e := newEngine(tm)
	e.EnableSandbox(allowAll{})
	r := render(e, "main", map[string]interface{}{"nm": name, "o": "outer"})
	if r.Failed() || r.Out != want {
		return fmt.Errorf("include of the template named %s (written %s%s): %v, want %s", q(name), written, opts, r, q(want))
	}
	return nil
}

var c11OddNames = []string{"page with spaces", "a with b", "with", "x only", "only", "ignore missing", "a ignore missing b", "sandboxed", "in", "a in b", "a as b", "import x", "from a import b", "two  blanks", " lead", "trail ",
	"tab\tname", "\u00e9 \u00e0", "with {a: 1}", "x with y only", "if", "endblock", "a|b", "a~b", "[x]", "{y}", "a.b.c", "-dash-", "#hash", "%percent"}

func TestC11Names(t *testing.T) {
	r := NewRec(t, "C11", "exhaustive: 30 template names that contain words and characters of the tag language (with, only, ignore missing, sandboxed, in, as, import, blanks, brackets, operators), included with each of the 16 option combinations, the name written in single quotes, in double quotes and taken from a variable; oracle: the named template renders in place; all cases non-trivial")
	defer r.Flush()
	r.SetExhaustive()
	for _, name := range c11OddNames {
		for opts := 0; opts < 16; opts++ {
			for quote := 0; quote < 3; quote++ {
				c := C11NameCase{Name: BStr(name), Opts: opts, Quote: quote}
				r.Case(fmt.Sprint(name, opts, quote), true, c)
				if err := checkC11Name(c); err != nil {
					r.FailEnumKey(t, "C11.name", name, c, err)
				}
			}
		}
	}
}

func init() {
	reg("C11.name", checkC11Name)
	reg("C11.rel", checkC11Rel)
	reg("C11.later", checkC11Later)
	reg("C11.deep", checkC11Deep)
	reg("C11.gone", checkC11Gone)
}

// ---- engine globals next to the includer's variables --------------------------------------------------------

type C11GlobalCase struct {
	Which int `json:"which"`
}

var c11GlobalSets = []struct {
	main, want string
}{
	{"{{ g }}{% include 'inc' %}", "ctx[ctx|G2]"},
	{"{% include 'inc' with {'g': 'w'} %}{{ g }}", "[w|G2]ctx"},
	{"{% include 'inc' with {'x': 1} only %}", "[global|G2]"},
	{"{% set g = 'set' %}{% include 'inc' %}", "[set|G2]"},
	{"{% for g in ['l1', 'l2'] %}{% include 'inc' %}{% endfor %}", "[l1|G2][l2|G2]"},
	{"{% set g2 = 's2' %}{% include 'inc' %}|{% include 'inc' only %}", "[ctx|s2]|[global|G2]"},
	{"{% include 'outer' %}", "<[ctx|G2]>"},
	{"{% include 'outer' with {'g': 'deep'} %}", "<[deep|G2]>"},
	{"{% for i in [1] %}{% if true %}{% include 'inc' %}{% endif %}{% endfor %}", "[ctx|G2]"},
	{"{% macro m(g) %}{% include 'inc' %}{% endmacro %}{{ m('arg') }}", "[arg|G2]"},
	{"{% extends 'layout' %}{% block b %}{% include 'inc' %}{% endblock %}", "L([ctx|G2])ctx"},
}

// checkC11Global: an included template reads the including template's variables; an engine global
// of the same name is what it sees only where no such variable exists.
func checkC11Global(c C11GlobalCase) error {
	s := c11GlobalSets[c.Which%len(c11GlobalSets)]
	tm := map[string]string{"main": s.main, "inc": "[{{ g }}|{{ g2 }}]", "outer": "<{% include 'inc' %}>", "layout": "L({% block b %}{% endblock %}){{ g }}"}
	e := newEngine(tm)
	e.AddGlobal("g", "global")
	e.AddGlobal("g2", "G2")
	r := render(e, "main", map[string]interface{}{"g": "ctx"})
	if r.Failed() || r.Out != s.want {
		return fmt.Errorf("globals g = 'global', g2 = 'G2', context g = 'ctx', included template %s: %s renders %v, want %s", q(tm["inc"]), q(s.main), r, q(s.want))
	}
	return nil
}

func TestC11Globals(t *testing.T) {
	r := NewRec(t, "C11", "exhaustive: 11 arrangements (plain, with, only, after set, loop variable, nested include, inside if/for, inside a macro, inside a block of a child template) of an include on an engine with two globals, one of which has the name of a variable of the including template; expected text written out; all cases non-trivial")
	defer r.Flush()
	r.SetExhaustive()
	for i := range c11GlobalSets {
		c := C11GlobalCase{Which: i}
		r.Case(fmt.Sprint(i), true, c11GlobalSets[i].main)
		if err := checkC11Global(c); err != nil {
			r.FailEnum(t, "C11.global", c, err)
		}
	}
}

func init() { reg("C11.global", checkC11Global) }

// ---- variables of the includer that hold null ------------------------------------------------------------------

type C11NullCase struct {
	Which int `json:"which"`
}

var c11NullMains = []string{
	"{% include 'inc' %}",
	"{% include 'inc' with {'y': 1} %}",
	"{% for i in [1] %}{% include 'inc' %}{% endfor %}",
	"{% include 'outer' %}",
	"{% set z = null %}{% include 'inc' %}",
	"{% macro m(x) %}{% include 'inc' %}{% endmacro %}{{ m(null) }}",
	"{% include 'inc' with {'x': null} only %}",
	"{% extends 'layout' %}{% block b %}{% include 'inc' %}{% endblock %}",
}

// checkC11Null: the tests an included template makes on a variable of the including template give
// the answers the including template gets itself, also when the variable holds null.
func checkC11Null(c C11NullCase) error {
	main := c11NullMains[c.Which%len(c11NullMains)]
	const probe = "{{ x is defined ? 'def' : 'undef' }},{{ x is not defined ? 'nd' : 'd' }},{{ x is null ? 'null' : 'nn' }},{{ x|default('dflt') }},{{ nope is defined ? 'def' : 'undef' }}"
	tm := map[string]string{"main": main, "inc": "[" + probe + "]", "outer": "<{% include 'inc' %}>", "layout": "L({% block b %}{% endblock %})", "self": probe}
	ctx := map[string]interface{}{"x": nil}
	want := render(newEngine(tm), "self", ctx)
	r := render(newEngine(tm), "main", ctx)
	if want.Failed() || r.Failed() || !strings.Contains(r.Out, "["+want.Out+"]") {
		return fmt.Errorf("context x = null: the template itself answers %v; included through %s the same tests answer %v", want, q(main), r)
	}
	return nil
}

func TestC11Null(t *testing.T) {
	r := NewRec(t, "C11", "exhaustive: 8 arrangements (plain, with, in a loop, nested, after a set, in a macro whose parameter is null, with-only passing null, in a block of a child template) of an include whose template tests a variable that holds null (is defined, is not defined, is null, default); oracle: the answers the including level gets for the same tests; all cases non-trivial")
	defer r.Flush()
	r.SetExhaustive()
	for i := range c11NullMains {
		c := C11NullCase{Which: i}
		r.Case(fmt.Sprint(i), true, c11NullMains[i])
		if err := checkC11Null(c); err != nil {
			r.FailEnum(t, "C11.null", c, err)
		}
	}
}

func init() { reg("C11.null", checkC11Null) }

// ---- the included name registered again between renders -----------------------------------------------------------

type C11ReregCase struct {
	Form  int `json:"form"`
	Route int `json:"route"`
}

var c11ReregMains = []string{"[{% include 'part' %}]", "[{% include 'part' with {'v': 1} only %}]", "[{% for i in [1, 2] %}{% include 'part' %}{% endfor %}]", "[{% include 'part' ignore missing %}]", "[{% include name %}]", "[{% include 'mid' %}]"}

func checkC11Rereg(c C11ReregCase) error {
	main := c11ReregMains[c.Form%len(c11ReregMains)]
	e := newEngine(nil)
	for n, s := range map[string]string{"main": main, "part": "P1", "mid": "<{% include 'part' %}>"} {
		if err := e.RegisterString(n, s); err != nil {
			return fmt.Errorf("harness: %v", err)
		}
	}
	ctx := map[string]interface{}{"name": "part"}
	want := func(p string) string {
		out := strings.NewReplacer("{% include 'part' %}", p, "{% include 'part' with {'v': 1} only %}", p, "{% for i in [1, 2] %}", "", "{% endfor %}", "", "{% include 'part' ignore missing %}", p, "{% include name %}", p, "{% include 'mid' %}", "<"+p+">").Replace(main)
		if c.Form%len(c11ReregMains) == 2 {
			out = "[" + p + p + "]"
		}
		return out
	}
	for round, p := range []string{"P1", "P2{{ 1 + 1 }}", "P3"} {
		if round > 0 {
			if c.Route%2 == 1 {
				t, err := e.ParseTemplate(p)
				if err != nil {
					return fmt.Errorf("harness: %v", err)
				}
				e.RegisterTemplate("part", t)
			} else if err := e.RegisterString("part", p); err != nil {
				return fmt.Errorf("harness: %v", err)
			}
		}
		w := want(strings.ReplaceAll(p, "{{ 1 + 1 }}", "2"))
		for i := 0; i < 2; i++ {
			if r := render(e, "main", ctx); r.Failed() || r.Out != w {
				return fmt.Errorf("round %d: 'part' is registered as %s now; %s renders %v, want %s", round, q(p), q(main), r, q(w))
			}
		}
	}
	return nil
}

func TestC11Reregister(t *testing.T) {
	r := NewRec(t, "C11", "exhaustive: 6 includes of one name (plain, with-only, in a loop, ignore missing, computed name, through a second include) x {RegisterString, RegisterTemplate}: the includer is rendered, the included name registered again twice with other content, the includer rendered twice after each; oracle: the content registered now; all cases non-trivial")
	defer r.Flush()
	r.SetExhaustive()
	for form := range c11ReregMains {
		for route := 0; route < 2; route++ {
			c := C11ReregCase{Form: form, Route: route}
			r.Case(fmt.Sprint(form, route), true, c)
			if err := checkC11Rereg(c); err != nil {
				r.FailEnum(t, "C11.rereg", c, err)
			}
		}
	}
}

func init() { reg("C11.rereg", checkC11Rereg) }
