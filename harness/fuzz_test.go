package vh

// Native coverage-guided fuzz targets (thorough tier only). The semantic oracle runs inside
// each target; a failing input is written to $VERIF_OUT as an ordinary replayable case of the
// corresponding check, so the saved input — not the campaign — is the reproducible unit.

import (
	"fmt"
	"regexp"
	"strings"
	"testing"
)

var fuzzTemplates = map[string]string{"inc1": "I{{ a }}", "t1": "T[{% block b %}{% endblock %}]", "lib": "{% macro m0(x) %}M{{ x }}{% endmacro %}", "leaf": "(leaf)"}

func fuzzCtx(sel byte) Ctx {
	var c Ctx
	c.Set("a", Int(int64(sel%7)))
	c.Set("b", Str("bee"))
	c.Set("t", Bool(true))
	c.Set("xs", List(Int(3), Int(1), Int(2)))
	c.Set("m", Hash([]string{"k1", "name"}, []*E{Int(4), Str("nm")}))
	switch sel % 4 {
	case 1:
		c.Set("xs", ZT(List(Int(3), Int(1)), "[]int"))
		c.Set("m", ZT(Hash([]string{"k1"}, []*E{Int(4)}), "map[string]int"))
	case 2:
		c.Set("xs", ZT(List(Str("q")), "[]string"))
		c.Set("m", ZT(Hash([]string{"Name"}, []*E{Str("s")}), "ptrstruct"))
	case 3:
		c.Set("xs", ZPtr(Null()))
		c.Set("m", ZT(Hash([]string{"k"}, []*E{Str("v")}), "map[int]string"))
	}
	return c
}

// resourceBomb: inputs whose cost is proportional to a number they spell out are outside
// the C05 guarantee (they terminate); the fuzzer would otherwise spend its time on them.
func resourceBomb(src string) bool {
	run := 0
	for i := 0; i < len(src); i++ {
		if src[i] >= '0' && src[i] <= '9' {
			run++
			if run > 3 {
				return true
			}
		} else {
			run = 0
		}
	}
	// a macro whose name occurs three times or more (declaration, a call, and possibly a call
	// from its own body) may recurse without a terminating condition: exempt by the statement,
	// and it ends in a fatal stack overflow of the worker rather than in a result
	if possiblyRecursiveMacro(src) {
		return true
	}
	return strings.Count(src, "range") > 1 || strings.Count(src, "{% for") > 3
}

// selfRecursiveMacro: the macros of the source can call each other in a cycle (textually: the
// text between a macro declaration and the next endmacro mentions a macro's name followed by an
// opening parenthesis; the body reaches to the end of the source when something in it can hide
// the endmacro tag from the engine). Unconditional recursion of this kind ends in a fatal stack overflow.
func selfRecursiveMacro(src string) bool {
	type decl struct{ name, body string }
	var decls []decl
	for _, loc := range macroDecl.FindAllStringSubmatchIndex(src, -1) {
		rest := src[loc[1]:]
		if end := strings.Index(rest, "endmacro"); end >= 0 && !mayHideTagEnd(rest[:end]) {
			rest = rest[:end]
		}
		decls = append(decls, decl{src[loc[2]:loc[3]], rest})
	}
	calls := map[string][]string{}
	for _, d := range decls {
		for _, e := range decls {
			if strings.Contains(d.body, e.name+"(") || strings.Contains(d.body, e.name+" (") {
				calls[d.name] = append(calls[d.name], e.name)
			}
		}
	}
	state := map[string]int{}
	var visit func(n string) bool
	visit = func(n string) bool {
		switch state[n] {
		case 1:
			return true
		case 2:
			return false
		}
		state[n] = 1
		for _, m := range calls[n] {
			if visit(m) {
				return true
			}
		}
		state[n] = 2
		return false
	}
	for _, d := range decls {
		if visit(d.name) {
			return true
		}
	}
	return false
}

// mayHideTagEnd: the text can make the engine read past the `endmacro` that follows it — a string
// literal left open (an odd number of unescaped quotes of one kind), a comment or a verbatim
// section swallow tags. The body of the macro is then taken to reach to the end of the source.
func mayHideTagEnd(body string) bool {
	if strings.Contains(body, "{#") || strings.Contains(body, "verbatim") || strings.Contains(body, "raw") {
		return true
	}
	for _, qc := range []byte{'\'', '"'} {
		n := 0
		for i := 0; i < len(body); i++ {
			if body[i] == '\\' {
				i++
				continue
			}
			if body[i] == qc {
				n++
			}
		}
		if n%2 == 1 {
			return true
		}
	}
	return false
}

// possiblyRecursiveMacro: the source declares a macro whose name occurs often enough for a call
// from its own body, or uses _self
func possiblyRecursiveMacro(src string) bool {
	for _, m := range macroDecl.FindAllStringSubmatch(src, -1) {
		if strings.Count(src, m[1]+"(") >= 3 || strings.Contains(src, "_self") {
			return true
		}
	}
	return false
}

var macroDecl = regexp.MustCompile(`macro\s+([A-Za-z_][A-Za-z0-9_]*)`)

func fuzzFail(t *testing.T, check string, c interface{}, err error) {
	r := &Rec{Prop: "C05", Test: t.Name()}
	p := r.saveFail(check, int(hash64(err.Error())%1000), c, err.Error())
	t.Fatalf("%v (case saved to %s)", err, p)
}

func FuzzParseRender(f *testing.F) {
	for _, s := range []string{"{{ a }}", "{% if a %}x{% else %}y{% endif %}", "{% for i in xs %}{{ loop.index }}{{ i }}{% endfor %}", "{% set v = a + 1 %}{{ v|abs }}",
		"{% include 'inc1' with {'a': 1} only %}", "{% extends 't1' %}{% block b %}{{ parent() }}{% endblock %}", "{% import 'lib' as l %}{{ l.m0(1) }}", "{% from 'lib' import m0 as z %}{{ z(2) }}",
		"{% macro m(x, y = 2) %}{{ x }}{% endmacro %}{{ m(1) }}", "{% apply upper %}x{% endapply %}", "{% spaceless %}<a> <b>{% endspaceless %}", "{% verbatim %}{{ a }}{% endverbatim %}", "{#c#}{{- a -}}",
		"{{ m.k1 ~ m['name'] }}", "{{ xs|sort|join(',') }}", "{{ a ? b : xs[0] }}", "{{ [1, 2]|merge(xs)|slice(1, 2)|first }}", "{{ {'k': a}|keys|last }}", "{% for k, v in m %}{{ k }}{% else %}e{% endfor %}",
		"{{ a is defined and b is not empty }}", "{{ b starts with 'b' or b matches '/e+/' }}", "{% do a %}", "{{ '\\'' ~ \"\\\"\" }}", "{%", "{{", "{#", "{% for \xff in xs %}", "{% include \" %}", "{{-}}", "{% if %}", "{{ x[undefined] }}", "{{ xs|merge([1]) }}"} {
		f.Add([]byte(s), byte(0))
		f.Add([]byte(s+strings.Repeat("p", 4100)), byte(1))
	}
	f.Fuzz(func(t *testing.T, src []byte, sel byte) {
		s := string(src)
		if len(s) > 20000 || resourceBomb(s) {
			t.Skip()
		}
		c := C05SrcCase{Templates: fuzzTemplates, Src: BStr(s), Ctx: fuzzCtx(sel)}
		if err := checkC05Src(c); err != nil {
			if strings.Contains(err.Error(), "does not terminate") {
				t.Skip() // the native arm decides panics only; non-termination is confirmed by the generated arms
			}
			fuzzFail(t, "C05.src", c, err)
		}
	})
}

func FuzzDeserialize(f *testing.F) {
	f.Add(validBlob("t", "x{{ a }}", nil))
	f.Add(validBlob("name", "{% if a %}y{% endif %}", []byte("not gob")))
	f.Add([]byte{1, 0xff, 0xff, 0xff, 0xff})
	f.Add([]byte{})
	f.Fuzz(func(t *testing.T, data []byte) {
		c := C05BlobCase{Data: BStr(data)}
		if err := checkC05Blob(c); err != nil {
			fuzzFail(t, "C05.blob", c, err)
		}
	})
}

// FuzzLiteralText decodes the input into a segment list (C04): byte 0 selects the segment
// kind, the following bytes are its payload, so the fuzzer explores layouts.
func FuzzLiteralText(f *testing.F) {
	f.Add([]byte("0hello\x001p0\x002 note \x003raw {{ v0 }}"))
	f.Add([]byte("0{x}%#\\\x000\xff\xfe"))
	f.Fuzz(func(t *testing.T, data []byte) {
		if len(data) > 8000 {
			t.Skip()
		}
		c := C04Case{Vals: map[string]BStr{"p0": "<P0&>", "p1": "{{ nope }}"}}
		for _, part := range strings.Split(string(data), "\x00") {
			if part == "" {
				continue
			}
			body := part[1:]
			switch part[0] % 6 {
			case 0, 1:
				c.Segs = append(c.Segs, Text(body))
			case 2:
				c.Segs = append(c.Segs, Print(Var(fmt.Sprintf("p%d", len(body)%2))))
			case 3:
				c.Segs = append(c.Segs, &S{K: "comment", T: BStr(strings.ReplaceAll(body, "#}", "# }"))})
			case 4:
				vb, _ := fixTextBeforeTag(breakDelims(body))
				c.Segs = append(c.Segs, &S{K: "verbatim", T: BStr(vb)})
			default:
				c.Segs = append(c.Segs, &S{K: "for", Name: "qq", E: List(Int(1), Int(2)), Body: []*S{Text(body)}})
			}
		}
		if len(c.Segs) == 0 {
			t.Skip()
		}
		if err := checkC04(c); err != nil {
			r := &Rec{Prop: "C04", Test: t.Name()}
			p := r.saveFail("C04.text", int(hash64(err.Error())%1000), c, err.Error())
			t.Fatalf("%v (case saved to %s)", err, p)
		}
	})
}

func FuzzCompiledRoundTrip(f *testing.F) {
	f.Add([]byte("n"), []byte("src {{ a }}"), int64(1), int64(2), []byte("ast"))
	f.Add([]byte{}, []byte{}, int64(-1), int64(0), []byte{})
	f.Fuzz(func(t *testing.T, name, src []byte, lm, ct int64, ast []byte) {
		c := C16RoundTrip{Name: BStr(name), Source: BStr(src), LastModified: lm, CompileTime: ct, AST: BStr(ast)}
		if err := checkC16RoundTrip(c); err != nil {
			r := &Rec{Prop: "C16", Test: t.Name()}
			p := r.saveFail("C16.roundtrip", int(hash64(err.Error())%1000), c, err.Error())
			t.Fatalf("%v (case saved to %s)", err, p)
		}
	})
}
