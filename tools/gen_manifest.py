#!/usr/bin/env python3
"""Regenerates /verif/MANIFEST.json from checks_table.py and manifest_text.py."""
import json, os, sys
ROOT = os.path.dirname(os.path.dirname(os.path.abspath(__file__)))
sys.path.insert(0, ROOT)
from checks_table import CHECKS
from manifest_text import TEXT, NOT_APPLICABLE, HOOK_COMMITS

props = [json.loads(l)["id"] for l in open(os.path.join(ROOT, "properties.jsonl"))]
checks = []
for pid in props:
    if pid not in CHECKS:
        continue
    tx = TEXT[pid]
    checks.append({
        "property_id": pid,
        "quick_cmd": "./check %s --tier quick" % pid,
        "thorough_cmd": "./check %s --tier thorough" % pid,
        "evidence_file": "/verif/evidence/%s.json" % pid,
        "replay_cmd_template": "./check %s --replay {path}" % pid,
        "engine": "harness",
        "level_claimed": {"category": CHECKS[pid]["level"], "text": tx["level_text"] + " Test functions (each reported under per_test in the evidence, with its own case rule): " + ", ".join(t["name"] for t in CHECKS[pid]["tests"]) + ".", "design_ref": "DESIGN.md section 4, " + pid},
        "level_note": tx["level_note"],
        "technique": tx["technique"],
    })
na = [{"property_id": p, "reason": NOT_APPLICABLE.get(p, "check not built yet in this session (planned, see DESIGN.md section 4)")}
      for p in props if p not in CHECKS]
m = {
    "version": 1,
    "setup_cmd": "./check --setup",
    "hooks": {
        "guard": "verif",
        "enable": "none needed: every observation point is reachable through the public API (go test -tags verif would enable hooks if any existed)",
        "baseline_off_cmd": "cd /repo && go test -mod=mod -vet=off -count=1 -timeout 25m ./...",
        "source_commits": HOOK_COMMITS,
        "add_only": True,
    },
    "engines": [{"name": "harness", "path": "/verif/harness", "serves_properties": [c["property_id"] for c in checks],
                 "kind_free_text": "Go test binary (pgregory.net/rapid v1.3.0 generators + bounded enumerations + reference model) built against /repo's working tree via a replace directive; driven by /verif/check"}],
    "checks": checks,
    "notes": "All checks are property-based tests / fuzzing with explicit oracles (DESIGN.md). Exit 0/1/2 protocol in DESIGN.md 2.4. VERIF_SEED and VERIF_TIER honoured. Genuine defects repaired in /repo as 'fix:' commits are recorded in /verif/known_findings.json; open findings are listed there with concrete replay cases.",
    "not_applicable": na,
}
json.dump(m, open(os.path.join(ROOT, "MANIFEST.json"), "w"), indent=1)
print("MANIFEST.json: %d checks, %d not_applicable" % (len(checks), len(na)))
