#!/usr/bin/env python3
"""Developer helper (never run by a check): re-express one seeded patch on the current /repo HEAD
after a repair made it stop applying.
usage: REEXPRESS_WT=<scratch worktree of /repo at HEAD> reexpress.py <seeded id>
It takes, per file of the patch, the pre-image blob named on the patch's index line, applies the
patch to it, and merges (git merge-file --theirs, hunk level) that result into the worktree's
file; the new diff is written to /tmp/newpatch-<id>.diff. Re-validate it with
tools/seeded.py validate <dir with patch.diff, demo_test.go, meta.json> <id>."""
import re,subprocess,sys,os,shutil,tempfile
pid=sys.argv[1]
patch=open(f'/verif/seeded/{pid}/patch.diff').read()
wt=os.environ.get('REEXPRESS_WT','/tmp/wtrx')
subprocess.run(['git','-C',wt,'reset','-q','--hard'],check=True)
tmp=tempfile.mkdtemp(prefix='rex-')
files=re.findall(r'(?m)^diff --git a/(\S+) b/\S+\nindex ([0-9a-f]+)\.\.([0-9a-f]+)',patch)
for path,pre,post in files:
    base=subprocess.run(['git','-C','/repo','cat-file','-p',pre],capture_output=True).stdout
    for d in ('base','theirs'):
        os.makedirs(os.path.join(tmp,d,os.path.dirname(path)),exist_ok=True)
        open(os.path.join(tmp,d,path),'wb').write(base)
r=subprocess.run(['patch','-p1','-s','-i',f'/verif/seeded/{pid}/patch.diff'],cwd=os.path.join(tmp,'theirs'),capture_output=True,text=True)
if r.returncode!=0: print(pid,'PATCH-FAILED',r.stdout[:200]); sys.exit(1)
for path,pre,post in files:
    ours=os.path.join(wt,path)
    r=subprocess.run(['git','merge-file','--theirs','-p',ours,os.path.join(tmp,'base',path),os.path.join(tmp,'theirs',path)],capture_output=True)
    open(ours,'wb').write(r.stdout)
d=subprocess.run(['git','-C',wt,'diff'],capture_output=True,text=True).stdout
open(f'/tmp/newpatch-{pid}.diff','w').write(d)
shutil.rmtree(tmp)
print(pid,'resolved',len(d.splitlines()))
