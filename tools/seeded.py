#!/usr/bin/env python3
"""Developer tool (not a registered check): validate seeded property-breaking changes and run
the checks against them.

  seeded.py validate <src_dir> <id>      verify a candidate (patch.diff, demo_test.go, meta.json) in a scratch
                                         worktree outside /repo and /verif; on success copy it to /verif/seeded/<id>/
  seeded.py run <id> [PID ...]           apply /verif/seeded/<id>/patch.diff to /repo, run ./check for the given
                                         properties (default: the one in meta.json), undo the patch, record the outcome
  seeded.py runall                       run every seeded change against its own property
"""
import json
import os
import shutil
import subprocess
import sys
import time

ROOT = os.path.dirname(os.path.dirname(os.path.abspath(__file__)))
SEEDED = os.path.join(ROOT, "seeded")
TC = "/root/go/pkg/mod/golang.org/toolchain@v0.0.1-go1.24.1.linux-amd64"


def env():
    e = dict(os.environ)
    e["PATH"] = TC + "/bin:" + e["PATH"]
    e.update(GOTOOLCHAIN="local", GOFLAGS="-mod=mod", GOPROXY="off", GOSUMDB="off", GOROOT=TC)
    return e


def sh(cmd, cwd=None, timeout=900):
    p = subprocess.run(cmd, cwd=cwd, env=env(), shell=isinstance(cmd, str), stdout=subprocess.PIPE, stderr=subprocess.STDOUT, timeout=timeout)
    return p.returncode, p.stdout.decode("utf-8", "replace")


def validate(src, mid):
    wt = "/tmp/wt-validate-%d" % os.getpid()
    sh(["git", "-C", "/repo", "worktree", "add", "-q", "--detach", wt, "HEAD"])
    ran = []
    ok = False
    why = ""
    try:
        meta = json.load(open(os.path.join(src, "meta.json")))
        patch = os.path.join(src, "patch.diff")
        demo = os.path.join(src, "demo_test.go")
        demo_cmd = meta.get("demo_cmd") or "go test -vet=off -count=1 -run '^TestDemo$' ."
        rc, out = sh(["git", "apply", "--check", patch], cwd=wt)
        if rc != 0:
            why = "patch does not apply to HEAD: " + out[-300:]
            return False, why, ran
        # pristine: demo passes
        shutil.copy(demo, os.path.join(wt, "zz_demo_test.go"))
        rc, out = sh(demo_cmd, cwd=wt)
        ran.append("pristine: %s -> exit %d" % (demo_cmd, rc))
        if rc != 0:
            why = "demo fails on the pristine tree: " + out[-400:]
            return False, why, ran
        os.remove(os.path.join(wt, "zz_demo_test.go"))
        sh(["git", "apply", patch], cwd=wt)
        rc, out = sh("go build ./...", cwd=wt)
        ran.append("patched: go build ./... -> exit %d" % rc)
        if rc != 0:
            why = "does not build: " + out[-400:]
            return False, why, ran
        rc, out = sh("go test -vet=off -count=1 ./...", cwd=wt)
        ran.append("patched: go test -vet=off -count=1 ./... (existing suite) -> exit %d" % rc)
        if rc != 0:
            why = "existing suite fails with the change: " + out[-600:]
            return False, why, ran
        shutil.copy(demo, os.path.join(wt, "zz_demo_test.go"))
        fails = 0
        for attempt in range(3):
            rc, out = sh(demo_cmd, cwd=wt)
            if rc != 0:
                fails += 1
        ran.append("patched: %s -> failed %d/3 runs" % (demo_cmd, fails))
        if fails == 0:
            why = "demo does not fail with the change"
            return False, why, ran
        ok = True
        return True, "", ran
    finally:
        sh(["git", "-C", "/repo", "worktree", "remove", "--force", wt])
        if ok:
            dst = os.path.join(SEEDED, mid)
            os.makedirs(dst, exist_ok=True)
            shutil.copy(os.path.join(src, "patch.diff"), os.path.join(dst, "patch.diff"))
            shutil.copy(os.path.join(src, "demo_test.go"), os.path.join(dst, "demo_test.go"))
            meta = json.load(open(os.path.join(src, "meta.json")))
            meta["validated"] = ran
            meta["id"] = mid
            json.dump(meta, open(os.path.join(dst, "meta.json"), "w"), indent=1)


def repo_clean():
    rc, out = sh(["git", "-C", "/repo", "status", "--porcelain"])
    return out.strip() == ""


def run(mid, pids=None, tier="quick"):
    d = os.path.join(SEEDED, mid)
    meta = json.load(open(os.path.join(d, "meta.json")))
    pids = pids or [meta["property"]]
    if not repo_clean():
        print("refusing: /repo has uncommitted changes")
        sys.exit(2)
    rc, out = sh(["git", "-C", "/repo", "apply", os.path.join(d, "patch.diff")])
    if rc != 0:
        print("patch no longer applies:", out[-300:])
        return None
    results = {}
    try:
        for pid in pids:
            t0 = time.time()
            rc, out = sh([os.path.join(ROOT, "check"), pid, "--tier", tier], cwd=ROOT, timeout=3600)
            first = next((l for l in out.splitlines() if l.startswith("VIOLATION")), "")
            msg = ""
            lines = out.splitlines()
            for i, l in enumerate(lines):
                if l.startswith("VIOLATION") and i + 1 < len(lines):
                    msg = lines[i + 1].strip()[:300]
                    break
            results[pid] = {"exit": rc, "tier": tier, "wall_s": round(time.time() - t0, 1), "violation": first != "", "first_message": msg}
            print("%s vs %s [%s]: exit %d %s" % (mid, pid, tier, rc, msg[:160]))
    finally:
        sh(["git", "-C", "/repo", "checkout", "--", "."])
        # evidence files were rewritten against a modified tree: restore the committed ones
        sh(["git", "-C", ROOT, "checkout", "--", "evidence"])
    meta.setdefault("check_results", {}).update(results)
    json.dump(meta, open(os.path.join(d, "meta.json"), "w"), indent=1)
    return results


def prun(mid, pids=None, tier="quick"):
    """like run(), but on a scratch worktree (VERIF_DEV_REPO) so that several can run at once and
    /repo is never touched"""
    d = os.path.join(SEEDED, mid)
    meta = json.load(open(os.path.join(d, "meta.json")))
    pids = pids or [meta["property"]]
    wt = "/tmp/wt-prun-%s-%d" % (mid, os.getpid())
    sh(["git", "-C", "/repo", "worktree", "add", "-q", "--detach", wt, "HEAD"])
    results = {}
    try:
        rc, out = sh(["git", "apply", os.path.join(d, "patch.diff")], cwd=wt)
        if rc != 0:
            print(mid, "patch no longer applies:", out[-300:])
            return None
        for pid in pids:
            t0 = time.time()
            e = env()
            e["VERIF_DEV_REPO"] = wt
            p = subprocess.run([os.path.join(ROOT, "check"), pid, "--tier", tier], cwd=ROOT, env=e, stdout=subprocess.PIPE, stderr=subprocess.STDOUT, text=True, timeout=7200)
            rc, out = p.returncode, p.stdout
            msg = ""
            lines = out.splitlines()
            first = ""
            for i, l in enumerate(lines):
                if l.startswith("VIOLATION"):
                    first = l
                    if i + 1 < len(lines):
                        msg = lines[i + 1].strip()[:300]
                    break
            results[pid] = {"exit": rc, "tier": tier, "wall_s": round(time.time() - t0, 1), "violation": first != "", "first_message": msg}
            print("%s vs %s [%s]: exit %d %s" % (mid, pid, tier, rc, msg[:200]), flush=True)
    finally:
        sh(["git", "-C", "/repo", "worktree", "remove", "--force", wt])
    if os.environ.get("SEEDED_NO_RECORD") != "1":
        meta = json.load(open(os.path.join(d, "meta.json")))
        meta.setdefault("check_results", {}).update(results)
        json.dump(meta, open(os.path.join(d, "meta.json"), "w"), indent=1)
    return results


def main():
    a = sys.argv[1:]
    if a[0] == "prun":
        tier = "quick"
        rest = a[2:]
        if rest and rest[0] in ("quick", "thorough"):
            tier = rest[0]
            rest = rest[1:]
        prun(a[1], rest or None, tier)
        return
    if a[0] == "validate":
        ok, why, ran = validate(a[1], a[2])
        print(a[2], "VALID" if ok else "REJECTED: " + why)
        for r in ran:
            print("   ", r)
    elif a[0] == "run":
        tier = "quick"
        rest = a[2:]
        if rest and rest[0] in ("quick", "thorough"):
            tier = rest[0]
            rest = rest[1:]
        run(a[1], rest or None, tier)
    elif a[0] == "runall":
        for mid in sorted(os.listdir(SEEDED)):
            if os.path.exists(os.path.join(SEEDED, mid, "patch.diff")):
                run(mid)


if __name__ == "__main__":
    main()
