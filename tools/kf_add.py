#!/usr/bin/env python3
"""Developer helper (never run by a check): add or replace one entry of known_findings.json.
usage: kf_add.py ID PROPERTY open|fixed COMMIT|- "what" < cases.json   (cases: JSON list)"""
import json, sys, os
ROOT = os.path.dirname(os.path.dirname(os.path.abspath(__file__)))
p = os.path.join(ROOT, "known_findings.json")
kf = json.load(open(p))
fid, prop, status, commit, what = sys.argv[1:6]
cases = json.load(sys.stdin)
e = {"id": fid, "property": prop, "status": status, "what": what, "cases": cases}
if status == "fixed":
    e["commit"] = commit
    e["record"] = "fixed: property=%s %s %s" % (prop, commit, what)
kf["findings"] = [f for f in kf["findings"] if f["id"] != fid] + [e]
kf["findings"].sort(key=lambda f: (int(''.join(c for c in f["id"] if c.isdigit()) or 0), f["id"]))
json.dump(kf, open(p, "w"), indent=1, ensure_ascii=True)
print("known findings:", len(kf["findings"]))
