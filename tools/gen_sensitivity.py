#!/usr/bin/env python3
"""Writes SENSITIVITY.md and the section-9 table of DESIGN.md from /verif/seeded/*/meta.json."""
import json, os, re
ROOT = os.path.dirname(os.path.dirname(os.path.abspath(__file__)))
d = os.path.join(ROOT, "seeded")
rows = []
for m in sorted(os.listdir(d)):
    p = os.path.join(d, m, "meta.json")
    if not os.path.exists(p):
        continue
    meta = json.load(open(p))
    r = meta.get("check_results", {})
    hits = sorted(k for k, v in r.items() if v.get("violation"))
    msg = ""
    for k in hits:
        msg = r[k].get("first_message", "")
        break
    rows.append((m, meta["property"], meta.get("summary", "").replace("|", "\\|").replace("\n", " "), meta.get("needs", "").replace("|", "\\|").replace("\n", " "), hits, msg.replace("|", "\\|")))
caught = sum(1 for r in rows if r[4])
out = ["# Seeded changes and what the checks said\n",
       "Each change below was written by an independent sub-agent that saw only the text of one property and its own scratch worktree of /repo (nothing from /verif). Every change compiles, keeps the 365 pinned tests green and comes with a demonstration test that fails with the change and passes without it; all of that was re-verified by `tools/seeded.py validate` in a scratch worktree before the change was kept under `/verif/seeded/<id>/` (patch.diff, demo_test.go, meta.json). `tools/seeded.py run <id>` applies the patch to /repo, runs the quick tier of the named checks and restores /repo.\n",
       "**%d of %d seeded changes are caught by the quick tier** of at least one check.\n" % (caught, len(rows)),
       "| id | property | change | needs | caught by (quick) | first message |", "|---|---|---|---|---|---|"]
for (m, pid, summ, needs, hits, msg) in rows:
    out.append("| %s | %s | %s | %s | %s | %s |" % (m, pid, summ[:300], needs[:220], ", ".join(hits) if hits else "**not caught**", msg[:160]))
notes = open(os.path.join(ROOT, "tools", "sensitivity_notes.md")).read() if os.path.exists(os.path.join(ROOT, "tools", "sensitivity_notes.md")) else ""
open(os.path.join(ROOT, "SENSITIVITY.md"), "w").write("\n".join(out) + "\n\n" + notes)
print("SENSITIVITY.md: %d/%d caught" % (caught, len(rows)))
