# Per-property test plan read by ./check.
#   checks: [quick, thorough] rapid case counts per shard; shards: [quick, thorough] processes
#   enum: plain (non-rapid) test run once; floor: minimal share of non-trivial cases
K = {"name": "TestKnown", "enum": True}

CHECKS = {
    "C05": {
        "level": "exploration",
        "tests": [
            {"name": "TestC05Mutations", "checks": [40, 800], "shards": [4, 16], "floor": 0.6},
            {"name": "TestC05Soup", "checks": [4000, 100000], "shards": [2, 16], "floor": 0.6},
            {"name": "TestC05Shapes", "enum": True},
            {"name": "TestC05Fused", "enum": True},
            {"name": "TestC05Blobs", "enum": True},
            {"name": "TestC05AttrFlood", "enum": True},
            {"name": "FuzzParseRender", "fuzz": True, "fuzztime": [0, 150]},
            {"name": "FuzzDeserialize", "fuzz": True, "fuzztime": [0, 60]},
            K,
        ],
        "assumptions": ["absence of panics is only established on generated paths", "self-referential templates, panicking user callbacks and resource bombs that terminate (huge ranges, huge exponents) are outside the guarantee and not generated"],
    },
    "C01": {
        "level": "exploration",
        "tests": [
            {"name": "TestC01History", "checks": [150, 3000], "shards": [4, 16], "floor": 0.8, "gomaxprocs": 1},
            K,
        ],
        "assumptions": ["object reuse in sync.Pool is per-P and probabilistic: histories run on a single P with GC actions to maximise reuse; recycling is observable only through its effect on results",
                        "registered names are rendered only while the cache is on"],
    },
    "C02": {
        "level": "exploration",
        "tests": [
            {"name": "TestC02Concurrent", "checks": [40, 600], "shards": [2, 16], "race": True, "floor": 0.9, "shrinktime": "30s"},
            {"name": "TestC02AttrCache", "enum": True, "race": True},
            {"name": "TestC02Deep", "enum": True, "race": True},
            {"name": "TestC02Reload", "enum": True, "race": True},
            K,
        ],
        "assumptions": ["schedules are explored by repetition, goroutine counts, GOMAXPROCS and yields, not enumerated; the race detector flags unsynchronised conflicting accesses without needing the bad timing",
                        "the engine is fully configured before the goroutines start"],
    },
    "C18": {
        "level": "exploration",
        "tests": [
            {"name": "TestC18Immutable", "checks": [3000, 60000], "shards": [2, 16], "floor": 0.85},
            {"name": "TestC18Race", "checks": [150, 3000], "shards": [1, 8], "race": True, "floor": 0.85},
            K,
        ],
        "assumptions": ["the Go race detector reports a write to shared caller data when it overlaps a read by another render (20 renders from 4 goroutines per case)"],
    },
    "C15": {
        "level": "exploration",
        "tests": [
            {"name": "TestC15Cache", "checks": [3000, 80000], "shards": [2, 16], "floor": 0.65},
            {"name": "TestC15Short", "enum": True},
            {"name": "TestC15Library", "enum": True},
            {"name": "TestC15Files", "checks": [400, 20000], "shards": [1, 8], "floor": 0.5},
            K,
        ],
        "assumptions": ["registrations while the cache is off and reads of registered names while the cache is off are outside the domain (the statement's clauses conflict there)",
                        "content changes always come with a strictly larger timestamp; no claim for loaders without timestamps under auto-reload"],
    },
    "C16": {
        "level": "exploration",
        "tests": [
            {"name": "TestC16RoundTrip", "checks": [1500, 30000], "shards": [1, 8], "floor": 0.5},
            {"name": "TestC16Render", "checks": [1500, 30000], "shards": [2, 16], "floor": 0.7},
            {"name": "TestC16Files", "checks": [300, 6000], "shards": [1, 8], "floor": 0.5},
            {"name": "TestC16Static", "enum": True},
            {"name": "FuzzCompiledRoundTrip", "fuzz": True, "fuzztime": [0, 60]},
            K,
        ],
        "assumptions": ["CompileTime is taken from the clock at compile time and is only compared across serialise/deserialise, never with an expected value"],
    },
    "C20": {
        "level": "exploration",
        "tests": [
            {"name": "TestC20Attr", "checks": [150, 300], "shards": [2, 16], "floor": 0.8},
            {"name": "TestC20Family", "enum": True},
            {"name": "TestC20Concurrent", "enum": True},
            K,
        ],
        "assumptions": ["the expected member is computed with the reflect package (FieldByName, MethodByName, MapIndex) and printed through the engine's own {{ v }}",
                        "x['name'] is only claimed for maps"],
    },
    "C19": {
        "level": "exploration",
        "tests": [
            {"name": "TestC19Laws", "checks": [3000, 150000], "shards": [2, 16], "floor": 0.5},
            {"name": "TestC19Numbers", "checks": [3000, 150000], "shards": [1, 8], "floor": 0.6},
            {"name": "TestC19SliceGrid", "enum": True},
            {"name": "TestC19Default", "enum": True},
            K,
        ],
        "assumptions": ["results are observed through json_encode and decoded with encoding/json",
                        "join/split round trip only for single-character separators (multi-character separators: known finding F28, pinned by an existing test)"],
    },
    "C03": {
        "level": "exploration",
        "tests": [
            {"name": "TestC03Determinism", "checks": [1500, 30000], "shards": [2, 16], "floor": 0.85},
            {"name": "TestC03Dates", "enum": True},
            {"name": "TestC03LongRender", "enum": True},
            {"name": "TestC03Swap", "enum": True},
            K,
        ],
        "assumptions": ["a nondeterministic construct shows a difference within 8 in-process renders x 3 context materialisations (+ 2 fresh processes for every 5th case)",
                        "the process time zone (TZ=UTC in env.sh) counts as configuration: dates given as integers or strings carry no zone and are formatted in it; time.Time values with a zone of their own must format alike in every process time zone (checked in TestC03Swap)"],
    },
    "C06": {
        "level": "exploration",
        "tests": [
            {"name": "TestC06Sandbox", "checks": [2500, 100000], "shards": [2, 16], "floor": 0.6},
            {"name": "TestC06Matrix", "enum": True},
            {"name": "TestC06Named", "checks": [300, 6000], "shards": [1, 8], "floor": 0.5},
            {"name": "TestC06Flip", "checks": [300, 6000], "shards": [1, 8], "floor": 0.5},
            K,
        ],
        "assumptions": ["carriers that are themselves function calls (macro names, parent) are allowed by the policy so that only the occurrence is forbidden",
                        "an occurrence is only claimed when it is live: the spy runs when the same templates are rendered without `sandboxed`"],
    },
    "C17": {
        "level": "fault_enumeration",
        "tests": [
            {"name": "TestC17Faults", "checks": [600, 15000], "shards": [4, 16], "floor": 0.6},
            {"name": "TestC17Names", "checks": [2000, 50000], "shards": [2, 16]},
            {"name": "TestC17Overrides", "enum": True},
            {"name": "TestC17Unknown", "enum": True},
            {"name": "TestC17Loaders", "checks": [1000, 30000], "shards": [1, 8]},
            K,
        ],
        "assumptions": ["faults are injected through user callbacks (function, filter, test) and template lookups; undefined variables/attributes and `ignore missing` on a missing template are documented tolerances, not faults"],
    },
    "C12": {
        "level": "exploration",
        "tests": [
            {"name": "TestC12Macros", "checks": [2000, 50000], "shards": [2, 16], "floor": 0.8},
            {"name": "TestC12Arity", "enum": True},
            K,
        ],
        "assumptions": ["macro bodies read only their parameters (README: macros have their own scope) plus names they assign themselves; macro results are observed in print position only"],
    },
    "C11": {
        "level": "exploration",
        "tests": [
            {"name": "TestC11Include", "checks": [3000, 100000], "shards": [2, 16], "floor": 0.85},
            {"name": "TestC11Options", "enum": True},
            {"name": "TestC11Relative", "enum": True},
            {"name": "TestC11Later", "enum": True},
            {"name": "TestC11Deep", "enum": True},
            K,
        ],
        "assumptions": ["only the hash-literal form of `with` is generated (the README documents no other)",
                        "whether an included template may call the includer's macros or see its blocks is not specified and never relied upon"],
    },
    "C10": {
        "level": "exploration",
        "tests": [
            {"name": "TestC10Inheritance", "checks": [3000, 100000], "shards": [2, 16], "floor": 0.75},
            {"name": "TestC10Grid", "enum": True},
            {"name": "TestC10Scale", "enum": True},
            {"name": "TestC10Flatten", "checks": [3000, 100000], "shards": [2, 16], "floor": 0.6},
            K,
        ],
        "assumptions": ["child templates contain only blocks, text and comments at top level; overriding blocks are defined at the top level of the child"],
    },
    "C14": {
        "level": "exploration",
        "tests": [
            {"name": "TestC14Padding", "checks": [500, 20000], "shards": [2, 16], "floor": 0.5},
            {"name": "TestC14Thresholds", "enum": True},
            {"name": "TestC14Routes", "enum": True},
            {"name": "TestC14Comments", "enum": True},
            {"name": "TestC14Soup", "checks": [4000, 60000], "shards": [2, 16], "floor": 0.5},
            K,
        ],
        "assumptions": ["padding text has non-blank ends and contains no opening delimiter; comment padding is not placed next to dashed delimiters"],
    },
    "C13": {
        "level": "exploration",
        "tests": [
            {"name": "TestC13Dashes", "checks": [3000, 100000], "shards": [2, 16], "floor": 0.7},
            {"name": "TestC13Singles", "enum": True},
            {"name": "TestC13TokenSweep", "enum": True},
            {"name": "TestC13ManyDashes", "enum": True},
            K,
        ],
        "assumptions": ["a dash affects only the text segment adjacent to its delimiter (an all-blank segment is removed entirely; trimming does not continue beyond the next tag)"],
    },
    "C04": {
        "level": "exploration",
        "tests": [
            {"name": "TestC04Text", "checks": [4000, 150000], "shards": [2, 16], "floor": 0.7},
            {"name": "TestC04Bytes", "enum": True},
            {"name": "TestC04Dashes", "enum": True},
            {"name": "FuzzLiteralText", "fuzz": True, "fuzztime": [0, 120]},
            K,
        ],
        "assumptions": ["text directly before a tag never ends in '{' or '\\' and no text contains an opening delimiter (the property does not say how '{{{' or '\\{{' read)"],
    },
    "C09": {
        "level": "exploration",
        "tests": [
            {"name": "TestC09Flow", "checks": [3000, 100000], "shards": [2, 16], "floor": 0.7},
            {"name": "TestC09Truthiness", "enum": True},
            {"name": "TestC09Pointers", "enum": True},
            {"name": "TestC09Loops", "enum": True},
            K,
        ],
        "assumptions": ["the reference interpreter (harness/stmt.go, rm.go) is the executable reading of C09",
                        "loop variables and `loop` are never read after their loop; maps are iterated only with <= 1 entry"],
    },
    "C08": {
        "level": "exploration",
        "tests": [
            {"name": "TestC08Expr", "checks": [4000, 150000], "shards": [2, 16], "floor": 0.8},
            {"name": "TestC08Triples", "enum": True},
            {"name": "TestC08Spacing", "enum": True},
            {"name": "TestC08RawSpacing", "enum": True},
            {"name": "TestC08Scale", "enum": True},
            K,
        ],
        "assumptions": ["the reference model (harness/rm.go) is the executable reading of the operator table in C08",
                        "operands stay inside the domain the statement covers (ints within 2^53, exact division, same-typed ==, non-numeric-looking strings)"],
    },
    "C07": {
        "level": "exploration",
        "tests": [
            {"name": "TestC07Escape", "checks": [3000, 300000], "shards": [1, 16], "floor": 0.6},
            {"name": "TestC07Routes", "checks": [3000, 300000], "shards": [1, 8], "floor": 0.6},
            {"name": "TestC07Concurrent", "checks": [60, 2000], "shards": [1, 8], "race": True},
            {"name": "TestC07Codepoints", "enum": True},
            K,
        ],
        "assumptions": ["html.UnescapeString (Go standard library) is a correct decoder of the character references involved",
                        "the pre-image of a non-string value is what the engine prints for it without the filter"],
    },
}
