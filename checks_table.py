# Per-property test plan read by ./check.
#   checks: [quick, thorough] rapid case counts per shard; shards: [quick, thorough] processes
#   enum: plain (non-rapid) test run once; floor: minimal share of non-trivial cases
K = {"name": "TestKnown", "enum": True}

CHECKS = {
    "C07": {
        "level": "exploration",
        "tests": [
            {"name": "TestC07Escape", "checks": [3000, 30000], "shards": [1, 16], "floor": 0.75},
            {"name": "TestC07Routes", "checks": [3000, 30000], "shards": [1, 8], "floor": 0.75},
            {"name": "TestC07Codepoints", "enum": True},
            K,
        ],
        "assumptions": ["html.UnescapeString (Go standard library) is a correct decoder of the character references involved",
                        "the pre-image of a non-string value is what the engine prints for it without the filter"],
    },
}
