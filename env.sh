# sourced by the driver and by humans: offline Go toolchain matching /repo/go.mod (go 1.24.1)
TC=/root/go/pkg/mod/golang.org/toolchain@v0.0.1-go1.24.1.linux-amd64
if [ -x "$TC/bin/go" ]; then export PATH="$TC/bin:$PATH"; export GOROOT="$TC"; fi
export GOTOOLCHAIN=local GOFLAGS=-mod=mod GOPROXY=off GOSUMDB=off TZ=UTC LC_ALL=C
