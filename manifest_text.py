HOOK_COMMITS = []
NOT_APPLICABLE = {}
TEXT = {
 "C07": {
  "technique": "property-based testing (rapid) + exhaustive code-point enumeration; oracle = independent decoder round-trip (html.UnescapeString) + raw-character scan + e/escape differential",
  "level_text": "Exploration: every Unicode code point, every byte and hostile byte pairs exhaustively through the registered filter and the built-in fallback; thousands of random strings (incl. invalid UTF-8, already-escaped text) as 8 Go value shapes in 11 syntactic positions plus the fallback and macro-text routes. Absence of a counterexample outside the enumerated sub-space is not established.",
  "level_note": "Trusted: Go's html.UnescapeString as reference decoder; rapid's generators; for non-string values the pre-image is the engine's own unfiltered print of the value.",
 },
 "C08": {
  "technique": "property-based testing (rapid, type-directed tree generator) + exhaustive operator-triple and spacing enumeration; oracle = reference evaluator written from the operator table + metamorphic minimal-vs-fully-parenthesised spelling + spy-call sequence + position equivalence",
  "level_text": "Exploration: random typed expression trees up to depth 5 (thorough 6) in 11 syntactic positions with random whitespace and redundant parentheses, compared with an independent reference evaluator and with their fully parenthesised spelling, including the order of spy invocations; all typable triples of 12 representative operators in all 5 tree shapes and every operator x whitespace spelling are enumerated exhaustively. Absence of counterexamples beyond the explored trees is not established.",
  "level_note": "Trusted: the reference model harness/rm.go as the executable reading of the operator table; operand domain restricted to what the statement covers (ints within 2^53, exact division, same-typed equality, strings that do not look numeric); unary operators next to binary ones only in the unambiguous arrangements listed in DESIGN.md C08 W.",
 },
 "C09": {
  "technique": "property-based testing (rapid program generator) + exhaustive truthiness-table and loop-counter enumeration; oracle = reference interpreter for if/for/set",
  "level_text": "Exploration: random nested if/elseif/else, for/else and set programs over lists, ranges, strings (multi-byte), one-entry maps, nested lists and empty/undefined sequences compared byte-for-byte with a reference interpreter; the truthiness table x every branching construct, all seven loop counters at every position for lengths 0..14 (lists, strings, ranges), a 9x9x8 grid of range(start,end,step) and outer counters after inner loops are enumerated exhaustively.",
  "level_note": "Trusted: reference interpreter harness/stmt.go. Not covered: reading loop variables after their loop (no rule), iteration order of maps with more than one entry (C03).",
 },
 "C04": {
  "technique": "property-based testing (rapid byte-level segment generator) + exhaustive byte/byte-pair placement enumeration; oracle = concatenation of literal segments computed by the harness, spy invocation count, context-independence of verbatim bodies",
  "level_text": "Exploration: templates built from literal text over all 256 byte values, prints of known values, comments and verbatim bodies seeded with code that must not run, below and above the 4096-byte tokenizer switch, compared byte-for-byte with the harness's own concatenation; every byte value and every pair of 16 hostile bytes before/between/after three tag kinds enumerated exhaustively in both size classes.",
  "level_note": "Excluded by construction and counted: text that contains an opening delimiter, or ends in '{' or '\\' directly before a tag (the statement does not say how '{{{' and the tokenizer's backslash escape read). Verbatim bodies containing tag syntax are checked for context-independence, not byte equality (as the statement says).",
 },
 "C13": {
  "technique": "property-based testing (rapid) + exhaustive per-tag-kind/per-side enumeration; oracle = metamorphic relation dashed template vs hand-trimmed dash-free template",
  "level_text": "Exploration: random control-flow programs with whitespace-rich text and random subsets of dashed delimiters compared with the same program without dashes and with the adjacent whitespace deleted by the harness (output and parse success); every tag kind (print, if/elseif/else/endif, for/else/endfor, set, do, block, apply, spaceless, verbatim, include, macro, import, from, extends) x each delimiter x {left, right, both} enumerated exhaustively.",
  "level_note": "Assumes a dash affects only the adjacent text segment (trimming does not continue past the next tag). The dash-free template's own meaning is tied to the reference model by C09-C12.",
 },
 "C14": {
  "technique": "property-based testing (rapid) + exhaustive threshold enumeration; oracle = metamorphic relation padded template vs sentinel-marked unpadded template",
  "level_text": "Exploration: control-flow programs (with and without dashes) padded at 1-3 insertion points with literal text of sizes straddling 4096 bytes up to 100 KB (thorough 300 KB) or with up to 400 comments (token thresholds 32/1000), compared with the unpadded rendering in which unique sentinels mark the insertion points; every tag-kind template x single-dash variant padded before/after to total lengths 4094..4099 and 8192 enumerated exhaustively.",
  "level_note": "Padding has non-blank ends and contains no opening delimiter. Buffer/pool size classes are exercised through template and output sizes only (no hook into the pools).",
 },
 "C10": {
  "technique": "property-based testing (rapid chain generator) + exhaustive grid over {omit,text,empty,parent()} per level; oracle = reference interpreter implementing block substitution along the extends chain",
  "level_text": "Exploration: extends chains of 1-5 templates over up to 4 blocks placed at top level, in loops, conditionals and other blocks, with every level independently omitting, overriding, blanking or extending (parent() before/after/twice/in an if) each block, static and dynamic parent names, compared with a reference interpreter; all assignments of four forms to the child levels of chains of length 2-4 are enumerated exhaustively (x3 variants of a loop-nested block).",
  "level_note": "Children contain only blocks, text and comments at top level (sets outside blocks are not relied upon, as the model has no rule for them).",
 },
 "C11": {
  "technique": "property-based testing (rapid) + exhaustive option/placement grid; oracle = reference interpreter with probes of the includer's state after each include (non-interference)",
  "level_text": "Exploration: includer plus chains of up to 3 included templates with all combinations of with/only/ignore missing/sandboxed, static and computed names, five placements; included templates read and write the includer's names; the includer probes values, definedness, its macro and loop state afterwards. All 16 option combinations x 4 placements x {existing, missing, failing} are enumerated exhaustively.",
  "level_note": "Only the hash-literal form of `with`; whether an included template can call the includer's macros or see its blocks is unspecified and never relied upon.",
 },
 "C12": {
  "technique": "property-based testing (rapid) + exhaustive arity/default grid; oracle = reference interpreter + metamorphic equality across the five call forms (local, _self, import, from-import, alias)",
  "level_text": "Exploration: random macro libraries (0-5 parameters, any subset with defaults, bodies that test/print/default parameters, assign probed names, call sibling macros) and call sites with fewer/equal/more arguments in loops, blocks and conditionals; each case is rendered through all five ways of reaching a macro and every output must equal the reference interpreter's. The grid 0..4 parameters x default subsets x 0..6 arguments is enumerated exhaustively.",
  "level_note": "Macro bodies read only parameters and names they assign (README says macros have their own scope; the code lets outer variables through, so that is not relied upon either way). Print-position calls only.",
 },
 "C17": {
  "technique": "fault enumeration over generated template structures: every spy-callback invocation (and every loader call) of a fault-free render is made to fail in turn; oracle = errors.Is(err, sentinel) + empty output, through Render, RenderTo and debug mode; plus injected unresolvable names behind guard spies",
  "level_text": "Fault enumeration: for template sets from five structural generators (control flow, inheritance with parent(), include chains, macro libraries via five call forms, apply/spaceless) with spy functions/filters/tests injected at every kind of expression position, each single invocation of the fault-free render (all when <= 64, else 64 evenly spaced) is failed once and the top-level call must return an error wrapping the sentinel and no output, via Render, RenderTo and debug mode. Same for every loader call of inheritance/include/import structures, for one unresolvable filter/function/test/template name at an evaluated position, and for built-in filter names re-registered with failing callbacks under each tag that applies a filter itself.",
  "level_note": "Single faults only (one failing invocation per render). Faults are injected through the public callback and loader interfaces. Tolerances exempt by the statement (undefined variables/attributes, ignore missing on a missing template) are excluded by construction.",
 },
 "C06": {
  "technique": "property-based testing (rapid) over carrier chains x occurrence positions + exhaustive position x carrier matrix; oracle = spy invocation counters with an unsandboxed liveness control run, errors.As(*SecurityViolation), and an allowed-policy control run",
  "level_text": "Exploration: a forbidden spy filter or function in 26/21 syntactic positions reached from `include ... sandboxed` through chains of up to 3 (thorough 4) of 14 carriers (include variants, extends, parent(), import, from-import, macros, apply, for, if, block, set) under two policy types. Each case has four runs: unsandboxed (the occurrence must be live), sandboxed (0 invocations, SecurityViolation, no output), sandboxed-but-allowed (same output as unsandboxed), and an occurrence after the include in the including template over two renders (permissions kept, flag does not leak). Every position x every single carrier and all carrier pairs for six positions are enumerated exhaustively.",
  "level_note": "Confinement is observed through harness-registered spy callbacks; built-in filters/functions are assumed to go through the same two choke points as the spies. Carriers that are function calls themselves (macro names, parent) are allowed by the policy.",
 },
 "C03": {
  "technique": "property-based testing (rapid) + exhaustive date-letter pairs; oracle = self-consistency across 8 in-process renders, 3 materialisations of one context description (different map insertion orders, distinct allocations) and 2 fresh OS processes; direct letter-by-letter translator for date formats",
  "level_text": "Exploration: templates that iterate, filter or print maps (untyped and four typed kinds, nested) and hash literals with 2-8 entries in 24 forms, date filters over all 18 translated letters, and non-basic values (pointers, structs, typed slices, arrays, named types) in 7 print positions; every case rendered 8 times on fresh engines with the context rebuilt from its description in three insertion orders, every fifth case additionally in two fresh processes; all outputs must be byte-identical. Every single letter and ordered letter pair of the date formats is enumerated on three instants against the harness's own translator.",
  "level_note": "Determinism is inferred from agreement of 8-10 runs (a 2-entry map has two orders: miss probability 2^-7 per case). The direct date oracle is applied only where letters are separated by literals (how Go's layout parser reads adjacent translated pieces is not part of the statement). Known finding F42 (nested pointers / dump() print addresses) is excluded by construction and replayed.",
 },
 "C19": {
  "technique": "property-based testing (rapid) of algebraic laws and reference implementations + exhaustive slice-argument grid and emptiness table; oracles = the stated equations, a 15-line reference of the slice index rules, math/big exact decimal arithmetic",
  "level_text": "Exploration: idempotence (upper, lower, trim, capitalize), reverse involution and length preservation, sort = ordered permutation that leaves its input alone, length = for-iterations = what first/last/slice see, join/split round trip, list merge = concatenation, map merge = later wins with every key once, and slice index rules, on strings (ASCII, multi-byte, special-casing letters, named type), untyped and typed lists, arrays and maps; slice(start[,length]) enumerated exhaustively for all arguments in [-(n+2), n+2], n <= 6, on six sequence types; default on a table of 30 empty and 25 non-empty values of every numeric width; abs/round/number_format on random decimals against math/big.",
  "level_note": "Results observed through json_encode (trusted as a faithful encoder). Sorting order of numbers: numeric or by printed form are both accepted (the statement does not fix the relation; an existing test pins string order for mixed lists). Exact decimal ties accept either neighbour. Multi-character split separators are a listed known finding (F28) and are not generated.",
 },
 "C20": {
  "technique": "stateful property-based testing (rapid) over lookup histories with cache floods + exhaustive family table; oracle = direct reflection on the Go value, printed through the same observer, and constancy of every answer along the history",
  "level_text": "Exploration: histories of attribute lookups over 2-4 reflect.StructOf types whose shared field names sit at different indices (embedded structs, promoted/shadowed/unexported fields), a hand-written family with value/pointer receiver methods and embedded promotion, and untyped/typed/nested maps, interleaved with floods of up to 1500 (thorough 3000) fresh (type, name) pairs that push the process-wide 1000-entry cache through eviction; each answer is compared with reflection and with the answer given earlier in the same history. The 8 fixed values x 18 names x value/pointer x two forms are enumerated three times around two floods of 1200.",
  "level_note": "The cache is process-wide, so histories of different cases also act on each other (intended). Expected values are printed by the engine's own {{ v }}. x['name'] is claimed for maps only.",
 },
}
