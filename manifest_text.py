HOOK_COMMITS = []
NOT_APPLICABLE = {}
TEXT = {
 "C07": {
  "technique": "property-based testing (rapid) + exhaustive code-point enumeration; oracle = independent decoder round-trip (html.UnescapeString) + raw-character scan + e/escape differential",
  "level_text": "Exploration: every Unicode code point, every byte and hostile byte pairs exhaustively through the registered filter and the built-in fallback; thousands of random strings (incl. invalid UTF-8, already-escaped text) as 8 Go value shapes in 11 syntactic positions plus the fallback and macro-text routes. Absence of a counterexample outside the enumerated sub-space is not established.",
  "level_note": "Trusted: Go's html.UnescapeString as reference decoder; rapid's generators; for non-string values the pre-image is the engine's own unfiltered print of the value.",
 },
 "C08": {
  "technique": "property-based testing (rapid, type-directed tree generator) + exhaustive operator-triple and spacing enumeration; oracle = reference evaluator written from the operator table + metamorphic minimal-vs-fully-parenthesised spelling + spy-call sequence + position equivalence",
  "level_text": "Exploration: random typed expression trees up to depth 5 (thorough 6) in 11 syntactic positions with random whitespace and redundant parentheses, compared with an independent reference evaluator and with their fully parenthesised spelling, including the order of spy invocations; all typable triples of 12 representative operators in all 5 tree shapes and every operator x whitespace spelling are enumerated exhaustively. Absence of counterexamples beyond the explored trees is not established.",
  "level_note": "Trusted: the reference model harness/rm.go as the executable reading of the operator table; operand domain restricted to what the statement covers (ints within 2^53, exact division, same-typed equality, strings that do not look numeric); unary operators next to binary ones only in the unambiguous arrangements listed in DESIGN.md C08 W.",
 },
 "C09": {
  "technique": "property-based testing (rapid program generator) + exhaustive truthiness-table and loop-counter enumeration; oracle = reference interpreter for if/for/set",
  "level_text": "Exploration: random nested if/elseif/else, for/else and set programs over lists, ranges, strings (multi-byte), one-entry maps, nested lists and empty/undefined sequences compared byte-for-byte with a reference interpreter; the truthiness table x every branching construct, all seven loop counters at every position for lengths 0..14 (lists, strings, ranges), a 9x9x8 grid of range(start,end,step) and outer counters after inner loops are enumerated exhaustively.",
  "level_note": "Trusted: reference interpreter harness/stmt.go. Not covered: reading loop variables after their loop (no rule), iteration order of maps with more than one entry (C03).",
 },
}
