HOOK_COMMITS = []
NOT_APPLICABLE = {}
TEXT = {
 "C07": {
  "technique": "property-based testing (rapid) + exhaustive code-point enumeration; oracle = independent decoder round-trip (html.UnescapeString) + raw-character scan + e/escape differential",
  "level_text": "Exploration: every Unicode code point, every byte and hostile byte pairs exhaustively through the registered filter and the built-in fallback; thousands of random strings (incl. invalid UTF-8, already-escaped text) as 8 Go value shapes in 11 syntactic positions plus the fallback and macro-text routes. Absence of a counterexample outside the enumerated sub-space is not established.",
  "level_note": "Trusted: Go's html.UnescapeString as reference decoder; rapid's generators; for non-string values the pre-image is the engine's own unfiltered print of the value.",
 },
}
